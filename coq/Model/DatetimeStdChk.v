(* Model/DatetimeStdChk.v — crates/toml_datetime/src/datetime.rs: `impl FromStr for Datetime` (and the
   four `Display` impls) transcribed a second time, CHECKED: every operation that panics in a build with
   overflow checks / debug assertions is explicit and yields `Panic site` instead of a value:
     * u8 / u16 / u32 / i16 `+ - *` and `u32::pow` ("attempt to ... with overflow"),
     * `whole[end..]` (byte index beyond the end, or not on a char boundary).
   Machine integer types are modelled by their exact ranges (u8 0..=255, u16 0..=65535, u32 0..=2^32-1,
   i16 -32768..=32767).  `/` and `%` occur with non-zero constant divisors only (and never as MIN / -1),
   `as` casts and `u16::from` / `u32::from` cannot panic, there is no `unwrap` / `expect` / `unreachable!`
   / indexing in these functions.

   The unchecked Model/DatetimeStd.v stays what the extracted driver runs; Proofs/DatetimeStdTotal.v
   proves that this file agrees with it wherever it does not panic (`chk_refines`), and that it never
   panics (`from_str_chk_total`).

   Like DatetimeStd.v the model walks BYTES where the Rust code walks `chars()`: every character the code
   accepts is ASCII, so on a non-ASCII character both fail at the same step without arithmetic.  The one
   place where UTF-8 matters for a panic is `whole[end..]`: `end` must be a char boundary.

   The bound of the fraction loop (`if i < 9`) and the top exponent (`8 - i as u32`) are PARAMETERS of the
   checked function, so that the theorem can be stated against the constants read from the source. *)
From TV Require Import Base.Prelude Base.Utf8 Gen.Consts Model.Datetime Model.DatetimeStd.

(* ------------------------------------------------------------------------------------------ *)
(* panic sites and the result type                                                            *)
(* ------------------------------------------------------------------------------------------ *)
Inductive psite : Set :=
| PDigitSub        (* digit():   c as u8 - b'0'                                   (u8 sub) *)
| PYearMul         (* from_str:  y1 * 1000, y2 * 100, y3 * 10                     (u16 mul) *)
| PYearAdd         (* from_str:  ... + ... + ... + y4                             (u16 add) *)
| PTwoMul          (* from_str:  m1 * 10, d1 * 10, h1 * 10, m1 * 10, s1 * 10      (u8 mul) *)
| PTwoAdd          (* from_str:  ... + m2 (etc.)                                  (u8 add) *)
| PFracExpSub      (* from_str:  8 - i as u32                                     (u32 sub) *)
| PFracPow         (* from_str:  10_u32.pow(..)                                   (u32 pow) *)
| PFracByteSub     (* from_str:  byte - b'0'                                      (u8 sub) *)
| PFracMul         (* from_str:  p * u32::from(..)                                (u32 mul) *)
| PFracAdd         (* from_str:  nanosecond += ..                                 (u32 add) *)
| PSlice           (* from_str:  whole[end..]          (end > len, or end not a char boundary) *)
| POffMul          (* from_str:  h1 * 10, m1 * 10, hours * 60, sign * (..)        (i16 mul) *)
| POffAdd          (* from_str:  .. + h2, .. + m2, hours * 60 + minutes           (i16 add) *)
| PDispNeg.        (* Display for Offset:  minutes *= -1                          (i16 mul) *)

Inductive chk (A : Type) : Type := Done (a : A) | Panic (site : psite).
Arguments Done {A}. Arguments Panic {A}.

Definition cbind {A B} (r : chk A) (f : A -> chk B) : chk B :=
  match r with Done a => f a | Panic s => Panic s end.

(* ---- machine arithmetic ---- *)
Definition U8_MAX : N := 255.
Definition U16_MAX : N := 65535.
Definition U32_MAX : N := 4294967295.
Definition I16_MIN : Z := (-32768)%Z.
Definition I16_MAX : Z := 32767%Z.

Definition usub (site : psite) (a b : N) : chk N := if (b <=? a)%N then Done (a - b)%N else Panic site.
Definition uadd (max : N) (site : psite) (a b : N) : chk N := if (a + b <=? max)%N then Done (a + b)%N else Panic site.
Definition umul (max : N) (site : psite) (a b : N) : chk N := if (a * b <=? max)%N then Done (a * b)%N else Panic site.
(* u32::pow: panics as soon as the result does not fit (every intermediate product is below the result) *)
Definition upow (max : N) (site : psite) (b e : N) : chk N := if (b ^ e <=? max)%N then Done (b ^ e)%N else Panic site.
Definition in_i16 (z : Z) : bool := ((I16_MIN <=? z) && (z <=? I16_MAX))%Z.
Definition iadd (site : psite) (a b : Z) : chk Z := if in_i16 (a + b) then Done (a + b)%Z else Panic site.
Definition imul (site : psite) (a b : Z) : chk Z := if in_i16 (a * b) then Done (a * b)%Z else Panic site.

(* ------------------------------------------------------------------------------------------ *)
(* a cursor over the remaining bytes: Panic, or Done None (= Err(DatetimeParseError)), or a value  *)
(* ------------------------------------------------------------------------------------------ *)
Definition cp (A : Type) := bytes -> chk (option (A * bytes)).
Definition cret {A} (a : A) : cp A := fun s => Done (Some (a, s)).
Definition cfail {A} : cp A := fun _ => Done None.
Definition clift {A} (r : chk A) : cp A := fun s => match r with Done a => Done (Some (a, s)) | Panic x => Panic x end.
Definition cpbind {A B} (p : cp A) (f : A -> cp B) : cp B :=
  fun s => match p s with
           | Done (Some (a, r)) => f a r
           | Done None => Done None
           | Panic x => Panic x
           end.

Declare Scope cp_scope.
Delimit Scope cp_scope with cp.
Notation "x <-- p ;; q" := (cpbind p (fun x => q)) (at level 61, p at next level, right associativity) : cp_scope.
Notation "p ;;- q" := (cpbind p (fun _ => q)) (at level 61, right associativity) : cp_scope.
Open Scope cp_scope.

(* fn digit(chars): `Some(c) if c.is_ascii_digit() => Ok(c as u8 - b'0')`, `_ => Err` *)
Definition cdigit : cp N :=
  fun s => match s with
           | b :: r => if is_digit b
                       then match usub PDigitSub (b2n b) 48 with Done v => Done (Some (v, r)) | Panic x => Panic x end
                       else Done None
           | [] => Done None
           end.
(* `match chars.next() { Some(c) => {} _ => return Err }` *)
Definition cexpect (c : byte) : cp unit :=
  fun s => match s with
           | b :: r => if byte_eqb b c then Done (Some (Datatypes.tt, r)) else Done None
           | [] => Done None
           end.
(* `chars.clone().next()` *)
Definition cpeek : cp (option byte) := fun s => Done (Some (match s with b :: _ => Some b | [] => None end, s)).
(* `chars.next();` after a successful peek *)
Definition cnext : cp unit := fun s => Done (Some (Datatypes.tt, tl s)).

(* `let m1 = digit(..)?; let m2 = digit(..)?; ... m1 * 10 + m2` for the u8 fields *)
Definition two_u8 (d1 d2 : N) : chk N := cbind (umul U8_MAX PTwoMul d1 10) (fun t => uadd U8_MAX PTwoAdd t d2).

(* lines 312-355: the full date *)
Definition date_chk : cp date :=
  y1 <-- cdigit ;; y2 <-- cdigit ;; y3 <-- cdigit ;; y4 <-- cdigit ;;       (* u16::from(digit(&mut chars)?) x 4 *)
  cexpect dash ;;-                                                       (* Some('-') => {} *)
  m1 <-- cdigit ;; m2 <-- cdigit ;;
  cexpect dash ;;-
  d1 <-- cdigit ;; d2 <-- cdigit ;;
  (* year: y1 * 1000 + y2 * 100 + y3 * 10 + y4   (u16, left to right) *)
  y <-- clift (cbind (umul U16_MAX PYearMul y1 1000) (fun a =>
              cbind (umul U16_MAX PYearMul y2 100) (fun b =>
              cbind (uadd U16_MAX PYearAdd a b) (fun ab =>
              cbind (umul U16_MAX PYearMul y3 10) (fun c =>
              cbind (uadd U16_MAX PYearAdd ab c) (fun abc =>
              uadd U16_MAX PYearAdd abc y4)))))) ;;
  m <-- clift (two_u8 m1 m2) ;;                                          (* month: m1 * 10 + m2 *)
  d <-- clift (two_u8 d1 d2) ;;                                          (* day: d1 * 10 + d2 *)
  if (m <? SD_MONTH_MIN)%N || (SD_MONTH_MAX <? m)%N then cfail           (* if date.month < 1 || date.month > 12 *)
  else if (d <? SD_DAY_MIN)%N || (max_days SD_MAXDAYS m (is_leap_year y) <? d)%N then cfail
  else cret (mkDate y m d).

(* lines 389-404: `for (i, byte) in whole.bytes().enumerate()`; returns (nanosecond, end, whole[end..] as bytes) *)
Fixpoint frac_loop_chk (bound top : nat) (i : nat) (acc : N) (s : bytes) : chk (N * nat * bytes) :=
  match s with
  | b :: r =>
    if is_digit b                                                        (* b'0'..=b'9' => *)
    then if Nat.ltb i bound                                              (* if i < 9 *)
         then cbind (usub PFracExpSub (N.of_nat top) (N.of_nat i mod 4294967296)) (fun e =>   (* 8 - i as u32 *)
              cbind (upow U32_MAX PFracPow 10 e) (fun p =>                                    (* 10_u32.pow(..) *)
              cbind (usub PFracByteSub (b2n b) 48) (fun dgt =>                                (* byte - b'0' *)
              cbind (umul U32_MAX PFracMul p dgt) (fun pd =>                                  (* p * u32::from(..) *)
              cbind (uadd U32_MAX PFracAdd acc pd) (fun acc' =>                               (* nanosecond += *)
              frac_loop_chk bound top (S i) acc' r)))))
         else frac_loop_chk bound top (S i) acc r
    else Done (acc, i, s)                                                (* _ => { end = i; break; } *)
  | [] => Done (acc, i, s)                                               (* end = whole.len() *)
  end.

(* `whole[end..]`: `rest` is what follows the first `end` bytes of `whole` (end <= whole.len() by construction);
   the slice panics unless `end` is a char boundary: end == len, or the byte there is not a continuation byte *)
Definition slice_from (rest : bytes) : chk bytes :=
  match rest with
  | b :: _ => if is_cont b then Panic PSlice else Done rest
  | [] => Done rest
  end.

(* lines 369-432: the partial time *)
Definition time_chk (bound top : nat) : cp time :=
  h1 <-- cdigit ;; h2 <-- cdigit ;;
  cexpect colon ;;-
  m1 <-- cdigit ;; m2 <-- cdigit ;;
  cexpect colon ;;-
  s1 <-- cdigit ;; s2 <-- cdigit ;;
  nx <-- cpeek ;;                                                        (* if chars.clone().next() == Some('.') *)
  ns <-- (match nx with
          | Some b =>
            if byte_eqb b dot
            then cnext ;;-                                               (* chars.next(); let whole = chars.as_str(); *)
                 (fun whole =>
                    match frac_loop_chk bound top 0 0%N whole with
                    | Panic x => Panic x
                    | Done (acc, e, rest) =>
                      if Nat.eqb e 0 then Done None                      (* if end == 0 { return Err } *)
                      else match slice_from rest with                    (* chars = whole[end..].chars(); *)
                           | Done r => Done (Some (acc, r))
                           | Panic x => Panic x
                           end
                    end)
            else cret 0%N
          | None => cret 0%N
          end) ;;
  h <-- clift (two_u8 h1 h2) ;;                                          (* hour: h1 * 10 + h2 *)
  mi <-- clift (two_u8 m1 m2) ;;                                         (* minute: m1 * 10 + m2 *)
  sec <-- clift (two_u8 s1 s2) ;;                                        (* second: s1 * 10 + s2 *)
  if (SD_HOUR_MAX <? h)%N then cfail
  else if (SD_MINUTE_MAX <? mi)%N then cfail
  else if (SD_SECOND_MAX <? sec)%N then cfail
  else if (SD_NANO_MAX <? ns)%N then cfail
  else cret (mkTime h mi sec ns).

(* lines 439-480: the offset *)
Definition offset_chk : cp (option offset) :=
  nx <-- cpeek ;;
  match nx with
  | None => cret None                                                    (* else if next.is_none() { None } *)
  | Some b =>
    if byte_eqb b x5a || byte_eqb b x7a then cnext ;;- cret (Some OffZ)  (* 'Z' | 'z' *)
    else
      sign <-- (if byte_eqb b plus then cret 1%Z else if byte_eqb b dash then cret (-1)%Z else cfail) ;;
      cnext ;;-
      h1 <-- cdigit ;; h2 <-- cdigit ;;                                  (* digit(&mut chars)? as i16 *)
      cexpect colon ;;-
      m1 <-- cdigit ;; m2 <-- cdigit ;;
      hours <-- clift (cbind (imul POffMul (Z.of_N h1) 10) (fun t => iadd POffAdd t (Z.of_N h2))) ;;    (* h1 * 10 + h2 *)
      minutes <-- clift (cbind (imul POffMul (Z.of_N m1) 10) (fun t => iadd POffAdd t (Z.of_N m2))) ;;  (* m1 * 10 + m2 *)
      if (Z.of_N SD_OFFSET_HOUR_MAX <? hours)%Z || (Z.of_N SD_OFFSET_MINUTE_MAX <? minutes)%Z then cfail   (* if hours > 23 || minutes > 59 *)
      else
        total <-- clift (cbind (imul POffMul hours 60) (fun t =>         (* sign * (hours * 60 + minutes) *)
                         cbind (iadd POffAdd t minutes) (fun u => imul POffMul sign u))) ;;
        if (SD_OFFSET_MIN <=? total)%Z && (total <=? SD_OFFSET_MAX)%Z    (* ((-24 * 60)..=(24 * 60)).contains(&total_minutes) *)
        then cret (Some (OffCustom total)) else cfail
  end.

(* impl FromStr for Datetime, lines 294-493 *)
Definition from_str_chk_with (bound top : nat) (s : bytes) : chk (option datetime) :=
  if Nat.ltb (List.length s) SD_MIN_LEN then Done None                   (* if date.len() < 3 *)
  else
    let time_only := match nth_error s 2 with Some b => byte_eqb b colon | None => false end in   (* chars.clone().nth(2) == Some(':') *)
    let run : cp datetime :=
      (if time_only
       then t <-- time_chk bound top ;; cret (mkDT None (Some t) None)   (* offset_allowed = false *)
       else
         d <-- date_chk ;;
         nx <-- cpeek ;;
         match nx with
         | Some b =>
           if byte_eqb b x54 || byte_eqb b x74 || byte_eqb b x20         (* 'T' | 't' | ' ' *)
           then cnext ;;- t <-- time_chk bound top ;; off <-- offset_chk ;; cret (mkDT (Some d) (Some t) off)
           else cret (mkDT (Some d) None None)
         | None => cret (mkDT (Some d) None None)
         end) in
    match run s with
    | Done (Some (dt, [])) => Done (Some dt)                             (* if chars.next().is_some() { return Err } *)
    | Done _ => Done None
    | Panic x => Panic x
    end.

(* the bound and the exponent the source has (`if i < 9`, `10_u32.pow(8 - i as u32)`).  lib/gen_consts.py
   checks these two literals today (ConstsError if they change); once it EMITS them, bind the two names
   to Gen.Consts.SD_FRAC_DIGITS / SD_FRAC_TOP_EXP — these are the only two lines to change, the proofs
   compute their side conditions from whatever these names unfold to. *)
Definition FRAC_DIGITS : nat := SD_FRAC_DIGITS.
Definition FRAC_TOP_EXP : nat := SD_FRAC_TOP_EXP.

Definition from_str_chk : bytes -> chk (option datetime) := from_str_chk_with FRAC_DIGITS FRAC_TOP_EXP.

(* ------------------------------------------------------------------------------------------ *)
(* Display (lines 238-289).  `{:04}` / `{:02}` / `{:09}` and `trim_end_matches('0')` are std formatting of     *)
(* already computed numbers (DatetimeStd.pad0 / trim_end_zeros); the only arithmetic is in Offset.              *)
(* ------------------------------------------------------------------------------------------ *)
Definition display_offset_chk (o : offset) : chk bytes :=
  match o with
  | OffZ => Done [x5a]                                                   (* Offset::Z => write!(f, "Z") *)
  | OffCustom m =>
    (* let mut sign = '+'; if minutes < 0 { minutes *= -1; sign = '-'; } *)
    cbind (if (m <? 0)%Z then cbind (imul PDispNeg m (-1)) (fun a => Done (a, dash)) else Done (m, plus)) (fun ms =>
    let '(a, sign) := ms in
    let hours := (a / 60)%Z in                                           (* let hours = minutes / 60; *)
    let mins := (a mod 60)%Z in                                          (* let minutes = minutes % 60;   (a >= 0 here) *)
    Done (sign :: pad0 2 (Z.to_N hours) ++ [colon] ++ pad0 2 (Z.to_N mins)))
  end.

Definition display_chk (d : datetime) : chk bytes :=
  cbind (match d_offset d with Some o => display_offset_chk o | None => Done [] end) (fun off =>
  Done ((match d_date d with Some x => display_date x | None => [] end)
        ++ (match d_time d with
            | Some t => (match d_date d with Some _ => [x54] | None => [] end) ++ display_time t
            | None => [] end)
        ++ off)).

(* the values the Rust types can hold *)
Definition rust_date (x : date) : Prop := (year x <= U16_MAX /\ month x <= U8_MAX /\ day x <= U8_MAX)%N.
Definition rust_time (t : time) : Prop :=
  (hour t <= U8_MAX /\ minute t <= U8_MAX /\ second t <= U8_MAX /\ nanosecond t <= U32_MAX)%N.
Definition rust_offset (o : offset) : Prop := match o with OffZ => True | OffCustom m => in_i16 m = true end.
Definition rust_datetime (d : datetime) : Prop :=
  match d_date d with Some x => rust_date x | None => True end /\
  match d_time d with Some t => rust_time t | None => True end /\
  match d_offset d with Some o => rust_offset o | None => True end.
