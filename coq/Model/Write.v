(* Model/Write.v — crates/toml_write/src/{string,value}.rs: the string/key builders with
   their metrics, write_toml_value with its quote-run counter and escape table, and the
   integer/bool writers. *)
From TV Require Import Base.Prelude Base.Utf8.

Inductive encoding : Set := LiteralString | BasicString | MlLiteralString | MlBasicString.

Record vmetrics : Set := mkVM {
  max_seq_single_quotes : N; max_seq_double_quotes : N;
  vm_escape_codes : bool; vm_escape : bool; vm_newline : bool }.

Definition is_ctrl (b : byte) : bool := (b2n b <=? 31)%N || (b2n b =? 127)%N.

(* the counters are u8 and saturate: `prev = prev.saturating_add(1)` *)
Definition qnext (cur : N) (hit : bool) : N :=
  if hit then (if (cur =? 255)%N then 255%N else (cur + 1)%N) else 0%N.

(* ValueMetrics::calculate *)
Fixpoint vmetrics_loop (s : bytes) (ps pd : N) (m : vmetrics) : vmetrics :=
  match s with
  | [] => m
  | b :: r =>
      let ps' := qnext ps (byte_eqb b x27) in
      let pd' := qnext pd (byte_eqb b x22) in
      let m1 := mkVM (if byte_eqb b x27 then N.max (max_seq_single_quotes m) ps' else max_seq_single_quotes m)
                     (if byte_eqb b x22 then N.max (max_seq_double_quotes m) pd' else max_seq_double_quotes m)
                     (vm_escape_codes m) (vm_escape m) (vm_newline m) in
      let m2 :=
        if byte_eqb b x5c then mkVM (max_seq_single_quotes m1) (max_seq_double_quotes m1) (vm_escape_codes m1) true (vm_newline m1)
        else if byte_eqb b x09 then m1
        else if byte_eqb b x0a then mkVM (max_seq_single_quotes m1) (max_seq_double_quotes m1) (vm_escape_codes m1) (vm_escape m1) true
        else if is_ctrl b then mkVM (max_seq_single_quotes m1) (max_seq_double_quotes m1) true (vm_escape m1) (vm_newline m1)
        else m1 in
      vmetrics_loop r ps' pd' m2
  end.
Definition vmetrics_of (s : bytes) : vmetrics :=
  vmetrics_loop s 0 0 (mkVM 0 0 false false false).

(* write_toml_value, the `escaped` branch: one scan of the inner `for` loop.
   Returns (unescaped_end, escaped text if any). *)
Fixpoint scan (is_ml : bool) (s : bytes) (i : nat) (seq : N) : nat * option bytes :=
  match s with
  | [] => (i, None)
  | b :: r =>
    let maxq := if is_ml then 2%N else 0%N in
    let seq' := if byte_eqb b x22 then (seq + 1)%N else 0%N in
    if byte_eqb b x22 && (maxq <? seq')%N then (i, Some [x5c; x22])
    else if byte_eqb b x08 then (i, Some [x5c; x62])
    else if byte_eqb b x09 then (i, Some [x5c; x74])
    else if byte_eqb b x0a && negb is_ml then (i, Some [x5c; x6e])
    else if byte_eqb b x0c then (i, Some [x5c; x66])
    else if byte_eqb b x0d then (i, Some [x5c; x72])
    else if byte_eqb b x5c then (i, Some [x5c; x5c])
    else if byte_eqb b x0a then scan is_ml r (S i) seq'
    else if byte_eqb b x22 then scan is_ml r (S i) seq'
    else if is_ctrl b then (i, None)
    else scan is_ml r (S i) seq'
  end.

Definition hex_upper (n : N) : byte := if (n <? 10)%N then n2b (48 + n) else n2b (55 + n).
(* write!("\\u{:04X}", b) for a byte *)
Definition u_escape (b : byte) : bytes :=
  [x5c; x75; x30; x30; hex_upper (b2n b / 16); hex_upper (b2n b mod 16)].

Fixpoint write_escaped (fuel : nat) (is_ml : bool) (stream : bytes) : bytes :=
  match fuel with
  | O => []
  | S f =>
    match stream with
    | [] => []
    | _ =>
      let '(uend, esc) := scan is_ml stream 0 0%N in
      let unescaped := firstn uend stream in
      match esc with
      | Some e => unescaped ++ e ++ write_escaped f is_ml (skipn (S uend) stream)
      | None =>
        match skipn uend stream with
        | [] => unescaped
        | b :: r => unescaped ++ u_escape b ++ write_escaped f is_ml r
        end
      end
    end
  end.

(* write_toml_value(decoded, encoding, newline) *)
Definition write_toml_value (decoded : bytes) (enc : option encoding) (newline : bool) : bytes :=
  let delimiter := match enc with
                   | Some LiteralString => [x27]
                   | Some BasicString => [x22]
                   | Some MlLiteralString => [x27; x27; x27]
                   | Some MlBasicString => [x22; x22; x22]
                   | None => []
                   end in
  let escaped := match enc with Some BasicString | Some MlBasicString => true | _ => false end in
  let is_ml := match enc with Some MlLiteralString | Some MlBasicString => true | _ => false end in
  delimiter
  ++ (if newline && is_ml then [x0a] else [])
  ++ (if escaped then write_escaped (S (length decoded)) is_ml decoded else decoded)
  ++ delimiter.

Inductive vstyle : Set :=
| StDefault | StLiteral | StMlLiteral | StBasicPretty | StMlBasicPretty | StBasic | StMlBasic.

Definition as_basic (s : bytes) (m : vmetrics) := write_toml_value s (Some BasicString) (vm_newline m).
Definition as_ml_basic (s : bytes) (m : vmetrics) := write_toml_value s (Some MlBasicString) (vm_newline m).
Definition as_literal (s : bytes) (m : vmetrics) : option bytes :=
  if vm_escape_codes m || (0 <? max_seq_single_quotes m)%N || vm_newline m then None
  else Some (write_toml_value s (Some LiteralString) (vm_newline m)).
Definition as_ml_literal (s : bytes) (m : vmetrics) : option bytes :=
  if vm_escape_codes m || (2 <? max_seq_single_quotes m)%N then None
  else Some (write_toml_value s (Some MlLiteralString) (vm_newline m)).
Definition as_basic_pretty (s : bytes) (m : vmetrics) : option bytes :=
  if vm_escape_codes m || vm_escape m || (0 <? max_seq_double_quotes m)%N || vm_newline m then None
  else Some (as_basic s m).
Definition as_ml_basic_pretty (s : bytes) (m : vmetrics) : option bytes :=
  if vm_escape_codes m || vm_escape m || (2 <? max_seq_double_quotes m)%N then None
  else Some (as_ml_basic s m).
Definition or_else {A} (a b : option A) : option A := match a with Some _ => a | None => b end.
Definition as_default (s : bytes) (m : vmetrics) : bytes :=
  match or_else (as_basic_pretty s m) (or_else (as_literal s m) (or_else (as_ml_basic_pretty s m) (as_ml_literal s m))) with
  | Some t => t
  | None => if vm_newline m then as_ml_basic s m else as_basic s m
  end.

(* TomlStringBuilder::new(s).as_<style>().to_toml_value(); None = style refused *)
Definition write_string_m (st : vstyle) (s : bytes) (m : vmetrics) : option bytes :=
  match st with
  | StDefault => Some (as_default s m)
  | StLiteral => as_literal s m
  | StMlLiteral => as_ml_literal s m
  | StBasicPretty => as_basic_pretty s m
  | StMlBasicPretty => as_ml_basic_pretty s m
  | StBasic => Some (as_basic s m)
  | StMlBasic => Some (as_ml_basic s m)
  end.

(* ---- keys ------------------------------------------------------------------------------- *)
Record kmetrics : Set := mkKM {
  km_unquoted : bool; km_single : bool; km_double : bool; km_escape_codes : bool; km_escape : bool }.

Definition is_unquoted_byte (b : byte) : bool :=
  inr 97 122 b || inr 65 90 b || inr 48 57 b || byte_eqb b x2d || byte_eqb b x5f.

Fixpoint kmetrics_loop (s : bytes) (m : kmetrics) : kmetrics :=
  match s with
  | [] => m
  | b :: r =>
    let m1 := if is_unquoted_byte b then m else mkKM false (km_single m) (km_double m) (km_escape_codes m) (km_escape m) in
    let m2 :=
      if byte_eqb b x27 then mkKM (km_unquoted m1) true (km_double m1) (km_escape_codes m1) (km_escape m1)
      else if byte_eqb b x22 then mkKM (km_unquoted m1) (km_single m1) true (km_escape_codes m1) (km_escape m1)
      else if byte_eqb b x5c then mkKM (km_unquoted m1) (km_single m1) (km_double m1) (km_escape_codes m1) true
      else if byte_eqb b x09 then m1
      else if is_ctrl b then mkKM (km_unquoted m1) (km_single m1) (km_double m1) true (km_escape m1)
      else m1 in
    kmetrics_loop r m2
  end.
Definition kmetrics_of (s : bytes) : kmetrics :=
  kmetrics_loop s (mkKM (match s with [] => false | _ => true end) false false false false).

Inductive kstyle : Set := KDefault | KUnquoted | KLiteral | KBasicPretty | KBasic.

Definition key_basic (s : bytes) := write_toml_value s (Some BasicString) false.
Definition key_unquoted (s : bytes) (m : kmetrics) : option bytes :=
  if km_unquoted m then Some (write_toml_value s None false) else None.
Definition key_literal (s : bytes) (m : kmetrics) : option bytes :=
  if km_escape_codes m || km_single m then None else Some (write_toml_value s (Some LiteralString) false).
Definition key_basic_pretty (s : bytes) (m : kmetrics) : option bytes :=
  if km_escape_codes m || km_escape m || km_double m then None else Some (key_basic s).
Definition write_key (st : kstyle) (s : bytes) : option bytes :=
  let m := kmetrics_of s in
  match st with
  | KDefault => Some (match or_else (key_unquoted s m) (or_else (key_basic_pretty s m) (key_literal s m)) with
                      | Some t => t | None => key_basic s end)
  | KUnquoted => key_unquoted s m
  | KLiteral => key_literal s m
  | KBasicPretty => key_basic_pretty s m
  | KBasic => Some (key_basic s)
  end.

(* ---- integers and booleans (value.rs: write!("{self}")) ---------------------------------- *)
Fixpoint n_digits_rev (fuel : nat) (n : N) : bytes :=
  match fuel with
  | O => []
  | S f => if (n <? 10)%N then [digit_byte n] else digit_byte (n mod 10) :: n_digits_rev f (n / 10)
  end.
Definition write_N (n : N) : bytes := rev (n_digits_rev (S (N.size_nat n)) n).
Definition write_i64 (z : Z) : bytes :=
  match z with
  | Z0 => [x30]
  | Zpos p => write_N (Npos p)
  | Zneg p => x2d :: write_N (Npos p)
  end.
Definition write_bool (b : bool) : bytes :=
  if b then [x74; x72; x75; x65] else [x66; x61; x6c; x73; x65].
