(* Model/Edit.v — the structural edit operations of property C08, transcribed function by
   function from crates/toml_edit/src/{table,inline_table,array,array_of_tables,item,index,key,
   value,repr}.rs, acting on the despanned (`ImDocument::into_mut`) document tree of Model/Tree.v.

   `apply o root = Some root'`  the call sequence the harness makes for `o` returns normally
   `apply o root = None`        some typed accessor on the way returns `None` (the operation is
                                not offered at that place) or the call panics; the document is
                                then left as it was (`applicable o root = false`).

   How the harness reaches the place an operation works on (harness/src/bin/c08.rs: `walk`):
   from `DocumentMut::as_table_mut()` one typed step per path segment,
     key   on a Table        -> Table::get_mut(k)          (None for a missing key or a placeholder)
     key   on an InlineTable -> InlineTable::get_mut(k)    (None unless the entry is a Value)
     index on an Array       -> Array::get_mut(i)          (None unless the element is a Value)
     index on ArrayOfTables  -> ArrayOfTables::get_mut(i)  (None unless the element is a Table)
   so nothing is created on the way (unlike `IndexMut`, which is the separate operation OISet).

   External code by its functional specification: indexmap::IndexMap = association list in
   insertion order (the kv_ functions of Model/Tree.v), `sort_keys` = a stable sort; Vec = list.
   No proofs in this file. *)
From TV Require Import Base.Prelude Gen.Consts Spec.Ordered Model.Datetime Model.Numbers Model.Tree.
From TV Require Import Spec.EditSpec.

(* ------------------------------------------------------------------------------------ *)
(** * Keys and values built through the API *)

(* key.rs: Key::new *)
Definition key_new (k : bytes) : key := mkKey k None decor_default decor_default.
(* key.rs: Key::fmt — `self.repr = None; self.leaf_decor.clear(); self.dotted_decor.clear()`
   (repr.rs: Decor::clear sets prefix and suffix to None) *)
Definition key_fmt (k : key) : key := mkKey (k_key k) None decor_default decor_default.

(* Extend for InlineTable / Table: `self.remove_placeholder(key.get()); self.items.insert(key, value)` —
   IndexMap::insert: an occupied entry keeps its stored key and position and gets the new item,
   a vacant one is appended *)
(* table.rs: Table::remove_placeholder / inline_table.rs: InlineTable::remove_placeholder —
   `if let Some(Item::None) = self.items.get(key) { self.items.shift_remove(key); }` *)
Definition kv_purge (m : kvs) (k : bytes) : kvs :=
  match kv_get m k with Some (_, INone) => kv_remove m k | _ => m end.

Definition kv_insert (m0 : kvs) (k : key) (it : item) : kvs :=
  let m := kv_purge m0 (k_key k) in       (* Extend: `self.remove_placeholder(key.get())` *)
  match kv_get m (k_key k) with
  | Some _ => kv_set m (k_key k) it
  | None => kv_push m k it
  end.

(* value.rs: From<i64 / &str / bool> for Value = Formatted::new (no repr, default decor);
   array.rs: FromIterator<V> for Array; inline_table.rs: FromIterator<(K, V)> for InlineTable
   (`extend`: `self.items.insert(key.into(), Item::Value(value.into()))`) *)
Fixpoint build_value (v : pv) : value :=
  match v with
  | PVInt z => VScalar (SInt z) None decor_default
  | PVStr s => VScalar (SString s) None decor_default
  | PVBool b => VScalar (SBool b) None decor_default
  | PVArr l => VArray (map (fun x => IValue (build_value x)) l) REmpty false decor_default None
  | PVInl l =>
    VInline (fold_left (fun acc kv => kv_insert acc (fst kv) (snd kv))
                       (map (fun kv => match kv with (k, x) => (key_new k, IValue (build_value x)) end) l) [])
            REmpty false false decor_default None
  end.

(* lib.rs: value(v) = Item::Value(v.into()); table() = Item::Table(Table::new()) *)
Definition build_item (x : ipay) : item :=
  match x with IPValue v => IValue (build_value v) | IPTable => ITable tbl_new end.

(* ------------------------------------------------------------------------------------ *)
(** * Walking to the place of an operation *)

(* change the item of the first entry with key k; None if there is none or f refuses *)
Fixpoint kv_upd (k : bytes) (f : item -> option item) (m : kvs) : option kvs :=
  match m with
  | [] => None
  | (k', v) :: tl =>
    if bytes_eqb (k_key k') k then optmap (fun v' => (k', v') :: tl) (f v)
    else optmap (cons (k', v)) (kv_upd k f tl)
  end.
(* change the n-th element; None if out of range or f refuses *)
Fixpoint nth_upd {A} (n : nat) (f : A -> option A) (l : list A) : option (list A) :=
  match l, n with
  | [], _ => None
  | x :: tl, O => optmap (fun x' => x' :: tl) (f x)
  | x :: tl, S n' => optmap (cons x) (nth_upd n' f tl)
  end.

Definition as_tbl (o : option item) : option tbl := match o with Some (ITable t) => Some t | _ => None end.

Fixpoint at_path (p : path) (f : item -> option item) (it : item) : option item :=
  match p with
  | [] => f it
  | SKey k :: p' =>
    match it with
    | ITable (Tbl items d im dt pos sp) =>
      (* Table::get_mut: `.and_then(|value| if !value.is_none() { Some(value) } else { None })` *)
      optmap (fun items' => ITable (Tbl items' d im dt pos sp))
             (kv_upd k (fun i => if item_is_none i then None else at_path p' f i) items)
    | IValue (VInline items pre im dt d sp) =>
      (* InlineTable::get_mut: `.and_then(|value| value.as_value_mut())`; what is written
         through a `&mut Value` is a value *)
      optmap (fun items' => IValue (VInline items' pre im dt d sp))
             (kv_upd k (fun i => match i with
                                 | IValue _ => match at_path p' f i with
                                               | Some (IValue v') => Some (IValue v')
                                               | _ => None
                                               end
                                 | _ => None
                                 end) items)
    | _ => None
    end
  | SIdx n :: p' =>
    match it with
    | IValue (VArray vals tr c d sp) =>
      (* Array::get_mut: `self.values.get_mut(index).and_then(Item::as_value_mut)` *)
      optmap (fun vals' => IValue (VArray vals' tr c d sp))
             (nth_upd n (fun i => match i with
                                  | IValue _ => match at_path p' f i with
                                                | Some (IValue v') => Some (IValue v')
                                                | _ => None
                                                end
                                  | _ => None
                                  end) vals)
    | IAot ts sp =>
      (* ArrayOfTables::get_mut: `.and_then(Item::as_table_mut)`; through a `&mut Table` a table *)
      optmap (fun ts' => IAot ts' sp)
             (nth_upd n (fun t => as_tbl (at_path p' f (ITable t))) ts)
    | _ => None
    end
  end.

(* ------------------------------------------------------------------------------------ *)
(** * Table / InlineTable *)

(* Occupied arm of insert: `entry.key_mut().fmt(); mem::replace(entry.get_mut(), item)` *)
Fixpoint kv_set_fmt (m : kvs) (k : bytes) (v : item) : kvs :=
  match m with
  | [] => []
  | (k', v') :: tl =>
    if bytes_eqb (k_key k') k then (key_fmt k', v) :: tl else (k', v') :: kv_set_fmt tl k v
  end.
(* table.rs: Table::insert / inline_table.rs: InlineTable::insert (the same on `items`):
   `self.remove_placeholder(key); let key = Key::new(key);
    match self.items.entry(key.clone()) { Occupied => .., Vacant => entry.insert(item) }` *)
Definition items_insert (m0 : kvs) (k : bytes) (it : item) : kvs :=
  let m := kv_purge m0 k in                (* `self.remove_placeholder(key)` *)
  match kv_get m k with
  | Some _ => kv_set_fmt m k it
  | None => kv_push m (key_new k) it
  end.

(* the node an operation is called on *)
Definition tbl_with_items (t : tbl) (f : kvs -> kvs) : item :=
  match t with Tbl items d im dt pos sp => ITable (Tbl (f items) d im dt pos sp) end.

(* Table::insert(k, value(v)) | InlineTable::insert(k, v) *)
Definition op_insert (k : bytes) (v : pv) (it : item) : option item :=
  match it with
  | ITable t => Some (tbl_with_items t (fun m => items_insert m k (IValue (build_value v))))
  | IValue (VInline items pre im dt d sp) =>
    Some (IValue (VInline (items_insert items k (IValue (build_value v))) pre im dt d sp))
  | _ => None
  end.
(* Table::insert(k, item) for a table / array-of-tables item: tables only *)
Definition op_insert_item (k : bytes) (x : item) (it : item) : option item :=
  match it with
  | ITable t => Some (tbl_with_items t (fun m => items_insert m k x))
  | _ => None
  end.
(* Table::remove: `self.items.shift_remove(key)`; InlineTable::remove: the same, `.and_then(into_value)` on the result *)
Definition op_remove (k : bytes) (it : item) : option item :=
  match it with
  | ITable t => Some (tbl_with_items t (fun m => kv_remove m k))
  | IValue (VInline items pre im dt d sp) => Some (IValue (VInline (kv_remove items k) pre im dt d sp))
  | _ => None
  end.

(* IndexMap::sort_keys: stable, by `Ord for Key` = the decoded key text *)
Fixpoint kv_ins_sorted (x : key * item) (m : kvs) : kvs :=
  match m with
  | [] => [x]
  | y :: tl => if key_leb (k_key (fst x)) (k_key (fst y)) then x :: y :: tl else y :: kv_ins_sorted x tl
  end.
Fixpoint kv_sort_keys (m : kvs) : kvs :=
  match m with
  | [] => []
  | x :: tl => kv_ins_sorted x (kv_sort_keys tl)
  end.

(* table.rs: Table::sort_values — `self.items.sort_keys(); for value in values_mut()
   { Item::Table(table) if table.is_dotted() => table.sort_values() }`;
   inline_table.rs: InlineTable::sort_values — the same with
   `Item::Value(Value::InlineTable(table)) if table.is_dotted()`.
   (The recursive calls are written before the sort here: they change the inside of the child
   tables only, the sort looks at this table's keys only.) *)
Fixpoint tbl_sort_values (t : tbl) : tbl :=
  match t with
  | Tbl items d im dt pos sp =>
    Tbl (kv_sort_keys
           (map (fun kv => match kv with
                           | (k, i) =>
                             (k, match i with
                                 | ITable (Tbl _ _ _ true _ _ as sub) => ITable (tbl_sort_values sub)
                                 | _ => i
                                 end)
                           end) items)) d im dt pos sp
  end.
Fixpoint inline_sort_values (v : value) : value :=
  match v with
  | VInline items pre im dt d sp =>
    VInline (kv_sort_keys
               (map (fun kv => match kv with
                               | (k, i) =>
                                 (k, match i with
                                     | IValue (VInline _ _ _ true _ _ as sub) => IValue (inline_sort_values sub)
                                     | _ => i
                                     end)
                               end) items)) pre im dt d sp
  | _ => v
  end.
Definition op_sort (it : item) : option item :=
  match it with
  | ITable t => Some (ITable (tbl_sort_values t))
  | IValue (VInline _ _ _ _ _ _ as v) => Some (IValue (inline_sort_values v))
  | _ => None
  end.

(* Value::decor_mut().clear() *)
Definition value_clear_decor (v : value) : value :=
  match v with
  | VScalar x r _ => VScalar x r decor_default
  | VArray a t c _ sp => VArray a t c decor_default sp
  | VInline i pr im dt _ sp => VInline i pr im dt decor_default sp
  end.
(* table.rs: decorate_table / inline_table.rs: decorate_inline_table — for the entries holding
   a value: `key.leaf_decor_mut().clear(); key.dotted_decor_mut().clear(); value.decor_mut().clear()` *)
Definition decorate_items (m : kvs) : kvs :=
  map (fun kv => match kv with
                 | (k, IValue v) => (mkKey (k_key k) (k_repr k) decor_default decor_default, IValue (value_clear_decor v))
                 | _ => kv
                 end) m.

(* array.rs: decorate_array — the values, enumerated: the first gets DEFAULT_LEADING_VALUE_DECOR,
   the others DEFAULT_VALUE_DECOR; then `set_trailing_comma(false); set_trailing("")` *)
Fixpoint decorate_elems (first : bool) (l : list item) : list item :=
  match l with
  | [] => []
  | IValue v :: tl =>
    let dd := if first then DEFAULT_LEADING_VALUE_DECOR else DEFAULT_VALUE_DECOR in
    IValue (value_decorate v (raw_of_bytes (fst dd)) (raw_of_bytes (snd dd))) :: decorate_elems false tl
  | x :: tl => x :: decorate_elems first tl
  end.
Definition array_fmt (v : value) : value :=
  match v with
  | VArray vals _ _ d sp => VArray (decorate_elems true vals) REmpty false d sp
  | _ => v
  end.

(* Table::fmt | InlineTable::fmt | Array::fmt *)
Definition op_fmt (it : item) : option item :=
  match it with
  | ITable t => Some (tbl_with_items t decorate_items)
  | IValue (VInline items pre im dt d sp) => Some (IValue (VInline (decorate_items items) pre im dt d sp))
  | IValue (VArray _ _ _ _ _ as v) => Some (IValue (array_fmt v))
  | _ => None
  end.

(* ------------------------------------------------------------------------------------ *)
(** * Array *)

(* array.rs: value_op — `if !self.is_empty() && decorate { value.decorate(" ", "") } else if decorate
   { value.decorate("", "") }` (is_empty = `self.values.len() == 0`) *)
Definition value_op_decorate (vals : list item) (v : value) : value :=
  match vals with
  | [] => value_decorate v (raw_of_bytes []) (raw_of_bytes [])
  | _ => value_decorate v (raw_of_bytes [x20]) (raw_of_bytes [])
  end.

(* Vec::insert: panics if index > len *)
Fixpoint vec_insert {A} (i : nat) (x : A) (l : list A) : option (list A) :=
  match i, l with
  | O, _ => Some (x :: l)
  | S _, [] => None
  | S i', y :: tl => optmap (cons y) (vec_insert i' x tl)
  end.
(* Vec::remove: panics if index >= len *)
Fixpoint vec_remove {A} (i : nat) (l : list A) : option (A * list A) :=
  match l, i with
  | [], _ => None
  | y :: tl, O => Some (y, tl)
  | y :: tl, S i' => optmap (fun r => (fst r, y :: snd r)) (vec_remove i' tl)
  end.

(* Value::decor *)
Definition value_decor (v : value) : decor :=
  match v with VScalar _ _ d => d | VArray _ _ _ d _ => d | VInline _ _ _ _ d _ => d end.
Definition value_set_decor (v : value) (d : decor) : value :=
  match v with
  | VScalar x r _ => VScalar x r d
  | VArray a t c _ sp => VArray a t c d sp
  | VInline i pr im dt _ sp => VInline i pr im dt d sp
  end.

(* Array::push *)
Definition op_arr_push (v : pv) (it : item) : option item :=
  match it with
  | IValue (VArray vals tr c d sp) =>
    Some (IValue (VArray (vals ++ [IValue (value_op_decorate vals (build_value v))]) tr c d sp))
  | _ => None
  end.
(* Array::insert: value_op, `items.insert(index, Item::Value(value))` *)
Definition op_arr_insert (i : nat) (v : pv) (it : item) : option item :=
  match it with
  | IValue (VArray vals tr c d sp) =>
    optmap (fun vals' => IValue (VArray vals' tr c d sp))
           (vec_insert i (IValue (value_op_decorate vals (build_value v))) vals)
  | _ => None
  end.
(* Array::replace: `self.get(index).unwrap_or_else(|| panic!(..)).decor()` is copied onto the new
   value, then replace_formatted: `mem::replace(&mut self.values[index], Item::Value(v))` *)
Definition op_arr_replace (i : nat) (v : pv) (it : item) : option item :=
  match it with
  | IValue (VArray vals tr c d sp) =>
    optmap (fun vals' => IValue (VArray vals' tr c d sp))
           (nth_upd i (fun old => match old with
                                  | IValue ov => Some (IValue (value_set_decor (build_value v) (value_decor ov)))
                                  | _ => None      (* Array::get is None: panic *)
                                  end) vals)
  | _ => None
  end.
(* Array::remove: `self.values.remove(index)`, then `x => panic!("non-value item ..")` *)
Definition op_arr_remove (i : nat) (it : item) : option item :=
  match it with
  | IValue (VArray vals tr c d sp) =>
    match vec_remove i vals with
    | Some (IValue _, vals') => Some (IValue (VArray vals' tr c d sp))
    | _ => None
    end
  | _ => None
  end.

(* ------------------------------------------------------------------------------------ *)
(** * ArrayOfTables *)

(* ArrayOfTables::push(Table::new()) *)
Definition op_aot_push (it : item) : option item :=
  match it with
  | IAot ts sp => Some (IAot (ts ++ [tbl_new]) sp)
  | _ => None
  end.
(* ArrayOfTables::remove: `self.values.remove(index)` *)
Definition op_aot_remove (i : nat) (it : item) : option item :=
  match it with
  | IAot ts sp => optmap (fun r => IAot (snd r) sp) (vec_remove i ts)
  | _ => None
  end.

(* ------------------------------------------------------------------------------------ *)
(** * Conversions (item.rs, table.rs, inline_table.rs, array_of_tables.rs) *)

(* InlineTable::with_pairs(items) then InlineTable::fmt *)
Definition inline_with_pairs_fmt (items : kvs) : value :=
  VInline (decorate_items items) REmpty false false decor_default None.
(* Array::with_vec(values) then Array::fmt *)
Definition array_with_vec_fmt (vals : list item) : value :=
  array_fmt (VArray vals REmpty false decor_default None).

(* Item::make_value: `other.into_value().map(Item::Value).unwrap_or(Item::None)`
   Item::into_value: None => Err; Value(v) => v; Table(t) => t.into_inline_table();
                     ArrayOfTables(a) => a.into_array()
   Table::into_inline_table: `for (_, value) in self.items.iter_mut() { value.make_value() }`,
                     InlineTable::with_pairs(self.items), `t.fmt()`
   ArrayOfTables::into_array: `for value in self.values.iter_mut() { value.make_value() }`,
                     Array::with_vec(self.values), `a.fmt()` *)
Fixpoint make_value (i : item) : item :=
  match i with
  | INone => INone
  | IValue v => IValue v
  | ITable t => IValue (tbl_into_inline t)
  | IAot ts _ => IValue (array_with_vec_fmt (map (fun t => IValue (tbl_into_inline t)) ts))
  end
with tbl_into_inline (t : tbl) : value :=
  match t with
  | Tbl items _ _ _ _ _ =>
    inline_with_pairs_fmt (map (fun kv => match kv with (k, i) => (k, make_value i) end) items)
  end.

(* InlineTable::into_table: Table::with_pairs(self.items), `t.fmt()` *)
Definition inline_into_table (items : kvs) : tbl :=
  Tbl (decorate_items items) decor_default false false None None.
(* Item::into_table, the result (Ok or the Err that hands the item back) stored in the slot *)
Definition into_table_slot (i : item) : item :=
  match i with
  | ITable t => ITable t
  | IValue (VInline items _ _ _ _ _) => ITable (inline_into_table items)
  | _ => i
  end.

Definition is_inline_item (i : item) : bool :=
  match i with IValue (VInline _ _ _ _ _ _) => true | _ => false end.
(* Item::into_array_of_tables, the result stored in the slot:
   `Item::Value(Value::Array(a))`: `a.is_empty()` => Err; `a.iter().all(|v| v.is_inline_table())`
   => `aot.values = a.values; for value in aot.values.iter_mut() { value.make_item() }`.
   Item::make_item on an inline table: into_table makes it a Table (InlineTable::into_table),
   into_array_of_tables then hands the table back.
   (`a.iter()` skips elements that are not values; no modelled operation stores such an element
   in an array and Model/Tree.v's IAot cannot hold one, so the test below asks every element to
   be an inline-table value.) *)
Definition into_aot_slot (i : item) : item :=
  match i with
  | IValue (VArray vals _ _ _ _) =>
    match vals with
    | [] => i
    | _ =>
      if forallb is_inline_item vals
      then IAot (flat_map (fun e => match e with
                                    | IValue (VInline items _ _ _ _ _) => [inline_into_table items]
                                    | _ => []
                                    end) vals) None
      else i
    end
  | _ => i
  end.

(* `let slot = table.get_mut(k)?; let it = mem::take(slot); *slot = convert(it)` on the table at the node *)
Definition op_slot (k : bytes) (conv : item -> option item) (it : item) : option item :=
  match it with
  | ITable (Tbl items d im dt pos sp) =>
    optmap (fun items' => ITable (Tbl items' d im dt pos sp))
           (kv_upd k (fun i => if item_is_none i then None else conv i) items)
  | _ => None
  end.

(* ------------------------------------------------------------------------------------ *)
(** * IndexMut (index.rs) *)

(* `*index_mut(k1)...index_mut(kn) = x`.
   impl Index for str, index_mut: `if let Item::None = *v { let mut t = InlineTable::default();
   t.items.insert(Key::new(self), Item::None); *v = value(Value::InlineTable(t)); }` then
   Table => `t.entry(self).or_insert(Item::None)` (Table::entry starts with `remove_placeholder`),
   inline table => `t.remove_placeholder(self); t.items.entry(Key::new(self)).or_insert_with(|| Item::None)`,
   anything else => None (`expect("index not found")` panics).
   IndexMut<&str> for DocumentMut / Table: `self.entry(key).or_insert(Item::None)`. *)
Definition entry_or_none (m0 : kvs) (k : bytes) : kvs * item :=
  let m := kv_purge m0 k in                (* Table::entry / index_mut: `remove_placeholder(key)` first *)
  match kv_get m k with
  | Some (_, i) => (m, i)
  | None => (kv_push m (key_new k) INone, INone)
  end.
Fixpoint iset (ks : list bytes) (x : item) (it : item) : option item :=
  match ks with
  | [] => Some x
  | k :: ks' =>
    let it1 := match it with
               | INone => IValue (VInline [(key_new k, INone)] REmpty false false decor_default None)
               | _ => it
               end in
    match it1 with
    | ITable (Tbl items d im dt pos sp) =>
      let '(m, slot) := entry_or_none items k in
      optmap (fun slot' => ITable (Tbl (kv_set m k slot') d im dt pos sp)) (iset ks' x slot)
    | IValue (VInline items pre im dt d sp) =>
      let '(m, slot) := entry_or_none items k in
      optmap (fun slot' => IValue (VInline (kv_set m k slot') pre im dt d sp)) (iset ks' x slot)
    | _ => None
    end
  end.

(* ------------------------------------------------------------------------------------ *)
(** * sort_values_by *)

(* IndexMap::sort_by(cmp) = `entries.sort_by(..)`, a stable sort; `le x y` = "cmp(x, y) is not Greater" *)
Section KvSortBy.
  Variable le : key * item -> key * item -> bool.
  Fixpoint kv_ins_by (x : key * item) (m : kvs) : kvs :=
    match m with
    | [] => [x]
    | y :: tl => if le x y then x :: y :: tl else y :: kv_ins_by x tl
    end.
  Fixpoint kv_sort_by (m : kvs) : kvs :=
    match m with
    | [] => []
    | x :: tl => kv_ins_by x (kv_sort_by tl)
    end.
End KvSortBy.

(* the caller's closures (harness/src/bin/c08.rs, the vocabulary of c16.rs):
     kdesc  |k1, _, k2, _| k2.get().cmp(k1.get())
     rank   |_, a, _, b| rank_item(a).cmp(&rank_item(b)),  rank_item: Item::None => (0, 0),
            Item::Value(Value::Integer(f)) => (2, *f.value()), _ => (1, 0);   rank_value likewise on values *)
Definition item_rank (i : item) : nat * Z :=
  match i with
  | INone => (0, 0%Z)
  | IValue (VScalar (SInt z) _ _) => (2, z)
  | _ => (1, 0%Z)
  end.
Definition value_rank (v : value) : nat * Z :=
  match v with
  | VScalar (SInt z) _ _ => (2, z)
  | _ => (1, 0%Z)
  end.
(* table.rs sort_values_by_internal: `modified_cmp = |key1, val1, key2, val2| compare(key1, val1, key2, val2)` *)
Definition tcmp_le (c : scmp) (x y : key * item) : bool :=
  match c with
  | CKeyDesc => key_leb (k_key (fst y)) (k_key (fst x))
  | CRank => rank_le (item_rank (snd x)) (item_rank (snd y))
  end.
(* inline_table.rs sort_values_by_internal: `match (val1.as_value(), val2.as_value()) { (Some(v1), Some(v2)) =>
   compare(key1, v1, key2, v2), (Some(_), None) => Greater, (None, Some(_)) => Less, (None, None) => Equal }` *)
Definition icmp_le (c : scmp) (x y : key * item) : bool :=
  match snd x, snd y with
  | IValue v1, IValue v2 =>
    match c with
    | CKeyDesc => key_leb (k_key (fst y)) (k_key (fst x))
    | CRank => rank_le (value_rank v1) (value_rank v2)
    end
  | IValue _, _ => false
  | _, _ => true
  end.

(* `self.items.sort_by(modified_cmp); for value in self.items.values_mut() { Item::Table(table) if
   table.is_dotted() => table.sort_values_by_internal(compare) }` — the caller's comparator goes down into the
   dotted tables; the inline variant likewise with `Item::Value(Value::InlineTable(table)) if table.is_dotted()`.
   (As for sort_values the recursive calls are written before the sort: they change the inside of the child tables
   only, and the comparators look at the key and at the outermost constructor / integer of the item.) *)
Fixpoint tbl_sort_by (c : scmp) (t : tbl) : tbl :=
  match t with
  | Tbl items d im dt pos sp =>
    Tbl (kv_sort_by (tcmp_le c)
           (map (fun kv => match kv with
                           | (k, i) =>
                             (k, match i with
                                 | ITable (Tbl _ _ _ true _ _ as sub) => ITable (tbl_sort_by c sub)
                                 | _ => i
                                 end)
                           end) items)) d im dt pos sp
  end.
Fixpoint inline_sort_by (c : scmp) (v : value) : value :=
  match v with
  | VInline items pre im dt d sp =>
    VInline (kv_sort_by (icmp_le c)
               (map (fun kv => match kv with
                               | (k, i) =>
                                 (k, match i with
                                     | IValue (VInline _ _ _ true _ _ as sub) => IValue (inline_sort_by c sub)
                                     | _ => i
                                     end)
                               end) items)) pre im dt d sp
  | _ => v
  end.

(* The representation invariant of IndexMap: the keys of a map are distinct, so the comparator is never shown two
   entries with the same key.  `kvs` is a plain association list; sort_values_by is modelled on lists that ARE
   maps — in the sorted table and in the dotted tables the sort goes down into — and is undefined on the others
   (no reachable state: every constructor of the API keeps keys distinct).  Only the verbatim theorems use this
   (an entry is looked up by its key: with two entries of one key a by-value comparator could swap them). *)
Fixpoint keys_distinct (ks : list bytes) : bool :=
  match ks with
  | [] => true
  | k :: tl => negb (existsb (bytes_eqb k) tl) && keys_distinct tl
  end.
Fixpoint tbl_is_map (t : tbl) : bool :=
  match t with
  | Tbl items _ _ _ _ _ =>
    keys_distinct (map (fun kv : key * item => k_key (fst kv)) items)
    && (fix go (l : kvs) : bool :=
          match l with
          | [] => true
          | (_, i) :: tl =>
            match i with
            | ITable (Tbl _ _ _ true _ _ as sub) => tbl_is_map sub
            | _ => true
            end && go tl
          end) items
  end.
Fixpoint inline_is_map (v : value) : bool :=
  match v with
  | VInline items _ _ _ _ _ =>
    keys_distinct (map (fun kv : key * item => k_key (fst kv)) items)
    && (fix go (l : kvs) : bool :=
          match l with
          | [] => true
          | (_, i) :: tl =>
            match i with
            | IValue (VInline _ _ _ true _ _ as sub) => inline_is_map sub
            | _ => true
            end && go tl
          end) items
  | _ => true
  end.

Definition op_sort_by (c : scmp) (it : item) : option item :=
  match it with
  | ITable t => if tbl_is_map t then Some (ITable (tbl_sort_by c t)) else None
  | IValue (VInline _ _ _ _ _ _ as v) => if inline_is_map v then Some (IValue (inline_sort_by c v)) else None
  | _ => None
  end.

(* ------------------------------------------------------------------------------------ *)
(** * One operation on a document *)

Definition op_fun (o : op) : path * (item -> option item) :=
  match o with
  | OInsert p k v => (p, op_insert k v)
  | OInsertTable p k => (p, op_insert_item k (ITable tbl_new))
  | OInsertAot p k => (p, op_insert_item k (IAot [tbl_new] None))
  | ORemove p k => (p, op_remove k)
  | OArrPush p v => (p, op_arr_push v)
  | OArrInsert p i v => (p, op_arr_insert i v)
  | OArrReplace p i v => (p, op_arr_replace i v)
  | OArrRemove p i => (p, op_arr_remove i)
  | OAotPush p => (p, op_aot_push)
  | OAotRemove p i => (p, op_aot_remove i)
  | OSort p => (p, op_sort)
  | OFmt p => (p, op_fmt)
  | OMakeValue p k => (p, op_slot k (fun i => Some (make_value i)))
  | OIntoTable p k => (p, op_slot k (fun i => Some (into_table_slot i)))
  | OIntoAot p k => (p, op_slot k (fun i => Some (into_aot_slot i)))
  | OISet ks x =>
    ([], fun it => match ks with [] => None | _ => iset ks (build_item x) it end)
  | OSortBy p c => (p, op_sort_by c)
  end.

Definition apply (o : op) (root : tbl) : option tbl :=
  let '(p, f) := op_fun o in as_tbl (at_path p f (ITable root)).

Definition applicable (o : op) (root : tbl) : bool :=
  match apply o root with Some _ => true | None => false end.

(* a history: operations that are not applicable are skipped *)
Definition apply_skip (root : tbl) (o : op) : tbl :=
  match apply o root with Some r => r | None => root end.
Definition apply_all (ops : list op) (root : tbl) : tbl := fold_left apply_skip ops root.
