(* Model/SerFmt.v — what the document routes do to the value tree AFTER ValueSerializer built it and
   BEFORE it is printed: the root becomes a Table, and the "pretty" visitor of toml_edit
   (to_string_pretty) / the DocumentFormatter of toml (to_string AND to_string_pretty) turn inline
   tables into [header] tables and arrays of inline tables into [[arrays of tables]].

   item            crates/toml_edit/src/item.rs        Item (None left out) / Value / Table / ArrayOfTables,
                                                      without formatting
   make_item       crates/toml_edit/src/item.rs        Item::make_item = into_table, then into_array_of_tables
   pretty_*        crates/toml_edit/src/ser/pretty.rs  `impl VisitMut for Pretty` over the default walks of
                                                      crates/toml_edit/src/visit_mut.rs
   fmt_*           crates/toml/src/fmt.rs              `impl VisitMut for DocumentFormatter`
   Decor, `implicit`, trailing commas and newlines are layout only and not modelled here (the
   printer is C03/C06).  What matters for C07: the transformation must not change the value the
   document denotes (`abs`), and must leave no Table / ArrayOfTables inside an array or inline
   table, where the printer could not write it (defect F6, repaired in /repo 7e06b65). *)
From TV Require Import Base.Prelude Model.Datetime Spec.SerdeData.

Inductive item : Set :=
| ILeaf (x : tomlval)                       (* String / Integer / Float / Boolean / Datetime (never VArr / VTab) *)
| IArr (xs : list item)                     (* Value::Array: Vec<Item> *)
| IInl (es : list (bytes * item))           (* Value::InlineTable *)
| ITab (es : list (bytes * item))           (* Item::Table *)
| IAot (ts : list item).                    (* Item::ArrayOfTables: Vec<Item>, normally all Item::Table *)

(* the value a (sub)document denotes *)
Fixpoint abs (it : item) : tomlval :=
  match it with
  | ILeaf x => x
  | IArr xs => VArr (map abs xs)
  | IInl es => VTab (map (fun kx => (fst kx, abs (snd kx))) es)
  | ITab es => VTab (map (fun kx => (fst kx, abs (snd kx))) es)
  | IAot ts => VArr (map abs ts)
  end.

(* what ValueSerializer builds: values only *)
Fixpoint emb (x : tomlval) : item :=
  match x with
  | VArr xs => IArr (map emb xs)
  | VTab es => IInl (map (fun kx => (fst kx, emb (snd kx))) es)
  | _ => ILeaf x
  end.

Definition is_value (it : item) : bool :=
  match it with ILeaf _ | IArr _ | IInl _ => true | ITab _ | IAot _ => false end.

(* Item::into_table (Ok: the table; Err: the item unchanged) followed by `.map(Item::Table)` *)
Definition into_table (it : item) : item :=
  match it with
  | IInl es => ITab es                      (* InlineTable::into_table: Table::with_pairs(self.items) *)
  | _ => it
  end.

(* Item::into_array_of_tables followed by `.map(Item::ArrayOfTables)`: a non-empty array all of whose
   VALUES are inline tables; each element then gets make_item (an inline table becomes a Table) *)
Definition elem_make_item (it : item) : item := into_table it.
Definition into_array_of_tables (it : item) : item :=
  match it with
  | IArr xs =>
    match xs with
    | [] => it
    | _ => if forallb (fun e => match e with IInl _ => true | ILeaf _ | IArr _ => false | ITab _ | IAot _ => true end) xs
           then IAot (map elem_make_item xs) else it
    end
  | _ => it
  end.

Definition make_item (it : item) : item := into_array_of_tables (into_table it).

(* ---- toml_edit::ser::pretty::Pretty; `iv` = the field in_value ---- *)
Fixpoint pretty_item (iv : bool) (it : item) {struct it} : item :=
  (* visit_item_mut: `if !self.in_value { node.make_item(); }` then the default walk.  make_item only
     changes the head constructor, so the walk below recurses into the ORIGINAL children. *)
  match it with
  | ILeaf x => ILeaf x
  | IArr xs =>
    if negb iv && (match xs with [] => false | _ => true end)
       && forallb (fun e => match e with IInl _ => true | ILeaf _ | IArr _ => false | ITab _ | IAot _ => true end) xs
    then (* became an ArrayOfTables: visit_array_of_tables_mut visits the elements that are Tables *)
      IAot (map (fun e => match e with
                          | IInl es => ITab (map (fun kx => (fst kx, pretty_item iv (snd kx))) es)
                          | ITab es => ITab (map (fun kx => (fst kx, pretty_item iv (snd kx))) es)
                          | other => other end) xs)
    else (* visit_value_mut: in_value := true; visit_array_mut visits the elements that are Values *)
      IArr (map (fun e => if is_value e then pretty_item true e else e) xs)
  | IInl es =>
    if negb iv then ITab (map (fun kx => (fst kx, pretty_item iv (snd kx))) es)        (* became a Table *)
    else IInl (map (fun kx => (fst kx, pretty_item true (snd kx))) es)
  | ITab es => ITab (map (fun kx => (fst kx, pretty_item iv (snd kx))) es)
  | IAot ts => IAot (map (fun e => match e with
                                   | ITab es => ITab (map (fun kx => (fst kx, pretty_item iv (snd kx))) es)
                                   | other => other end) ts)
  end.

(* to_string_pretty: the root table of to_document, visit_document_mut -> visit_table_mut *)
Definition pretty_doc (es : list (bytes * item)) : list (bytes * item) :=
  map (fun kx => (fst kx, pretty_item false (snd kx))) es.

(* ---- toml::fmt::DocumentFormatter; `isv` = the field is_value (of the parent) ----
   visit_item_mut: `if !is_parent_value { into_table; into_array_of_tables; self.is_value = other.is_value() }`,
   default walk, restore. *)
Fixpoint fmt_item (isv : bool) (it : item) {struct it} : item :=
  match it with
  | ILeaf x => ILeaf x
  | IArr xs =>
    if negb isv && (match xs with [] => false | _ => true end)
       && forallb (fun e => match e with IInl _ => true | ILeaf _ | IArr _ => false | ITab _ | IAot _ => true end) xs
    then IAot (map (fun e => match e with
                             | IInl es => ITab (map (fun kx => (fst kx, fmt_item false (snd kx))) es)
                             | ITab es => ITab (map (fun kx => (fst kx, fmt_item false (snd kx))) es)
                             | other => other end) xs)
    else IArr (map (fun e => if is_value e then fmt_value e else e) xs)
  | IInl es =>
    if negb isv then ITab (map (fun kx => (fst kx, fmt_item false (snd kx))) es)
    else IInl (map (fun kx => (fst kx, fmt_item true (snd kx))) es)
  | ITab es => ITab (map (fun kx => (fst kx, fmt_item (if isv then true else false) (snd kx))) es)
  | IAot ts => IAot (map (fun e => match e with
                                   | ITab es => ITab (map (fun kx => (fst kx, fmt_item (if isv then true else false) (snd kx))) es)
                                   | other => other end) ts)
  end
with fmt_value (it : item) {struct it} : item :=
  (* visit_value_mut (called on array elements): is_value keeps the value the enclosing item set: true *)
  match it with
  | ILeaf x => ILeaf x
  | IArr xs => IArr (map (fun e => if is_value e then fmt_value e else e) xs)
  | IInl es => IInl (map (fun kx => (fst kx, fmt_item true (snd kx))) es)
  | other => other
  end.

Definition fmt_doc (es : list (bytes * item)) : list (bytes * item) :=
  map (fun kx => (fst kx, fmt_item false (snd kx))) es.

(* ---- the documents of the five text / document routes, from the tree ValueSerializer built ---- *)
Definition root_entries (x : tomlval) : list (bytes * item) :=
  match emb x with IInl es => es | _ => [] end.
Definition doc_edit_plain (x : tomlval) : item := ITab (root_entries x).                 (* to_document, to_string *)
Definition doc_edit_pretty (x : tomlval) : item := ITab (pretty_doc (root_entries x)).   (* to_string_pretty *)
Definition doc_toml (x : tomlval) : item := ITab (fmt_doc (root_entries x)).             (* toml::to_string{,_pretty} *)

(* ---- what the printer can write: tables and arrays of tables only where a header can stand ---- *)
Fixpoint pure_value (it : item) : bool :=
  match it with
  | ILeaf _ => true
  | IArr xs => forallb pure_value xs
  | IInl es => forallb (fun kx => pure_value (snd kx)) es
  | ITab _ | IAot _ => false
  end.
Fixpoint printable (it : item) : bool :=
  match it with
  | ITab es => forallb (fun kx => printable (snd kx)) es
  | IAot ts => forallb (fun t => match t with ITab es => forallb (fun kx => printable (snd kx)) es | _ => false end) ts
  | _ => pure_value it
  end.
