(* Model/De.v — the serde deserializers on the level of the TOML value tree.

   As in Model/Ser.v two layers are composed: the DERIVE PROTOCOL (which `Deserializer` method
   `#[derive(Deserialize)]` / serde's std impls call for each shape of `ty` and what their visitors
   accept — harness/src/bin/serde/dynde.rs is the same protocol as Rust code, checked against real
   derived types by the `fidelity` command), and what the repository's deserializers do.

   de_value     crates/toml_edit/src/de/value.rs       ValueDeserializer (deserialize_any / option /
                                                      newtype_struct / struct / enum)
                crates/toml_edit/src/de/table.rs       TableDeserializer, TableMapAccess
                crates/toml_edit/src/de/array.rs       ArrayDeserializer, ArraySeqAccess
                crates/toml_edit/src/de/table_enum.rs  TableEnumDeserializer
                crates/toml_edit/src/de/datetime.rs    DatetimeDeserializer
                crates/toml_edit/src/de/mod.rs         Deserializer (the document root: forwards to the
                                                      root item's ValueDeserializer), validate_struct_keys
   de_key       crates/toml_edit/src/de/key.rs         KeyDeserializer
   tv_de        crates/toml/src/value.rs               `impl Deserializer for Value` (Value::try_into),
                                                      SeqDeserializer, MapDeserializer, MapEnumDeserializer
   toml::de::{Deserializer, ValueDeserializer} wrap toml_edit's and add nothing on this level.

   Item::Table / Value::InlineTable are both `VTab`, Item::ArrayOfTables / Value::Array both `VArr`:
   the deserializers treat them alike (spans and error messages apart).

   Deserialization errors are not distinguished (their messages are C15's business): `EDe`.
   Since a visitor stops at the first error and is otherwise pure, the order in which a struct's
   entries are examined cannot be observed; `de_fields_map` is therefore written per FIELD
   ("the entry under the field's name, if any") instead of per entry.
   `EUnmodelled` marks the few paths the model does not follow (they start from shapes no serializer
   output has at that type): an integer read as a float, a date-time read as a map / struct,
   the Spanned tunnel. *)
From TV Require Import Base.Prelude Base.Utf8 Model.Datetime Model.DatetimeStd Model.SerNum Spec.SerdeData.

Local Open Scope N_scope.

(* ---- `v as f32` for an f64 bit pattern (IEEE-754 round to nearest, ties to even; the hardware
        conversion, given by its functional spec).  NaN: a quiet NaN keeping the top payload bits. ---- *)
Definition narrow_mag (e m : N) : N :=            (* e, m: exponent and mantissa fields of the f64 *)
  if e =? 2047 then (if m =? 0 then 255 * 2 ^ 23 else 255 * 2 ^ 23 + 2 ^ 22 + (m / 2 ^ 29) mod 2 ^ 22)
  else
    (* value = M * 2^(E - 1075) with *)
    let M := if e =? 0 then m else 2 ^ 52 + m in
    let E := if e =? 0 then 1 else e in
    if M =? 0 then 0
    else
      (* X + 1075 = log2 M + E: the value lies in [2^X, 2^(X+1)) *)
      let X1075 := N.log2 M + E in
      if 1075 + 127 <? X1075 then 255 * 2 ^ 23                 (* >= 2^128: infinity *)
      else
        (* biased f32 exponent of the binade, at least 1 (subnormals share the quantum of exponent 1) *)
        let eb := if X1075 <? 1075 - 126 + 1 then 1 else X1075 - (1075 - 127) in
        (* quantum 2^(eb - 150); M * 2^(E-1075) / 2^(eb-150) = M / 2^sh with sh = eb + 925 - E >= 29 *)
        let sh := eb + 925 - E in
        let q := M / 2 ^ sh in
        let r := M mod 2 ^ sh in
        let half := 2 ^ (sh - 1) in
        let q' := if (half <? r) || ((half =? r) && N.odd q) then q + 1 else q in
        (eb - 1) * 2 ^ 23 + q'.
Definition narrow32 (b : N) : N :=
  ((b / 2 ^ 63) mod 2) * 2 ^ 31 + narrow_mag ((b / 2 ^ 52) mod 2 ^ 11) (b mod 2 ^ 52).

(* ---- serde's CharVisitor::visit_str: `let mut it = v.chars(); match (it.next(), it.next()) { (Some(c), None) => Ok(c), _ => Err }`
        on valid UTF-8 text ---- *)
Definition utf8_decode1 (s : bytes) : option (N * bytes) :=
  match s with
  | [] => None
  | b0 :: s1 =>
    let n0 := b2n b0 in
    if n0 <? 128 then Some (n0, s1)
    else if n0 <? 224 then
      match s1 with b1 :: s2 => Some ((n0 - 192) * 64 + (b2n b1 - 128), s2) | _ => None end
    else if n0 <? 240 then
      match s1 with b1 :: b2 :: s3 => Some ((n0 - 224) * 4096 + (b2n b1 - 128) * 64 + (b2n b2 - 128), s3) | _ => None end
    else
      match s1 with
      | b1 :: b2 :: b3 :: s4 => Some ((n0 - 240) * 262144 + (b2n b1 - 128) * 4096 + (b2n b2 - 128) * 64 + (b2n b3 - 128), s4)
      | _ => None end
  end.
Local Close Scope N_scope.

Definition de_char (s : bytes) : result sval :=
  match utf8_decode1 s with Some (c, []) => Ok (SChar c) | _ => Err EDe end.

(* ---- decidable equality of values (BTreeMap / HashMap key equality in MapVisitor) ---- *)
Fixpoint sval_beq (a b : sval) {struct a} : bool :=
  match a, b with
  | SBool x, SBool y => Bool.eqb x y
  | SInt x, SInt y => (x =? y)%Z
  | SF64 x, SF64 y => (x =? y)%N
  | SF32 x, SF32 y => (x =? y)%N
  | SChar x, SChar y => (x =? y)%N
  | SStr x, SStr y => bytes_eqb x y
  | SDt x, SDt y => bytes_eqb (display_datetime x) (display_datetime y)
  | SUnit, SUnit => true
  | SNone, SNone => true
  | SSome x, SSome y => sval_beq x y
  | SSeq xs, SSeq ys => all2b sval_beq xs ys
  | SMap xs, SMap ys => all2b (fun p q => sval_beq (fst p) (fst q) && sval_beq (snd p) (snd q)) xs ys
  | SRec xs, SRec ys => all2b sval_beq xs ys
  | SNewtype x, SNewtype y => sval_beq x y
  | SVariant i x, SVariant j y => Nat.eqb i j && sval_beq x y
  | _, _ => false
  end.

(* map.insert(k, v): a later equal key replaces the earlier value *)
Fixpoint smap_insert (k v : sval) (es : list (sval * sval)) : list (sval * sval) :=
  match es with
  | [] => [(k, v)]
  | (k', v') :: es' => if sval_beq k' k then (k', v) :: es' else (k', v') :: smap_insert k v es'
  end.
Definition smap_of_pairs (ps : list (sval * sval)) : list (sval * sval) :=
  fold_left (fun acc p => smap_insert (fst p) (snd p) acc) ps [].

(* ---- tables ---- *)
Fixpoint tab_get (k : bytes) (es : list (bytes * tomlval)) : option tomlval :=
  match es with
  | [] => None
  | (k', x) :: es' => if bytes_eqb k' k then Some x else tab_get k es'
  end.

(* the first entry of `l` called k, with its position, handed to a continuation *)
Definition find_name {A R : Type} (f : nat -> A -> R) (d : R) (k : bytes) : list (bytes * A) -> nat -> R :=
  fix go (l : list (bytes * A)) (i : nat) : R :=
    match l with
    | [] => d
    | (n, a) :: l' => if bytes_eqb n k then f i a else go l' (S i)
    end.

(* derive's `visit_map` fails with duplicate_field when two entries select the same field *)
Definition dup_field_hit (names : list bytes) (es : list (bytes * tomlval)) : bool :=
  negb (nodup_bytes (filter (fun k => mem_bytes k names) (map fst es))).

(* serde::__private::de::missing_field: Option fields become None, everything else is an error *)
Definition missing_field (t : ty) : result sval :=
  match t with TOpt _ => Ok SNone | _ => Err EDe end.

(* toml_edit/src/de/mod.rs validate_struct_keys: every key of the table is one of the fields *)
Definition struct_keys_ok (names : list bytes) (es : list (bytes * tomlval)) : bool :=
  forallb (fun kx => mem_bytes (fst kx) names) es.

(* usize::from_str as used by TableEnumDeserializer::tuple_variant on table keys: optional `+`,
   at least one digit, value < 2^64 *)
Definition parse_usize (s : bytes) : option N :=
  let ds := match s with b :: r => if byte_eqb b x2b then r else s | [] => [] end in
  match ds with
  | [] => None
  | _ => if forallb is_digit ds then (let n := dec_value ds in if (n <? 2 ^ 64)%N then Some n else None) else None
  end.
Fixpoint index_keys (i : N) (es : list (bytes * tomlval)) : option (list tomlval) :=
  match es with
  | [] => Some []
  | (k, x) :: es' =>
    match parse_usize k with
    | Some j => if (j =? i)%N then optmap (cons x) (index_keys (i + 1) es') else None
    | None => None
    end
  end.

Section Visitors.
  Variable de : ty -> tomlval -> result sval.
  Context {A : Type}.
  Variable proj : A -> ty.

  (* derive's visit_seq / serde's tuple visitors: one next_element per component, invalid_length when
     the sequence ends early; returns what is left *)
  Fixpoint de_pos (l : list A) (xs : list tomlval) : result (list sval * list tomlval) :=
    match l with
    | [] => Ok ([], xs)
    | a :: l' =>
      match xs with
      | [] => Err EDe
      | x :: xs' => rbind (de (proj a) x) (fun v => rbind (de_pos l' xs') (fun r => Ok (v :: fst r, snd r)))
      end
    end.
End Visitors.

Section StructVisitor.
  Variable de : ty -> tomlval -> result sval.
  (* derive's visit_map, per field: the field identifier visitor maps a key to the FIRST field of
     that name (a later field of the same name is never selected); an unselected field goes
     through missing_field; entries selecting no field are skipped (IgnoredAny accepts anything) *)
  Fixpoint de_fields_map (es : list (bytes * tomlval)) (seen : list bytes) (fs : list (bytes * ty))
    : result (list sval) :=
    match fs with
    | [] => Ok []
    | (f, t) :: fs' =>
      rbind (if mem_bytes f seen then missing_field t
             else match tab_get f es with Some x => de t x | None => missing_field t end) (fun v =>
      rbind (de_fields_map es (f :: seen) fs') (fun vs => Ok (v :: vs)))
    end.
End StructVisitor.

Definition de_struct_map (de : ty -> tomlval -> result sval) (fs : list (bytes * ty)) (es : list (bytes * tomlval))
  : result (list sval) :=
  if dup_field_hit (map fst fs) es then Err EDe else de_fields_map de es [] fs.

Definition empty_container (x : tomlval) : bool :=
  match x with VArr [] => true | VTab [] => true | _ => false end.

(* Datetime::deserialize: deserialize_struct(NAME, [FIELD], DatetimeVisitor); the visitor's visit_map
   wants the key FIELD first and a string holding a date-time as its value *)
Definition de_dt_str (s : bytes) : result datetime :=
  match std_from_str s with Some d => Ok d | None => Err EDe end.
Definition dt_kind_check (k : dtk) (d : datetime) : result sval :=
  if dt_kind_ok k d then Ok (SDt d) else Err EDe.      (* Date::deserialize / Time::deserialize: invalid_type *)

(* ==== toml_edit ================================================================================= *)
Definition de_datetime (x : tomlval) : result datetime :=
  match x with
  | VDatetime d => de_dt_str (display_datetime d)      (* DatetimeDeserializer: key FIELD, value date.to_string() *)
  | VTab ((k, y) :: _) =>                              (* TableMapAccess; entries after the first are never looked at *)
    if bytes_eqb k DT_FIELD then match y with VStr s => de_dt_str s | _ => Err EDe end else Err EDe
  | _ => Err EDe
  end.

(* KeyDeserializer: deserialize_any = visit_str(key); deserialize_enum = visit_enum(self) with unit
   variants only; deserialize_newtype_struct = visit_newtype_struct(self); the rest forwards to any *)
Fixpoint de_key (t : ty) (k : bytes) {struct t} : result sval :=
  match t with
  | TStr => Ok (SStr k)
  | TChar => de_char k
  | TNewtype _ t' => rmap SNewtype (de_key t' k)
  | TEnum _ vs =>
    find_name (fun i var => match var with VUnit => Ok (SVariant i SUnit) | _ => Err EDe end) (Err EDe) k vs 0
  | TStruct n _ => if private_name n then Err EUnmodelled else Err EDe
  | _ => Err EDe
  end.

Fixpoint de_value (t : ty) (x : tomlval) {struct t} : result sval :=
  match t with
  | TBool => match x with VBool b => Ok (SBool b) | _ => Err EDe end
  | TInt w => match x with
              | VInt z => match de_int w z with Some z' => Ok (SInt z') | None => Err EDe end
              | _ => Err EDe end
  | TFloat F64 => match x with VFloat b => Ok (SF64 b) | VInt _ => Err EUnmodelled | _ => Err EDe end
  | TFloat F32 => match x with VFloat b => Ok (SF32 (narrow32 b)) | VInt _ => Err EUnmodelled | _ => Err EDe end
  | TChar => match x with VStr s => de_char s | _ => Err EDe end
  | TStr => match x with VStr s => Ok (SStr s) | _ => Err EDe end
  | TDatetime k => rbind (de_datetime x) (dt_kind_check k)
  | TUnit => Err EDe                                   (* visit_unit is never called *)
  | TUnitStruct _ => Err EDe
  | TOpt t' => rmap SSome (de_value t' x)              (* deserialize_option: visitor.visit_some(self) *)
  | TSeq t' => match x with VArr xs => rmap SSeq (mapM (de_value t') xs) | _ => Err EDe end
  | TTuple ts | TTupleStruct _ ts =>                   (* ArraySeqAccess: elements left over are not an error *)
    match x with VArr xs => rmap (fun r => SSeq (fst r)) (de_pos de_value (fun t' => t') ts xs) | _ => Err EDe end
  | TMap kt vt =>
    match x with
    | VTab es => rmap (fun ps => SMap (smap_of_pairs ps))
                      (mapM (fun kx => rbind (de_key kt (fst kx)) (fun k => rmap (fun v => (k, v)) (de_value vt (snd kx)))) es)
    | VDatetime _ => Err EUnmodelled
    | _ => Err EDe
    end
  | TStruct n fs =>
    if private_name n then Err EUnmodelled
    else match x with
         | VTab es => rmap SRec (de_struct_map de_value fs es)                                   (* visit_map *)
         | VArr xs => rmap (fun r => SRec (fst r)) (de_pos de_value (fun ft => snd ft) fs xs)     (* visit_seq *)
         | VDatetime _ => Err EUnmodelled
         | _ => Err EDe
         end
  | TNewtype _ t' => rmap SNewtype (de_value t' x)     (* deserialize_newtype_struct: visitor.visit_newtype_struct(self) *)
  | TEnum _ vs =>
    match x with
    | VStr s =>                                        (* visit_enum(StringDeserializer): unit variants only *)
      find_name (fun i var => match var with VUnit => Ok (SVariant i SUnit) | _ => Err EDe end) (Err EDe) s vs 0
    | VTab [(k, y)] =>                                 (* exactly one entry: TableMapAccess as EnumAccess *)
      find_name (fun i var => rmap (SVariant i) (de_payload var y)) (Err EDe) k vs 0
    | _ => Err EDe
    end
  end
with de_payload (var : variant) (y : tomlval) {struct var} : result sval :=   (* TableEnumDeserializer *)
  match var with
  | VUnit => if empty_container y then Ok SUnit else Err EDe
  | VNewtype t => de_value t y
  | VTuple ts =>
    match y with
    | VArr xs => if Nat.eqb (length xs) (length ts)
                 then rmap (fun r => SSeq (fst r)) (de_pos de_value (fun t' => t') ts xs) else Err EDe
    | VTab es => match index_keys 0 es with
                 | Some xs => if Nat.eqb (length xs) (length ts)
                              then rmap (fun r => SSeq (fst r)) (de_pos de_value (fun t' => t') ts xs) else Err EDe
                 | None => Err EDe end
    | _ => Err EDe
    end
  | VStruct fs =>                                      (* deserialize_struct with_struct_key_validation *)
    match y with
    | VTab es => if struct_keys_ok (map fst fs) es then rmap SRec (de_struct_map de_value fs es) else Err EDe
    | VArr xs => rmap (fun r => SRec (fst r)) (de_pos de_value (fun ft => snd ft) fs xs)
    | VDatetime _ => Err EUnmodelled
    | _ => Err EDe
    end
  end.

(* ==== toml::Value as a Deserializer (Value::try_into, Table::try_into) ========================================
   deserialize_any: Array / Table are visited through SeqDeserializer / MapDeserializer and what the
   visitor leaves unread is an error; Datetime is visit_map(DatetimeDeserializer) — toml_datetime's private
   struct, as in toml_edit (repair of C13-tryinto-datetime-string; before: visit_string(to_string())); map keys
   are deserialized from Value::String(key); deserialize_struct forwards to deserialize_any (no tunnels). *)
Definition all_read {X} (r : result (list sval * list X)) : result (list sval) :=
  rbind r (fun p => match snd p with [] => Ok (fst p) | _ => Err EDe end).

Definition tv_de_datetime (x : tomlval) : result datetime :=
  match x with
  | VDatetime d => de_dt_str (display_datetime d)     (* DatetimeDeserializer (value.rs): key FIELD, value date.to_string() *)
  | VTab [(k, y)] =>
    if bytes_eqb k DT_FIELD
    then match y with
         | VStr s => de_dt_str s
         | _ => Err EDe end
    else Err EDe
  | _ => Err EDe
  end.

Fixpoint tv_de (t : ty) (x : tomlval) {struct t} : result sval :=
  match t with
  | TBool => match x with VBool b => Ok (SBool b) | _ => Err EDe end
  | TInt w => match x with
              | VInt z => match de_int w z with Some z' => Ok (SInt z') | None => Err EDe end
              | _ => Err EDe end
  | TFloat F64 => match x with VFloat b => Ok (SF64 b) | VInt _ => Err EUnmodelled | _ => Err EDe end
  | TFloat F32 => match x with VFloat b => Ok (SF32 (narrow32 b)) | VInt _ => Err EUnmodelled | _ => Err EDe end
  | TChar => match x with VStr s => de_char s | _ => Err EDe end
  | TStr => match x with VStr s => Ok (SStr s) | _ => Err EDe end      (* a date-time is a map for the visitor, as in toml_edit *)
  | TDatetime k => rbind (tv_de_datetime x) (dt_kind_check k)
  | TUnit => Err EDe
  | TUnitStruct _ => Err EDe
  | TOpt t' => rmap SSome (tv_de t' x)
  | TSeq t' => match x with VArr xs => rmap SSeq (mapM (tv_de t') xs) | _ => Err EDe end
  | TTuple ts | TTupleStruct _ ts =>
    match x with VArr xs => rmap SSeq (all_read (de_pos tv_de (fun t' => t') ts xs)) | _ => Err EDe end
  | TMap kt vt =>
    match x with
    | VTab es => rmap (fun ps => SMap (smap_of_pairs ps))
                      (mapM (fun kx => rbind (tv_de kt (VStr (fst kx))) (fun k => rmap (fun v => (k, v)) (tv_de vt (snd kx)))) es)
    | VDatetime _ => Err EUnmodelled
    | _ => Err EDe
    end
  | TStruct n fs =>
    match x with
    | VTab es => rmap SRec (de_struct_map tv_de fs es)
    | VArr xs => rmap SRec (all_read (de_pos tv_de (fun ft => snd ft) fs xs))
    | VDatetime _ => Err EUnmodelled
    | _ => Err EDe
    end
  | TNewtype _ t' => rmap SNewtype (tv_de t' x)
  | TEnum _ vs =>
    match x with
    | VStr s =>
      find_name (fun i var => match var with VUnit => Ok (SVariant i SUnit) | _ => Err EDe end) (Err EDe) s vs 0
    | VTab [(k, y)] =>
      find_name (fun i var => rmap (SVariant i) (tv_de_payload var y)) (Err EDe) k vs 0
    | _ => Err EDe
    end
  end
with tv_de_payload (var : variant) (y : tomlval) {struct var} : result sval :=   (* MapEnumDeserializer *)
  match var with
  | VUnit => if empty_container y then Ok SUnit else Err EDe
  | VNewtype t => tv_de t y
  | VTuple ts =>
    match y with
    | VArr xs => if Nat.eqb (length xs) (length ts)
                 then rmap SSeq (all_read (de_pos tv_de (fun t' => t') ts xs)) else Err EDe
    | VTab es => match index_keys 0 es with
                 | Some xs => if Nat.eqb (length xs) (length ts)
                              then rmap SSeq (all_read (de_pos tv_de (fun t' => t') ts xs)) else Err EDe
                 | None => Err EDe end
    | _ => Err EDe
    end
  | VStruct fs =>
    match y with
    | VTab es => rmap SRec (de_struct_map tv_de fs es)
    | VArr xs => rmap SRec (all_read (de_pos tv_de (fun ft => snd ft) fs xs))
    | VDatetime _ => Err EUnmodelled
    | _ => Err EDe
    end
  end.
