(* Model/Containers.v — executable model of the container methods of property C16.

   State of a table-like container = the raw entries of its `items: IndexMap<Key, Item>` in
   storage order, INCLUDING the placeholder entries (`Item::None`) that mutable indexing
   leaves behind (after the repair of C16-placeholder-residue every write / entry path first
   drops the placeholder under its key: `remove_placeholder`, see `prep`).
   Every branch below names the Rust function it transcribes; the filters
   (`!value.is_none()`, `as_value()`, `is_value()`) are modelled exactly where the Rust
   methods have them and nowhere else.

   External code is given its functional specification:
     indexmap::IndexMap  = association list in insertion order, unique keys; `insert` and the
                           entry API keep the position of an existing key and append a new one;
                           `shift_remove` closes the gap; `retain` filters in order;
                           `sort_keys` / `sort_by` are stable sorts.
     BTreeMap            = association list kept in ascending key order.
     Vec                 = list; insert / remove / index panic out of range.

   The call vocabulary (mop, vop, out, ...) is shared with Spec/Ordered.v; no reference
   container function (the om_, sm_ and vec_ families) is used here.  No proofs in this file. *)
From TV Require Import Base.Prelude Spec.Ordered.

Definition obind {A B} (o : option A) (f : A -> option B) : option B :=
  match o with Some a => f a | None => None end.
Definition is_some {A} (o : option A) : bool := match o with Some _ => true | None => false end.

(* ------------------------------------------------------------------------------------ *)
(** * indexmap::IndexMap<K, V> (K compared by string content) *)
Section IndexMap.
  Context {V : Type}.
  Definition imap := list (bytes * V).

  (* IndexMap::get / get_mut / get_full / contains_key *)
  Fixpoint im_get (k : bytes) (m : imap) : option V :=
    match m with
    | [] => None
    | (k', v) :: m' => if bytes_eqb k' k then Some v else im_get k m'
    end.

  (* IndexMap::insert; Entry::Occupied -> replace the value in place; Entry::Vacant -> push *)
  Fixpoint im_insert (k : bytes) (v : V) (m : imap) : imap :=
    match m with
    | [] => [(k, v)]
    | (k', v') :: m' => if bytes_eqb k' k then (k', v) :: m' else (k', v') :: im_insert k v m'
    end.

  (* IndexMap::shift_remove / shift_remove_entry / OccupiedEntry::shift_remove *)
  Fixpoint im_shift_remove (k : bytes) (m : imap) : imap :=
    match m with
    | [] => []
    | (k', v') :: m' => if bytes_eqb k' k then m' else (k', v') :: im_shift_remove k m'
    end.

  (* IndexMap::retain: visits in order, keeps the entries for which the closure is true *)
  Fixpoint im_retain (f : bytes -> V -> bool) (m : imap) : imap :=
    match m with
    | [] => []
    | (k', v') :: m' => if f k' v' then (k', v') :: im_retain f m' else im_retain f m'
    end.

  (* IndexMap::sort_by / sort_keys: a stable sort; `le a b` = "the closure does not say Greater" *)
  Fixpoint im_ins_sorted (le : bytes * V -> bytes * V -> bool) (x : bytes * V) (m : imap) : imap :=
    match m with
    | [] => [x]
    | y :: m' => if le x y then x :: y :: m' else y :: im_ins_sorted le x m'
    end.
  Fixpoint im_sort_by (le : bytes * V -> bytes * V -> bool) (m : imap) : imap :=
    match m with
    | [] => []
    | x :: m' => im_ins_sorted le x (im_sort_by le m')
    end.

  (* Extend: `for (k, v) in iter { self.items.insert(k, v); }` *)
  Fixpoint im_extend (l : list (bytes * V)) (m : imap) : imap :=
    match l with
    | [] => m
    | (k, v) :: l' => im_extend l' (im_insert k v m)
    end.

  (* ---- BTreeMap<String, V> ---- *)
  Fixpoint bt_insert (k : bytes) (v : V) (m : imap) : imap :=
    match m with
    | [] => [(k, v)]
    | (k', v') :: m' =>
      match key_compare k k' with
      | Lt => (k, v) :: (k', v') :: m'
      | Eq => (k', v) :: m'
      | Gt => (k', v') :: bt_insert k v m'
      end
    end.
  Fixpoint bt_extend (l : list (bytes * V)) (m : imap) : imap :=
    match l with
    | [] => m
    | (k, v) :: l' => bt_extend l' (bt_insert k v m)
    end.
End IndexMap.
Arguments imap : clear implicits.

(* ------------------------------------------------------------------------------------ *)
(** * Item helpers (item.rs) *)
Definition is_none (i : item) : bool := match i with INone => true | _ => false end.      (* Item::is_none *)
Definition is_value (i : item) : bool :=                                                 (* Item::is_value *)
  match i with IReal (PInt _) | IReal PInl => true | _ => false end.
Definition is_table (i : item) : bool := match i with IReal PTab => true | _ => false end. (* Item::is_table *)
(* `.and_then(|value| if !value.is_none() { Some(value) } else { None })` *)
Definition flt (o : option item) : option item := match o with Some INone => None | x => x end.
(* Item::as_value / as_value_mut *)
Definition as_value (i : item) : option item := if is_value i then Some i else None.
(* Item::into_value().ok(): None -> Err; a Table becomes an inline table *)
Definition into_value (i : item) : option item :=
  match i with INone => None | IReal PTab => Some (IReal PInl) | x => Some x end.
(* InlineTable::entry: "HACK: `Item::None` is a corner case of a corner case, let's just pick a
   "safe" value": `scratch.into_value().unwrap_or_else(|_| Value::InlineTable(Default::default()))` *)
Definition hack (i : item) : item := match into_value i with Some v => v | None => IReal PInl end.

Definition visible (c : imap item) : imap item := im_retain (fun _ i => negb (is_none i)) c.

(* the decidable test "the entry stored under k is a placeholder" *)
Definition ph (k : bytes) (c : imap item) : bool :=
  match im_get k c with Some INone => true | _ => false end.
Definition anyph (c : imap item) : bool := existsb (fun kv => is_none (snd kv)) c.

(* table.rs: Table::remove_placeholder / inline_table.rs: InlineTable::remove_placeholder —
   `if let Some(Item::None) = self.items.get(key) { self.items.shift_remove(key); }` *)
Definition purge (k : bytes) (c : imap item) : imap item :=
  if ph k c then im_shift_remove k c else c.

(* Extend for Table / InlineTable: `for (key, value) in iter { self.remove_placeholder(key.get());
   self.items.insert(key, value); }` *)
Fixpoint im_extend_p (l : list (bytes * item)) (m : imap item) : imap item :=
  match l with
  | [] => m
  | (k, v) :: l' => im_extend_p l' (im_insert k v (purge k m))
  end.

(* which methods start with `self.remove_placeholder(key)`:
     Table:        entry, entry_format, insert, insert_formatted, remove, remove_entry
                   (and through entry: IndexMut<&str> for Table, `impl Index for str`::index_mut on a table)
     InlineTable:  entry, entry_format, insert, insert_formatted, get_or_insert,
                   TableLike::entry / entry_format, and `impl Index for str`::index_mut on an inline table
   (InlineTable::remove / remove_entry need none: `.and_then(|v| v.into_value().ok())` drops the placeholder) *)
Definition prep (kd : mkind) (o : mop) (c : imap item) : imap item :=
  match o with
  | MIns k _ | MInsF k _ | MEnt k | MEoi k _ | MEins k _ | MErm k | MGoi k _
  | MIdxM k | MISet k _ | MIoi k _ => purge k c
  | MRm k | MRmE k => match kd with KTable => purge k c | _ => c end
  | _ => c
  end.
Definition only_values (c : imap item) : imap item := im_retain (fun _ i => is_value i) c.

(* the comparators handed to IndexMap::sort_by *)
(* Table::sort_values_by_internal: the user closure sees every raw entry *)
Definition tcmp_le (cm : cmpk) (a b : bytes * item) : bool :=
  match cm with
  | CKeyDesc => key_leb (fst b) (fst a)
  | CValAsc => rank_leb (rank (snd a)) (rank (snd b))
  end.
(* InlineTable::sort_values_by_internal: `modified_cmp` puts non-values first and calls the
   user closure on two values only *)
Definition icmp_le (cm : cmpk) (a b : bytes * item) : bool :=
  match as_value (snd a), as_value (snd b) with
  | Some va, Some vb =>
    match cm with
    | CKeyDesc => key_leb (fst b) (fst a)
    | CValAsc => rank_leb (rank va) (rank vb)
    end
  | Some _, None => false      (* Ordering::Greater *)
  | None, Some _ => true       (* Ordering::Less *)
  | None, None => true         (* Ordering::Equal *)
  end.

(* ------------------------------------------------------------------------------------ *)
(** * Table (table.rs), InlineTable (inline_table.rs), `impl TableLike for InlineTable`,
      and the index operators (index.rs) *)

(* get / get_mut *)
Definition t_get (kd : mkind) (k : bytes) (c : imap item) : option item :=
  match kd with
  | KTable => flt (im_get k c)                  (* Table::get: filters Item::None *)
  | KInline => obind (im_get k c) as_value      (* InlineTable::get: `.and_then(|value| value.as_value())` *)
  | _ => flt (im_get k c)                       (* TableLike for InlineTable::get{,_mut}:
                                                   `self.items.get(key).filter(|value| !value.is_none())` *)
  end.
(* contains_key *)
Definition t_ck (kd : mkind) (k : bytes) (c : imap item) : bool :=
  match kd with
  | KTable => match im_get k c with Some i => negb (is_none i) | None => false end   (* Table::contains_key *)
  | _ => match im_get k c with Some i => is_value i | None => false end              (* InlineTable::contains_key *)
  end.
(* iter *)
Definition t_iter (kd : mkind) (c : imap item) : imap item :=
  match kd with
  | KTable => visible c       (* Table::iter: `.filter(|(_, value)| !value.is_none())` *)
  | KInline => visible c      (* InlineTable::iter: same filter, then `as_value().unwrap()`
                                 (cannot fail: only values are ever stored through the modelled calls) *)
  | _ => visible c            (* TableLike for InlineTable::iter: `.filter(|(_, value)| !value.is_none())` *)
  end.
(* len: Table::len and InlineTable::len are `self.iter().count()`; the TableLike default is
   `self.iter().filter(|&(_, v)| !v.is_none()).count()` *)
Definition t_len (c : imap item) : nat := length (visible c).
(* get_values (what Display prints): `Item::Value(value)` entries only *)
Fixpoint t_values (c : imap item) : list (bytes * pay) :=
  match c with
  | [] => []
  | (k, IReal p) :: c' => if is_value (IReal p) then (k, p) :: t_values c' else t_values c'
  | (_, INone) :: c' => t_values c'
  end.

(* one call on the state left by its `remove_placeholder` (prep) *)
Definition tbody (kd : mkind) (c : imap item) (o : mop) : imap item * out :=
  let nv p := IReal (norm kd p) in
  match o with
  | MIns k p | MInsF k p =>
    (* Table::insert{,_formatted}: Occupied => `Some(mem::replace(entry.get_mut(), item))`, Vacant => None
       InlineTable::insert{,_formatted}: the same, then `old.into_value().ok()`
       TableLike for InlineTable::insert: `self.insert(key, value.into_value().unwrap()).map(Item::Value)` *)
    (im_insert k (nv p) c,
     OOpt (match kd with KTable => im_get k c | _ => obind (im_get k c) into_value end))
  | MRm k =>
    (* Table::remove: `self.items.shift_remove(key)`; InlineTable::remove: `.and_then(|v| v.into_value().ok())` *)
    (im_shift_remove k c,
     OOpt (match kd with KTable => im_get k c | _ => obind (im_get k c) into_value end))
  | MRmE k =>
    (im_shift_remove k c,
     OOptKV (optmap (pair k) (match kd with KTable => im_get k c | _ => obind (im_get k c) into_value end)))
  | MGet k | MGetM k => (c, OOpt (t_get kd k c))
  | MGkv k | MGkvM k =>
    (* get_key_value{,_mut}: filtered in Table and InlineTable; TableLike delegates *)
    (c, OOptKV (optmap (pair k) (flt (im_get k c))))
  | MCk k => (c, OBool (t_ck kd k c))
  | MCt k => (c, OBool (match im_get k c with Some i => is_table i | None => false end))
  | MCv k => (c, OBool (match im_get k c with Some i => is_value i | None => false end))
  | MCa k => (c, OBool false)     (* no array of tables is ever stored *)
  | MKey k =>
    (* key(): `self.items.get_full(key).filter(|(_, _, value)| !value.is_none())` *)
    (c, OBool (match im_get k c with Some i => negb (is_none i) | None => false end))
  | MLen => (c, ONat (t_len c))
  | MEmp => (c, OBool (Nat.eqb (t_len c) 0))
  | MIter => (c, OList (t_iter kd c))
  | MIterM =>
    (c, OList (match kd with
               | KTable => visible c          (* Table::iter_mut: `!value.is_none()` *)
               | KInline => only_values c     (* InlineTable::iter_mut: `value.is_value()` *)
               | _ => visible c               (* TableLike for InlineTable::iter_mut: `!value.is_none()` *)
               end))
  | MKeys | MVals => (c, ONA)
  | MClr => ([], OUnit)
  | MEnt k =>
    match im_get k c with
    | None => (c, OVac)
    | Some i =>
      match kd with
      | KInline => (im_insert k (hack i) c, OOcc (hack i))   (* InlineTable::entry rewrites the slot *)
      | _ => (c, OOcc i)                                     (* Table::entry, TableLike::entry: raw entry *)
      end
    end
  | MEoi k p =>
    (* Entry::or_insert: Occupied => entry.into_mut(), Vacant => entry.insert(default) *)
    match im_get k c with
    | None => (im_insert k (nv p) c, OItem (nv p))
    | Some i =>
      match kd with
      | KInline => (im_insert k (hack i) c, OItem (hack i))
      | _ => (c, OItem i)
      end
    end
  | MEins k p =>
    match im_get k c with
    | None => (im_insert k (nv p) c, OVac)
    | Some i => (im_insert k (nv p) c, OItem (match kd with KInline => hack i | _ => i end))
    end
  | MErm k =>
    match im_get k c with
    | None => (c, OVac)
    | Some i => (im_shift_remove k c, OItem (match kd with KInline => hack i | _ => i end))
    end
  | MGoi k p =>
    (* InlineTable::get_or_insert: `.entry(Key::new(key)).or_insert(Item::Value(value.into()))
       .as_value_mut().expect("non-value type in inline table")` *)
    match im_get k c with
    | None => (im_insert k (nv p) c, OItem (nv p))
    | Some i => (c, match as_value i with Some v => OItem v | None => OPanic end)
    end
  | MRet f =>
    (match kd with
     | KTable => im_retain (pred_eval f) c       (* Table::retain: `self.items.retain(|key, value| keep(key, value))` *)
     | _ => im_retain (fun k i => match as_value i with Some v => pred_eval f k v | None => false end) c
       (* InlineTable::retain: `item.as_value_mut().map(|value| keep(key, value)).unwrap_or(false)` *)
     end, OUnit)
  | MSort => (im_sort_by (fun a b => key_leb (fst a) (fst b)) c, OUnit)    (* `self.items.sort_keys()` *)
  | MSortBy cm => (im_sort_by (match kd with KTable => tcmp_le cm | _ => icmp_le cm end) c, OUnit)
  | MIdx k =>
    (* Index<&str> for Table / InlineTable: `self.get(key).expect("index not found")` *)
    (c, match t_get (match kd with KTable => KTable | _ => KInline end) k c with
        | Some i => OItem i
        | None => OPanic
        end)
  | MIdxM k =>
    (* IndexMut<&str> for Table: `self.entry(key).or_insert(Item::None)`;
       Index for str, index_mut on an inline table value:
       `t.items.entry(Key::new(self)).or_insert_with(|| Item::None)` *)
    match im_get k c with
    | Some i => (c, OItem i)
    | None => (im_insert k INone c, OItem INone)
    end
  | MISet k p => (im_insert k (nv p) c, OUnit)      (* `*index_mut(k) = item` *)
  | MIoi k p =>
    (* Item::or_insert on the slot handed out by index_mut: `if self.is_none() { *self = item }` *)
    match im_get k c with
    | Some i => if is_none i then (im_insert k (nv p) c, OItem (nv p)) else (c, OItem i)
    | None => (im_insert k (nv p) c, OItem (nv p))
    end
  | MExt l => (im_extend_p (map (fun kv => (fst kv, nv (snd kv))) l) c, OUnit)
  | MFrom l => (im_extend_p (map (fun kv => (fst kv, nv (snd kv))) l) [], OUnit)
  | MInto =>
    (c, OList (match kd with
               | KTable => visible c          (* IntoIterator for Table: `.filter(|(_, value)| !value.is_none())` *)
               | _ => only_values c           (* IntoIterator for InlineTable: `.filter(|(_, value)| value.is_value())` *)
               end))
  end.

Definition tstep (kd : mkind) (c : imap item) (o : mop) : imap item * out :=
  if negb (avail kd o) then (c, ONA) else tbody kd (prep kd o c) o.

Definition tobserve (kd : mkind) (ks : list bytes) (c : imap item) : obs :=
  mkObs (t_len c) (Nat.eqb (t_len c) 0) (t_iter kd c)
        (map (fun k => (k, t_get kd k c)) ks)
        (map (fun k => (k, t_ck kd k c)) ks)
        (t_values c).

(* ------------------------------------------------------------------------------------ *)
(** * toml::map::Map<String, Value> (map.rs): every method delegates to BTreeMap
      (default) or IndexMap (feature preserve_order) *)
Definition p_insert (kd : mkind) : bytes -> pay -> imap pay -> imap pay :=
  match kd with KMapSorted => bt_insert | _ => im_insert end.
Definition p_extend (kd : mkind) : list (bytes * pay) -> imap pay -> imap pay :=
  match kd with KMapSorted => bt_extend | _ => im_extend end.
Definition kitem (kv : bytes * pay) : bytes * item := (fst kv, IReal (snd kv)).

Definition pstep (kd : mkind) (c : imap pay) (o : mop) : imap pay * out :=
  if negb (avail kd o) then (c, ONA) else
  let g k := optmap IReal (im_get k c) in
  match o with
  | MIns k p => (p_insert kd k p c, OOpt (g k))                   (* Map::insert *)
  | MRm k => (im_shift_remove k c, OOpt (g k))                    (* Map::remove: BTreeMap::remove / shift_remove *)
  | MGet k | MGetM k => (c, OOpt (g k))
  | MGkv k => (c, OOptKV (optmap (pair k) (g k)))
  | MCk k => (c, OBool (is_some (im_get k c)))
  | MLen => (c, ONat (length c))
  | MEmp => (c, OBool (Nat.eqb (length c) 0))
  | MIter | MIterM | MInto => (c, OList (map kitem c))
  | MKeys => (c, OKeys (map fst c))
  | MVals => (c, OVals (map (fun kv => IReal (snd kv)) c))
  | MClr => ([], OUnit)
  | MEnt k => (c, match g k with Some i => OOcc i | None => OVac end)
  | MEoi k p =>
    match g k with
    | Some i => (c, OItem i)
    | None => (p_insert kd k p c, OItem (IReal p))
    end
  | MEins k p => (p_insert kd k p c, match g k with Some i => OItem i | None => OVac end)
  | MErm k =>
    match g k with
    | Some i => (im_shift_remove k c, OItem i)
    | None => (c, OVac)
    end
  | MRet f => (im_retain (fun k p => pred_eval f k (IReal p)) c, OUnit)
  | MIdx k => (c, match g k with Some i => OItem i | None => OPanic end)          (* `self.map.index(index)` *)
  | MIdxM k => (c, match g k with Some i => OItem i | None => OPanic end)         (* `.get_mut(index).expect("no entry found for key")` *)
  | MISet k p =>
    match im_get k c with
    | Some _ => (p_insert kd k p c, OUnit)
    | None => (c, OPanic)
    end
  | MExt l => (p_extend kd l c, OUnit)
  | MFrom l => (p_extend kd l [], OUnit)
  | _ => (c, ONA)
  end.

Definition pobserve (ks : list bytes) (c : imap pay) : obs :=
  mkObs (length c) (Nat.eqb (length c) 0) (map kitem c)
        (map (fun k => (k, optmap IReal (im_get k c))) ks)
        (map (fun k => (k, is_some (im_get k c))) ks)
        [].

(* ------------------------------------------------------------------------------------ *)
(** * Array (array.rs) and ArrayOfTables (array_of_tables.rs): `values: Vec<Item>`.
      Under the modelled calls every element is an `Item::Value` (resp. `Item::Table`), so the
      `filter_map(Item::as_value)` of iter/get is the identity and an element is its integer. *)

(* Vec::insert: panics if index > len *)
Fixpoint v_insert (i : nat) (x : Z) (v : list Z) : option (list Z) :=
  match i, v with
  | O, _ => Some (x :: v)
  | S _, [] => None
  | S i', y :: v' => optmap (cons y) (v_insert i' x v')
  end.
(* Vec::remove: panics if index >= len *)
Fixpoint v_remove (i : nat) (v : list Z) : option (Z * list Z) :=
  match v, i with
  | [], _ => None
  | y :: v', O => Some (y, v')
  | y :: v', S i' => optmap (fun r => (fst r, y :: snd r)) (v_remove i' v')
  end.
(* mem::replace(&mut self.values[index], ..): panics if index >= len *)
Fixpoint v_replace (i : nat) (x : Z) (v : list Z) : option (Z * list Z) :=
  match v, i with
  | [], _ => None
  | y :: v', O => Some (y, x :: v')
  | y :: v', S i' => optmap (fun r => (fst r, y :: snd r)) (v_replace i' x v')
  end.
(* slice::get *)
Fixpoint v_get (i : nat) (v : list Z) : option Z :=
  match v, i with
  | [], _ => None
  | y :: _, O => Some y
  | _ :: v', S i' => v_get i' v'
  end.
Fixpoint v_retain (f : Z -> bool) (v : list Z) : list Z :=
  match v with
  | [] => []
  | y :: v' => if f y then y :: v_retain f v' else v_retain f v'
  end.
(* slice::sort_by / sort_by_key: stable *)
Fixpoint v_ins_sorted (le : Z -> Z -> bool) (x : Z) (v : list Z) : list Z :=
  match v with
  | [] => [x]
  | y :: v' => if le x y then x :: y :: v' else y :: v_ins_sorted le x v'
  end.
Fixpoint v_sort_by (le : Z -> Z -> bool) (v : list Z) : list Z :=
  match v with
  | [] => []
  | x :: v' => v_ins_sorted le x (v_sort_by le v')
  end.
(* push, one element after the other *)
Fixpoint v_extend (l : list Z) (v : list Z) : list Z :=
  match l with
  | [] => v
  | x :: l' => v_extend l' (v ++ [x])
  end.

Definition vstep (kd : vkind) (c : list Z) (o : vop) : list Z * vout :=
  if negb (vavail kd o) then (c, VONA) else
  match o with
  | VPush z | VPushF z => (c ++ [z], VOUnit)
  | VIns i z | VInsF i z =>
    match v_insert i z c with Some c' => (c', VOUnit) | None => (c, VOPanic) end
  | VRep i z | VRepF i z =>
    (* Array::replace: `self.get(index).unwrap_or_else(|| panic!(..))`, then replace_formatted *)
    match v_replace i z c with Some (old, c') => (c', VOElem old) | None => (c, VOPanic) end
  | VRm i =>
    match v_remove i c with
    | Some (old, c') => (c', match kd with KArray => VOElem old | KAot => VOUnit end)
    | None => (c, VOPanic)
    end
  | VGet i | VGetM i | VIGet i => (c, VOOpt (v_get i c))
  | VLen => (c, VONat (length c))
  | VEmp => (c, VOBool (Nat.eqb (length c) 0))
  | VIter | VIterM | VInto => (c, VOList c)
  | VClr => ([], VOUnit)
  | VRet f => (v_retain (vpred_eval f) c, VOUnit)
  | VSortBy cm => (v_sort_by (vcmp_le cm) c, VOUnit)
  | VSortKey => (v_sort_by (fun a b => (a mod 3 <=? b mod 3)%Z) c, VOUnit)
  | VExt l => (v_extend l c, VOUnit)
  | VFrom l => (l, VOUnit)
  | VIdx i => (c, match v_get i c with Some x => VOElem x | None => VOPanic end)   (* `index.index(self).expect("index not found")` *)
  | VISet i z =>
    match v_replace i z c with Some (_, c') => (c', VOUnit) | None => (c, VOPanic) end
  end.

Fixpoint v_gets (n i : nat) (c : list Z) : list (nat * option Z) :=
  match n with
  | O => []
  | S n' => (i, v_get i c) :: v_gets n' (S i) c
  end.
Definition vobserve (c : list Z) : vobs :=
  mkVObs (length c) (Nat.eqb (length c) 0) c (v_gets (S (length c)) 0 c).
