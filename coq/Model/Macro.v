(* Model/Macro.v — crates/toml/src/macros.rs: the `toml!` / `toml_internal!` macros-by-example
   and the helper functions `insert_toml`, `insert_table_toml`, `push_toml`, `traverse`.

   Three layers:
   (1) Rust token trees as data (`tt`), the way rustc hands them to a macro_rules! macro.
   (2) The rule HEADS of `toml_internal!` as data (`rules`, in source order) and a matcher
       `match_pat` for the fragment of macro-by-example matching the heads use
       (`$x:tt`, `$x:ident`, literal tokens, delimited groups, `$(...) sep +` / `$(...)*`).
       First rule that matches wins (`first_match`).  rustc's matcher is an NFA that reports an
       error on a local ambiguity; for these heads there is none, because every repetition without
       separator is last in its delimited sequence and the separator of every separated
       repetition differs from the token that may follow it (`heads_deterministic`, checked by
       computation at the end of this file) — so greedy matching is the same thing.
       The rule BODIES are of two sorts: pure re-invocations `toml_internal!(...)` are data
       (`BInvoke` + the generic transcriber `transcribe`); the bodies with Rust code are named
       (`BInsert`, `BTabHeader`, ...) and given their meaning in `invoke`.
   (3) The helper functions on a plain value type `mval`.  `toml::Table` is `toml::map::Map`:
       a `BTreeMap` without the `preserve_order` feature, an `IndexMap` with it.  The model keeps
       an association list with IndexMap behaviour (a new key goes to the end, an existing key
       keeps its place); the BTreeMap is its key-sorted view (sorting happens in the observation,
       Extract/Cmd_c19.v).  None of the helpers depends on the order.

   Representation choices (each is an argued simplification, exercised by the correspondence
   run of lib/props/c19.py against the real macro compiled by rustc):
   * The state `[$($path)*]` of @toplevel holds, in the source, one Rust expression
     `&concat!("-", a, "-", b)[1..],` per path segment.  The model evaluates such an expression
     to its string as soon as it is built and keeps ONE string-literal token per segment
     (`concat!`/`stringify!` are pure, compile-time).  `[$($path:tt)*]` matches either form.
   * `$root:ident` names the Rust variable being mutated (`root`, `table`, `array`); every
     invocation chain mutates exactly one variable, whose value is the `cur` argument of `invoke`.
   * rustc facts used: an unsuffixed integer literal handed to `IntoDeserializer::into_deserializer`
     is typed `i32` (inference fallback); a positive literal out of range is a compile error
     (deny-by-default lint `overflowing_literals`, reported at the user's token).  A NEGATED
     literal `(-$v)` goes through `macros::number(-$v)` and is an i64 (see `neg_lit_value`).
     `concat!` prints an integer literal by VALUE (`05` gives "5") and a float literal by its
     symbol.  `stringify!` gives the source text of a token.
   * A float literal denotes the exact decimal it spells (Model/Numbers.v `fdec_of_text`); the
     rounding to f64 is rustc's / std's (DESIGN.md 4.4), the same on both sides. *)
From TV Require Import Base.Prelude Base.Utf8 Gen.Consts Model.Datetime Model.DatetimeStd Model.Numbers.
Require Import String Ascii.

Definition s2b (s : string) : bytes := List.map byte_of_ascii (list_ascii_of_string s).

(* ------------------------------------------------------------------------------------------ *)
(* (1) token trees                                                                            *)
(* ------------------------------------------------------------------------------------------ *)
Inductive delim : Set := DParen | DBracket | DBrace.
Scheme Equality for delim.

(* literal tokens: numbers keep their source text (including any suffix, as in `27T07`, `00Z`);
   a string literal is kept by its value (the text after rustc's unescaping) *)
Inductive lit : Set := LInt (text : bytes) | LFloat (text : bytes) | LStr (cooked : bytes).

(* `true` / `false` are identifier tokens for a macro *)
Inductive tt : Set :=
| TIdent (s : bytes)
| TLit (l : lit)
| TPunct (c : byte)
| TGroup (d : delim) (ts : list tt).

(* ------------------------------------------------------------------------------------------ *)
(* (2a) macro-by-example patterns, templates, matcher, transcriber                            *)
(* ------------------------------------------------------------------------------------------ *)
Inductive var : Set :=
| Vroot | Vpath | Vk | Vv | Vrest | Voldpath | Vdatetime | Vident | Vquoted | Vinline | Vargs
| Vlast | Vfirst | Vyr | Vmo | Vdhr | Vday | Vhr | Vmin | Vsec | Vfrac | Vtzh | Vtzm.
Scheme Equality for var.

Inductive frag : Set := FTt | FIdent.

Inductive pat : Set :=
| PIdent (s : bytes)                                   (* a literal identifier token *)
| PPunct (c : byte)                                    (* a literal punctuation token *)
| PVar (x : var) (f : frag)                            (* $x:tt, $x:ident *)
| PGroup (d : delim) (ps : list pat)                   (* ( ... ) [ ... ] { ... } *)
| PRep (ps : list pat) (sep : option byte) (plus : bool).   (* $( ... ) sep +   or   $( ... ) sep * *)

Inductive tpl : Set :=
| QIdent (s : bytes)
| QPunct (c : byte)
| QVar (x : var)
| QGroup (d : delim) (qs : list tpl)
| QRep (qs : list tpl) (sep : option byte).

(* what a variable is bound to: a token tree, or one binding per iteration of a repetition *)
Inductive bnd : Set := BTT (t : tt) | BSeq (l : list bnd).
Definition env := list (var * bnd).

Fixpoint lookup (x : var) (e : env) : option bnd :=
  match e with
  | [] => None
  | (y, b) :: tl => if var_beq x y then Some b else lookup x tl
  end.

Definition mres := option (env * list tt).

Section SeqMatch.
  Variable m : pat -> list tt -> mres.
  Fixpoint seq_match (ps : list pat) (ts : list tt) : mres :=
    match ps with
    | [] => Some ([], ts)
    | p :: ps' =>
      match m p ts with
      | Some (e1, r) =>
        match seq_match ps' r with
        | Some (e2, r2) => Some (e1 ++ e2, r2)
        | None => None
        end
      | None => None
      end
    end.
End SeqMatch.

(* one or more iterations of a repetition body, greedily.  With a separator: after an iteration,
   continue iff the next token is the separator (then the body MUST match again).  Without:
   continue while the body matches. *)
Fixpoint rep_loop (body : list tt -> mres) (sep : option byte) (fuel : nat) (ts : list tt)
  : option (list env * list tt) :=
  match fuel with
  | O => None
  | S f =>
    match body ts with
    | None => None
    | Some (e, r) =>
      match sep with
      | Some c =>
        match r with
        | TPunct c' :: r' =>
          if byte_eqb c c'
          then match rep_loop body sep f r' with
               | Some (es, r2) => Some (e :: es, r2)
               | None => None
               end
          else Some ([e], r)
        | _ => Some ([e], r)
        end
      | None =>
        match rep_loop body sep f r with
        | Some (es, r2) => Some (e :: es, r2)
        | None => Some ([e], r)
        end
      end
    end
  end.

Fixpoint pat_vars (p : pat) : list var :=
  match p with
  | PVar x _ => [x]
  | PGroup _ ps => flat_map pat_vars ps
  | PRep ps _ _ => flat_map pat_vars ps
  | _ => []
  end.

(* the bindings of a repetition: each variable of the body is bound to the sequence of its
   per-iteration bindings *)
Definition rep_env (vars : list var) (its : list env) : env :=
  List.map (fun x => (x, BSeq (List.map (fun e => match lookup x e with Some b => b | None => BSeq [] end) its))) vars.

(* `$x:ident` matches any identifier or keyword except `_` *)
Definition ident_frag_ok (s : bytes) : bool := negb (bytes_eqb s [x5f]).

Fixpoint match_pat (p : pat) (ts : list tt) {struct p} : mres :=
  match p with
  | PIdent s =>
    match ts with
    | TIdent s' :: r => if bytes_eqb s s' then Some ([], r) else None
    | _ => None
    end
  | PPunct c =>
    match ts with
    | TPunct c' :: r => if byte_eqb c c' then Some ([], r) else None
    | _ => None
    end
  | PVar x FTt =>
    match ts with
    | t :: r => Some ([(x, BTT t)], r)
    | [] => None
    end
  | PVar x FIdent =>
    match ts with
    | TIdent s :: r => if ident_frag_ok s then Some ([(x, BTT (TIdent s))], r) else None
    | _ => None
    end
  | PGroup d ps =>
    match ts with
    | TGroup d' inner :: r =>
      if delim_beq d d'
      then match seq_match match_pat ps inner with
           | Some (e, []) => Some (e, r)
           | _ => None
           end
      else None
    | _ => None
    end
  | PRep ps sep plus =>
    match seq_match match_pat ps ts with
    | None => if plus then None else Some (rep_env (flat_map pat_vars ps) [], ts)
    | Some _ =>
      match rep_loop (seq_match match_pat ps) sep (S (List.length ts)) ts with
      | Some (its, r) => Some (rep_env (flat_map pat_vars ps) its, r)
      | None => None
      end
    end
  end.

Definition match_seq : list pat -> list tt -> mres := seq_match match_pat.

(* ---- transcription ---- *)
Fixpoint tpl_vars (q : tpl) : list var :=
  match q with
  | QVar x => [x]
  | QGroup _ qs => flat_map tpl_vars qs
  | QRep qs _ => flat_map tpl_vars qs
  | _ => []
  end.

Definition var_mem (x : var) (l : list var) : bool := existsb (var_beq x) l.

(* number of iterations: the length of the first sequence-bound variable among vars *)
Fixpoint rep_len (vars : list var) (e : env) : option nat :=
  match vars with
  | [] => None
  | x :: tl => match lookup x e with Some (BSeq l) => Some (List.length l) | _ => rep_len tl e end
  end.

(* the environment of iteration i: every sequence-bound variable of vars stands for its i-th part *)
Definition env_nth (vars : list var) (e : env) (i : nat) : env :=
  List.map (fun xb => match xb with
                      | (x, BSeq l) => if var_mem x vars then (x, nth i l (BSeq [])) else xb
                      | _ => xb
                      end) e.

Fixpoint join_tts (sep : option byte) (l : list (list tt)) : list tt :=
  match l with
  | [] => []
  | [x] => x
  | x :: tl => x ++ (match sep with Some c => [TPunct c] | None => [] end) ++ join_tts sep tl
  end.

Fixpoint transcribe (q : tpl) (e : env) {struct q} : list tt :=
  match q with
  | QIdent s => [TIdent s]
  | QPunct c => [TPunct c]
  | QVar x => match lookup x e with Some (BTT t) => [t] | _ => [] end
  | QGroup d qs => [TGroup d (flat_map (fun q' => transcribe q' e) qs)]
  | QRep qs sep =>
    let vars := flat_map tpl_vars qs in
    match rep_len vars e with
    | Some n => join_tts sep (List.map (fun i => flat_map (fun q' => transcribe q' (env_nth vars e i)) qs) (seq 0 n))
    | None => []
    end
  end.
Definition transcribe_seq (qs : list tpl) (e : env) : list tt := flat_map (fun q => transcribe q e) qs.

(* ------------------------------------------------------------------------------------------ *)
(* (2b) the rules of toml_internal!, in source order                                          *)
(* ------------------------------------------------------------------------------------------ *)
(* the Rust-code bodies, by what they do *)
Inductive body : Set :=
| BNothing                                  (* {} *)
| BInvoke (q : list tpl)                    (* $crate::toml_internal!( q ); *)
| BInsert (top : bool) (next : list tpl)    (* insert_toml(&mut $root, &[($path)* keys..], toml_internal!(@value $v)); toml_internal!(next) *)
| BInsertDt (top : bool) (next : list tpl)  (* insert_toml(.., Value::Datetime(concat!($(stringify!($datetime)),+).parse().unwrap())); toml_internal!(next) *)
| BArrHeader                                (* push_toml(&mut $root, &[keys..]); then @toplevel $root [keys..] rest *)
| BTabHeader                                (* insert_table_toml(&mut $root, &[keys..]); then @toplevel $root [keys..] rest *)
| BArrPush (next : list tpl)                (* $root.push(toml_internal!(@value $v)); toml_internal!(next) *)
| BArrPushDt (next : list tpl)              (* $root.push(Value::Datetime(concat!(..).parse().unwrap())); toml_internal!(next) *)
| BPathIdent                                (* stringify!($ident) *)
| BPathQuoted                               (* $quoted *)
| BValTable (q : list tpl)                  (* { let mut table = Value::Table(Table::new()); toml_internal!(q); table } *)
| BValArray (q : list tpl)                  (* { let mut array = Array::new(); toml_internal!(q); Value::Array(array) } *)
| BValConst (f : fval)                      (* Value::Float(NAN.copysign(..)) / INFINITY / NEG_INFINITY *)
| BValNeg                                   (* $crate::macros::number(-$v) *)
| BValOther.                                (* <Value as Deserialize>::deserialize(into_deserializer($v)).unwrap() *)

Record rule : Set := mkRule { r_head : list pat; r_body : body }.

Definition c_at : byte := x40.      (* @ *)
Definition c_eq : byte := x3d.      (* = *)
Definition c_minus : byte := x2d.   (* - *)
Definition c_plus : byte := x2b.    (* + *)
Definition c_dot : byte := x2e.     (* . *)
Definition c_colon : byte := x3a.   (* : *)
Definition c_comma : byte := x2c.   (* , *)

Definition id_toplevel := s2b "toplevel".
Definition id_topleveldatetime := s2b "topleveldatetime".
Definition id_path := s2b "path".
Definition id_value := s2b "value".
Definition id_table := s2b "table".
Definition id_tabledatetime := s2b "tabledatetime".
Definition id_array := s2b "array".
Definition id_arraydatetime := s2b "arraydatetime".
Definition id_trailingcomma := s2b "trailingcomma".
Definition id_root := s2b "root".
Definition id_nan := s2b "nan".
Definition id_inf := s2b "inf".
Definition id_T := s2b "T".
Definition id_true := s2b "true".
Definition id_false := s2b "false".

Definition V (x : var) : pat := PVar x FTt.
Definition P (c : byte) : pat := PPunct c.
Definition Q (c : byte) : tpl := QPunct c.
Definition pstate (s : bytes) : list pat := [PPunct c_at; PIdent s].
Definition qstate (s : bytes) : list tpl := [QPunct c_at; QIdent s].

(* $($($k:tt)-+).+   and its transcription   $($($k)-+).+ *)
Definition keyP (x : var) : pat := PRep [PRep [V x] (Some c_minus) true] (Some c_dot) true.
Definition keyQ (x : var) : tpl := QRep [QRep [QVar x] (Some c_minus)] (Some c_dot).
Definition starP (x : var) : pat := PRep [V x] None false.     (* $($x:tt)* *)
Definition plusP (x : var) : pat := PRep [V x] None true.      (* $($x:tt)+ *)
Definition starQ (x : var) : tpl := QRep [QVar x] None.        (* $($x)* / $($x)+ *)
Definition pathG : pat := PGroup DBracket [starP Vpath].       (* [$($path:tt)*] *)
Definition pathQ : tpl := QGroup DBracket [starQ Vpath].       (* [$($path)*] *)
Definition rootP : pat := PVar Vroot FIdent.                   (* $root:ident *)

(* the eleven date-time shapes, in the order in which @toplevel, @table and @array list them:
   (pattern of the value tokens, the parenthesised tokens handed to @...datetime) *)
Definition dt_shapes : list (list pat * list tpl) :=
  [ (* 1979-05-27T00:32:00.999999-07:00 *)
    ([V Vyr; P c_minus; V Vmo; P c_minus; V Vdhr; P c_colon; V Vmin; P c_colon; V Vsec; P c_dot; V Vfrac; P c_minus; V Vtzh; P c_colon; V Vtzm],
     [QVar Vyr; Q c_minus; QVar Vmo; Q c_minus; QVar Vdhr; Q c_colon; QVar Vmin; Q c_colon; QVar Vsec; Q c_dot; QVar Vfrac; Q c_minus; QVar Vtzh; Q c_colon; QVar Vtzm]);
    (* space instead of T *)
    ([V Vyr; P c_minus; V Vmo; P c_minus; V Vday; V Vhr; P c_colon; V Vmin; P c_colon; V Vsec; P c_dot; V Vfrac; P c_minus; V Vtzh; P c_colon; V Vtzm],
     [QVar Vyr; Q c_minus; QVar Vmo; Q c_minus; QVar Vday; QIdent id_T; QVar Vhr; Q c_colon; QVar Vmin; Q c_colon; QVar Vsec; Q c_dot; QVar Vfrac; Q c_minus; QVar Vtzh; Q c_colon; QVar Vtzm]);
    (* 1979-05-27T00:32:00-07:00 *)
    ([V Vyr; P c_minus; V Vmo; P c_minus; V Vdhr; P c_colon; V Vmin; P c_colon; V Vsec; P c_minus; V Vtzh; P c_colon; V Vtzm],
     [QVar Vyr; Q c_minus; QVar Vmo; Q c_minus; QVar Vdhr; Q c_colon; QVar Vmin; Q c_colon; QVar Vsec; Q c_minus; QVar Vtzh; Q c_colon; QVar Vtzm]);
    ([V Vyr; P c_minus; V Vmo; P c_minus; V Vday; V Vhr; P c_colon; V Vmin; P c_colon; V Vsec; P c_minus; V Vtzh; P c_colon; V Vtzm],
     [QVar Vyr; Q c_minus; QVar Vmo; Q c_minus; QVar Vday; QIdent id_T; QVar Vhr; Q c_colon; QVar Vmin; Q c_colon; QVar Vsec; Q c_minus; QVar Vtzh; Q c_colon; QVar Vtzm]);
    (* 1979-05-27T00:32:00.999999 *)
    ([V Vyr; P c_minus; V Vmo; P c_minus; V Vdhr; P c_colon; V Vmin; P c_colon; V Vsec; P c_dot; V Vfrac],
     [QVar Vyr; Q c_minus; QVar Vmo; Q c_minus; QVar Vdhr; Q c_colon; QVar Vmin; Q c_colon; QVar Vsec; Q c_dot; QVar Vfrac]);
    ([V Vyr; P c_minus; V Vmo; P c_minus; V Vday; V Vhr; P c_colon; V Vmin; P c_colon; V Vsec; P c_dot; V Vfrac],
     [QVar Vyr; Q c_minus; QVar Vmo; Q c_minus; QVar Vday; QIdent id_T; QVar Vhr; Q c_colon; QVar Vmin; Q c_colon; QVar Vsec; Q c_dot; QVar Vfrac]);
    (* 1979-05-27T07:32:00Z and 1979-05-27T07:32:00 *)
    ([V Vyr; P c_minus; V Vmo; P c_minus; V Vdhr; P c_colon; V Vmin; P c_colon; V Vsec],
     [QVar Vyr; Q c_minus; QVar Vmo; Q c_minus; QVar Vdhr; Q c_colon; QVar Vmin; Q c_colon; QVar Vsec]);
    ([V Vyr; P c_minus; V Vmo; P c_minus; V Vday; V Vhr; P c_colon; V Vmin; P c_colon; V Vsec],
     [QVar Vyr; Q c_minus; QVar Vmo; Q c_minus; QVar Vday; QIdent id_T; QVar Vhr; Q c_colon; QVar Vmin; Q c_colon; QVar Vsec]);
    (* 1979-05-27 *)
    ([V Vyr; P c_minus; V Vmo; P c_minus; V Vday],
     [QVar Vyr; Q c_minus; QVar Vmo; Q c_minus; QVar Vday]);
    (* 00:32:00.999999 *)
    ([V Vhr; P c_colon; V Vmin; P c_colon; V Vsec; P c_dot; V Vfrac],
     [QVar Vhr; Q c_colon; QVar Vmin; Q c_colon; QVar Vsec; Q c_dot; QVar Vfrac]);
    (* 07:32:00 *)
    ([V Vhr; P c_colon; V Vmin; P c_colon; V Vsec],
     [QVar Vhr; Q c_colon; QVar Vmin; Q c_colon; QVar Vsec]) ].

(* ---- @toplevel ---- *)
Definition top_prefix : list pat := pstate id_toplevel ++ [rootP; pathG].
Definition top_kv (tail : list pat) : list pat := top_prefix ++ [keyP Vk; P c_eq] ++ tail ++ [starP Vrest].
Definition top_next : list tpl := qstate id_toplevel ++ [QVar Vroot; pathQ; starQ Vrest].
Definition top_again (v : list tpl) : list tpl :=
  qstate id_toplevel ++ [QVar Vroot; pathQ; keyQ Vk; Q c_eq] ++ v ++ [starQ Vrest].
Definition top_dt (q : list tpl) : list tpl :=
  qstate id_topleveldatetime ++ [QVar Vroot; pathQ; keyQ Vk; Q c_eq; QGroup DParen q; starQ Vrest].

Definition rules_toplevel : list rule :=
  [ mkRule top_prefix BNothing;
    mkRule (top_kv [P c_minus; V Vv]) (BInvoke (top_again [QGroup DParen [Q c_minus; QVar Vv]]));
    mkRule (top_kv [P c_plus; V Vv]) (BInvoke (top_again [QGroup DParen [QVar Vv]])) ]
  ++ List.map (fun s => mkRule (top_kv (fst s)) (BInvoke (top_dt (snd s)))) dt_shapes
  ++ [ mkRule (top_kv [V Vv]) (BInsert true top_next);
       mkRule (pstate id_toplevel ++ [rootP; V Voldpath; PGroup DBracket [PGroup DBracket [keyP Vpath]]; starP Vrest]) BArrHeader;
       mkRule (pstate id_toplevel ++ [rootP; V Voldpath; PGroup DBracket [keyP Vpath]; starP Vrest]) BTabHeader;
       mkRule (pstate id_topleveldatetime ++ [rootP; pathG; keyP Vk; P c_eq; PGroup DParen [plusP Vdatetime]; starP Vrest])
              (BInsertDt true top_next) ].

(* ---- @path, @value ---- *)
Definition q_table_inline : list tpl :=
  qstate id_trailingcomma ++ [QGroup DParen (qstate id_table ++ [QIdent id_table]); starQ Vinline].
Definition q_array_inline : list tpl :=
  qstate id_trailingcomma ++ [QGroup DParen (qstate id_array ++ [QIdent id_array]); starQ Vinline].

Definition rules_path_value : list rule :=
  [ mkRule (pstate id_path ++ [PVar Vident FIdent]) BPathIdent;
    mkRule (pstate id_path ++ [V Vquoted]) BPathQuoted;
    mkRule (pstate id_value ++ [PGroup DBrace [starP Vinline]]) (BValTable q_table_inline);
    mkRule (pstate id_value ++ [PGroup DBracket [starP Vinline]]) (BValArray q_array_inline);
    mkRule (pstate id_value ++ [PGroup DParen [P c_minus; PIdent id_nan]]) (BValConst (FNan true));
    mkRule (pstate id_value ++ [PGroup DParen [PIdent id_nan]]) (BValConst (FNan false));
    mkRule (pstate id_value ++ [PIdent id_nan]) (BValConst (FNan false));
    mkRule (pstate id_value ++ [PGroup DParen [P c_minus; PIdent id_inf]]) (BValConst (FInf true));
    mkRule (pstate id_value ++ [PGroup DParen [PIdent id_inf]]) (BValConst (FInf false));
    mkRule (pstate id_value ++ [PIdent id_inf]) (BValConst (FInf false));
    mkRule (pstate id_value ++ [PGroup DParen [P c_minus; V Vv]]) BValNeg;
    mkRule (pstate id_value ++ [V Vv]) BValOther ].

(* ---- @table ---- *)
Definition tab_kv (tail : list pat) : list pat :=
  pstate id_table ++ [rootP; keyP Vk; P c_eq] ++ tail ++ [P c_comma; starP Vrest].
Definition tab_next : list tpl := qstate id_table ++ [QVar Vroot; starQ Vrest].
Definition tab_again (v : list tpl) : list tpl :=
  qstate id_table ++ [QVar Vroot; keyQ Vk; Q c_eq] ++ v ++ [Q c_comma; starQ Vrest].
Definition tab_dt (q : list tpl) : list tpl :=
  qstate id_tabledatetime ++ [QVar Vroot; keyQ Vk; Q c_eq; QGroup DParen q; starQ Vrest].

Definition rules_table : list rule :=
  [ mkRule (pstate id_table ++ [rootP]) BNothing;
    mkRule (tab_kv [P c_minus; V Vv]) (BInvoke (tab_again [QGroup DParen [Q c_minus; QVar Vv]]));
    mkRule (tab_kv [P c_plus; V Vv]) (BInvoke (tab_again [QGroup DParen [QVar Vv]])) ]
  ++ List.map (fun s => mkRule (tab_kv (fst s)) (BInvoke (tab_dt (snd s)))) dt_shapes
  ++ [ mkRule (tab_kv [V Vv]) (BInsert false tab_next);
       mkRule (pstate id_tabledatetime ++ [rootP; keyP Vk; P c_eq; PGroup DParen [starP Vdatetime]; starP Vrest])
              (BInsertDt false tab_next) ].

(* ---- @array ---- *)
Definition arr_el (tail : list pat) : list pat :=
  pstate id_array ++ [rootP] ++ tail ++ [P c_comma; starP Vrest].
Definition arr_next : list tpl := qstate id_array ++ [QVar Vroot; starQ Vrest].
Definition arr_again (v : list tpl) : list tpl :=
  qstate id_array ++ [QVar Vroot] ++ v ++ [Q c_comma; starQ Vrest].
Definition arr_dt (q : list tpl) : list tpl :=
  qstate id_arraydatetime ++ [QVar Vroot; QGroup DParen q; starQ Vrest].

Definition rules_array : list rule :=
  [ mkRule (pstate id_array ++ [rootP]) BNothing;
    mkRule (arr_el [P c_minus; V Vv]) (BInvoke (arr_again [QGroup DParen [Q c_minus; QVar Vv]]));
    mkRule (arr_el [P c_plus; V Vv]) (BInvoke (arr_again [QGroup DParen [QVar Vv]])) ]
  ++ List.map (fun s => mkRule (arr_el (fst s)) (BInvoke (arr_dt (snd s)))) dt_shapes
  ++ [ mkRule (arr_el [V Vv]) (BArrPush arr_next);
       mkRule (pstate id_arraydatetime ++ [rootP; PGroup DParen [starP Vdatetime]; starP Vrest]) (BArrPushDt arr_next) ].

(* ---- @trailingcomma ---- *)
Definition argsG : pat := PGroup DParen [starP Vargs].
Definition rules_trailingcomma : list rule :=
  [ mkRule (pstate id_trailingcomma ++ [argsG]) (BInvoke [starQ Vargs]);
    mkRule (pstate id_trailingcomma ++ [argsG; P c_comma]) (BInvoke [starQ Vargs; Q c_comma]);
    mkRule (pstate id_trailingcomma ++ [argsG; V Vlast]) (BInvoke [starQ Vargs; QVar Vlast; Q c_comma]);
    mkRule (pstate id_trailingcomma ++ [argsG; V Vfirst; plusP Vrest])
           (BInvoke (qstate id_trailingcomma ++ [QGroup DParen [starQ Vargs; QVar Vfirst]; starQ Vrest])) ].

Definition rules : list rule :=
  rules_toplevel ++ rules_path_value ++ rules_table ++ rules_array ++ rules_trailingcomma.

Definition match_rule (r : rule) (input : list tt) : option env :=
  match match_seq (r_head r) input with
  | Some (e, []) => Some e
  | _ => None
  end.

(* first rule that matches wins *)
Fixpoint first_match (rs : list rule) (input : list tt) : option (body * env) :=
  match rs with
  | [] => None
  | r :: rs' =>
    match match_rule r input with
    | Some e => Some (r_body r, e)
    | None => first_match rs' input
    end
  end.

(* ------------------------------------------------------------------------------------------ *)
(* (3) the helper functions on plain values                                                   *)
(* ------------------------------------------------------------------------------------------ *)
Inductive mval : Set :=
| MStr (s : bytes)
| MInt (z : Z)
| MFloat (f : fval)
| MBool (b : bool)
| MDatetime (d : datetime)
| MArr (l : list mval)
| MTab (l : list (bytes * mval)).

Definition mtab := list (bytes * mval).

(* Map::get / contains_key *)
Fixpoint mget (k : bytes) (l : mtab) : option mval :=
  match l with
  | [] => None
  | (k', v) :: tl => if bytes_eqb k' k then Some v else mget k tl
  end.
(* Map::insert, and assignment through get_mut *)
Fixpoint mput (k : bytes) (v : mval) (l : mtab) : mtab :=
  match l with
  | [] => [(k, v)]
  | (k', v') :: tl => if bytes_eqb k' k then (k', v) :: tl else (k', v') :: mput k v tl
  end.

Definition is_table (v : mval) : bool := match v with MTab _ => true | _ => false end.
Definition is_array (v : mval) : bool := match v with MArr _ => true | _ => false end.

(* macros.rs: traverse, fused with the use the three callers make of the returned `&mut Value`:
   `slot_update path f root` is the root after `let slot = traverse(root, path); let old = slot.clone(); *slot = f(old)`.
   None = a panic (`last_mut().unwrap()` on an empty array). *)
Fixpoint slot_update (path : list bytes) (f : mval -> mval) (cur : mval) {struct path} : option mval :=
  match path with
  | [] => Some (f cur)
  | key :: p =>
    (* cur2: the value we index into, already coerced to a table (`if !cur2.is_table() { *cur2 = Table::new() }`) *)
    let into (cur2 : mval) : option mval :=
        let entries := match cur2 with MTab l => l | _ => [] end in
        (* `if !contains_key(key) { insert(key, empty table) }`, then step into get_mut(key) *)
        let child := match mget key entries with Some c => c | None => MTab [] end in
        match slot_update p f child with
        | Some c' => Some (MTab (mput key c' entries))
        | None => None
        end in
    match cur with
    | MArr l =>
      (* `if cur1.is_array() { cur1.as_array_mut().unwrap().last_mut().unwrap() }` *)
      match rev l with
      | [] => None
      | lastv :: before =>
        match into lastv with
        | Some v' => Some (MArr (rev before ++ [v']))
        | None => None
        end
      end
    | _ => into cur
    end
  end.

(* macros.rs: insert_toml *)
Definition insert_toml (root : mval) (path : list bytes) (v : mval) : option mval :=
  slot_update path (fun _ => v) root.
(* macros.rs: insert_table_toml (as repaired: an existing table is kept) *)
Definition insert_table_toml (root : mval) (path : list bytes) : option mval :=
  slot_update path (fun t => if is_table t then t else MTab []) root.
(* macros.rs: push_toml *)
Definition push_toml (root : mval) (path : list bytes) : option mval :=
  slot_update path (fun t => MArr ((match t with MArr l => l | _ => [] end) ++ [MTab []])) root.

(* ------------------------------------------------------------------------------------------ *)
(* rustc facts: literals, stringify!, concat!                                                 *)
(* ------------------------------------------------------------------------------------------ *)
Definition int_prefix (s : bytes) : N * bytes :=
  match s with
  | x30 :: x78 :: r => (16%N, r)
  | x30 :: x6f :: r => (8%N, r)
  | x30 :: x62 :: r => (2%N, r)
  | _ => (10%N, s)
  end.
(* digits and underscores; what follows the last of them is the literal's suffix *)
Fixpoint int_scan (base : N) (acc : N) (seen : bool) (s : bytes) : N * bool * bytes :=
  match s with
  | [] => (acc, seen, [])
  | b :: r =>
    if byte_eqb b x5f then int_scan base acc seen r
    else match radix_digit base b with
         | Some d => int_scan base (acc * base + d)%N true r
         | None => (acc, seen, s)
         end
  end.
(* value and suffix of an integer literal token *)
Definition rust_int_lit (s : bytes) : option (N * bytes) :=
  let '(base, body) := int_prefix s in
  let '(v, seen, suf) := int_scan base 0%N false body in
  if seen then Some (v, suf) else None.

Definition i32_max : Z := 2147483647%Z.
Definition wrap_i32 (z : Z) : Z := ((z + 2147483648) mod 4294967296 - 2147483648)%Z.

(* stringify!($t) for a single token tree (groups are printed with their delimiters; no
   date-time text contains one) *)
Definition open_of (d : delim) : byte := match d with DParen => x28 | DBracket => x5b | DBrace => x7b end.
Definition close_of (d : delim) : byte := match d with DParen => x29 | DBracket => x5d | DBrace => x7d end.
Fixpoint tt_stringify (t : tt) : bytes :=
  match t with
  | TIdent s => s
  | TLit (LInt s) => s
  | TLit (LFloat s) => s
  | TLit (LStr s) => [x22] ++ s ++ [x22]
  | TPunct c => [c]
  | TGroup d ts => [open_of d] ++ flat_map tt_stringify ts ++ [close_of d]
  end.

(* one literal argument of concat!(): strings by value, integers by VALUE, floats by symbol *)
Definition concat_piece (t : tt) : option bytes :=
  match t with
  | TLit (LStr s) => Some s
  | TLit (LInt s) => match rust_int_lit s with Some (v, []) => Some (dec_digits v) | _ => None end
  | TLit (LFloat s) => Some s
  | TIdent s => if bytes_eqb s id_true || bytes_eqb s id_false then Some s else None
  | _ => None
  end.

(* ------------------------------------------------------------------------------------------ *)
(* evaluation of an invocation                                                                *)
(* ------------------------------------------------------------------------------------------ *)
Inductive eres (A : Type) : Type :=
| EOk (a : A)
| ENoRule        (* "no rules expected the token ..." : a compile error *)
| ECompile       (* the expansion is rejected by rustc (type error, lint, bad literal) *)
| EPanic         (* the expansion compiles and panics when run *)
| EStuck         (* outside the fragment of Rust this model gives a meaning to *)
| EFuel.         (* the model's fuel ran out (excluded by the theorems) *)
Arguments EOk {A}. Arguments ENoRule {A}. Arguments ECompile {A}. Arguments EPanic {A}.
Arguments EStuck {A}. Arguments EFuel {A}.

Definition ebind {A B} (r : eres A) (f : A -> eres B) : eres B :=
  match r with
  | EOk a => f a
  | ENoRule => ENoRule | ECompile => ECompile | EPanic => EPanic | EStuck => EStuck | EFuel => EFuel
  end.
Notation "x <== r ;; k" := (ebind r (fun x => k)) (at level 61, r at next level, right associativity).

Fixpoint emap {A B} (f : A -> eres B) (l : list A) : eres (list B) :=
  match l with
  | [] => EOk []
  | a :: tl => b <== f a ;; bs <== emap f tl ;; EOk (b :: bs)
  end.

Definition env_tt (x : var) (e : env) : eres tt :=
  match lookup x e with Some (BTT t) => EOk t | _ => EStuck end.
Definition bnd_tts (b : bnd) : list tt :=
  match b with
  | BTT t => [t]
  | BSeq l => flat_map (fun b' => match b' with BTT t => [t] | BSeq _ => [] end) l
  end.
Definition env_tts (x : var) (e : env) : list tt :=
  match lookup x e with Some b => bnd_tts b | None => [] end.
(* a doubly repeated variable: one token list per outer iteration *)
Definition env_segs (x : var) (e : env) : list (list tt) :=
  match lookup x e with
  | Some (BSeq segs) => List.map bnd_tts segs
  | _ => []
  end.

(* toml_internal!(@path $k) : a &str expression *)
Definition path_str (k : tt) : eres bytes :=
  match first_match rules ([TPunct c_at; TIdent id_path; k]) with
  | Some (BPathIdent, e) => t <== env_tt Vident e ;; EOk (tt_stringify t)
  | Some (BPathQuoted, e) =>
    t <== env_tt Vquoted e ;;
    match concat_piece t with Some s => EOk s | None => ECompile end
  | Some _ => EStuck
  | None => ENoRule
  end.

Fixpoint join_bytes (sep : bytes) (l : list bytes) : bytes :=
  match l with
  | [] => []
  | [x] => x
  | x :: tl => x ++ sep ++ join_bytes sep tl
  end.

(* &concat!($("-", toml_internal!(@path $k),)+)[1..] *)
Definition seg_str (ks : list tt) : eres bytes :=
  ss <== emap path_str ks ;; EOk (join_bytes [c_minus] ss).
Definition key_strs (segs : list (list tt)) : eres (list bytes) := emap seg_str segs.

(* the already evaluated path expressions kept in [$($path)*] *)
Definition path_tok (s : bytes) : tt := TLit (LStr s).
Definition path_strs (ts : list tt) : eres (list bytes) :=
  emap (fun t => match t with TLit (LStr s) => EOk s | _ => EStuck end) ts.

(* Value::Datetime(concat!($(stringify!($datetime)),+).parse().unwrap()) *)
Definition datetime_value (ts : list tt) : eres mval :=
  match ts with
  | [] => ECompile
  | _ => match std_from_str (flat_map tt_stringify ts) with
         | Some d => EOk (MDatetime d)
         | None => EPanic
         end
  end.

(* the decimal float literal `s` (no suffix) as an f64 *)
Definition float_lit_value (neg : bool) (s : bytes) : eres mval :=
  match fdec_of_text (remove_us s) with
  | FDec _ m e => if overflows m e then ECompile else EOk (MFloat (FDec neg m e))
  | _ => EStuck
  end.

(* <Value as Deserialize>::deserialize(IntoDeserializer::into_deserializer($v)).unwrap()
   for the expressions the macro can put there: a literal, `true`/`false`, `(lit)`, `(-lit)` *)
Definition lit_value (neg : bool) (l : lit) : eres mval :=
  match l with
  | LStr s => if neg then ECompile else EOk (MStr s)
  | LInt s =>
    match rust_int_lit s with
    | Some (v, []) =>
      if neg then EOk (MInt (wrap_i32 (- Z.of_N v)))
      else if (Z.of_N v <=? i32_max)%Z then EOk (MInt (Z.of_N v)) else ECompile
    | _ => ECompile
    end
  | LFloat s => float_lit_value neg s
  end.
Definition rust_expr_value (v : tt) : eres mval :=
  match v with
  | TLit l => lit_value false l
  | TIdent s => if bytes_eqb s id_true then EOk (MBool true)
                else if bytes_eqb s id_false then EOk (MBool false) else ECompile
  | TGroup DParen [TLit l] => lit_value false l
  | TGroup DParen [TIdent s] => if bytes_eqb s id_true then EOk (MBool true)
                                else if bytes_eqb s id_false then EOk (MBool false) else ECompile
  | TGroup DParen [TPunct c; TLit l] => if byte_eqb c c_minus then lit_value true l else ECompile
  | TGroup DParen [TPunct c; TIdent _] => ECompile
  | _ => EStuck
  end.

(* $crate::macros::number(-$v): `Number` is implemented for i64 and f64 only, so an unsuffixed integer
   literal is inferred as i64 and a float literal as f64.  `-9223372036854775808` is i64::MIN (rustc reads a
   negated literal as one constant); a larger magnitude wraps (the overflowing_literals lint is attributed to
   the macro's own `-$v` and suppressed; observed on rustc 1.95).  Anything that is not a literal is outside
   the fragment modelled (`-x` for a variable x compiles iff x is an i64 or an f64). *)
Definition wrap_i64 (z : Z) : Z := ((z + 9223372036854775808) mod 18446744073709551616 - 9223372036854775808)%Z.
Definition neg_lit_value (l : lit) : eres mval :=
  match l with
  | LStr _ => ECompile
  | LInt s =>
    match rust_int_lit s with
    | Some (v, []) => EOk (MInt (wrap_i64 (- Z.of_N v)))
    | _ => ECompile
    end
  | LFloat s => float_lit_value true s
  end.
Definition rust_neg_value (v : tt) : eres mval :=
  match v with
  | TLit l => neg_lit_value l
  | TIdent s => if bytes_eqb s id_true || bytes_eqb s id_false then ECompile else EStuck
  | _ => EStuck
  end.

Definition state_toks (s : bytes) : list tt := [TPunct c_at; TIdent s].

Fixpoint invoke (fuel : nat) (cur : mval) (input : list tt) {struct fuel} : eres mval :=
  match fuel with
  | O => EFuel
  | S f =>
    match first_match rules input with
    | None => ENoRule
    | Some (b, e) =>
      let value_of (v : tt) : eres mval := invoke f (MTab []) (state_toks id_value ++ [v]) in
      let keys_of (top : bool) (x : var) : eres (list bytes) :=
          pre <== (if top then path_strs (env_tts Vpath e) else EOk []) ;;
          ks <== key_strs (env_segs x e) ;;
          EOk (pre ++ ks) in
      match b with
      | BNothing => EOk cur
      | BInvoke q => invoke f cur (transcribe_seq q e)
      | BInsert top next =>
        path <== keys_of top Vk ;;
        v <== env_tt Vv e ;;
        val <== value_of v ;;
        match insert_toml cur path val with
        | Some cur' => invoke f cur' (transcribe_seq next e)
        | None => EPanic
        end
      | BInsertDt top next =>
        path <== keys_of top Vk ;;
        val <== datetime_value (env_tts Vdatetime e) ;;
        match insert_toml cur path val with
        | Some cur' => invoke f cur' (transcribe_seq next e)
        | None => EPanic
        end
      | BArrHeader =>
        path <== key_strs (env_segs Vpath e) ;;
        r <== env_tt Vroot e ;;
        match push_toml cur path with
        | Some cur' => invoke f cur' (state_toks id_toplevel ++ [r; TGroup DBracket (List.map path_tok path)] ++ env_tts Vrest e)
        | None => EPanic
        end
      | BTabHeader =>
        path <== key_strs (env_segs Vpath e) ;;
        r <== env_tt Vroot e ;;
        match insert_table_toml cur path with
        | Some cur' => invoke f cur' (state_toks id_toplevel ++ [r; TGroup DBracket (List.map path_tok path)] ++ env_tts Vrest e)
        | None => EPanic
        end
      | BArrPush next =>
        v <== env_tt Vv e ;;
        val <== value_of v ;;
        match cur with
        | MArr l => invoke f (MArr (l ++ [val])) (transcribe_seq next e)
        | _ => EStuck
        end
      | BArrPushDt next =>
        val <== datetime_value (env_tts Vdatetime e) ;;
        match cur with
        | MArr l => invoke f (MArr (l ++ [val])) (transcribe_seq next e)
        | _ => EStuck
        end
      | BValTable q => invoke f (MTab []) (transcribe_seq q e)
      | BValArray q => invoke f (MArr []) (transcribe_seq q e)
      | BValConst c => EOk (MFloat c)
      | BValNeg => v <== env_tt Vv e ;; rust_neg_value v
      | BValOther => v <== env_tt Vv e ;; rust_expr_value v
      | BPathIdent => EStuck
      | BPathQuoted => EStuck
      end
    end
  end.

(* macro_rules! toml: `($($toml:tt)+)`: at least one token;
   let mut root = Value::Table(Table::new()); toml_internal!(@toplevel root [] $($toml)+); root *)
Definition toml_macro (fuel : nat) (ts : list tt) : eres mval :=
  match ts with
  | [] => ENoRule
  | _ => invoke fuel (MTab []) (state_toks id_toplevel ++ [TIdent id_root; TGroup DBracket []] ++ ts)
  end.

(* a fuel that is always enough for the token lists of interest: every invocation step either
   removes a token from the input or is one of a bounded number of administrative steps per token *)
Fixpoint tt_size (t : tt) : nat :=
  match t with
  | TGroup _ ts => S (fold_right (fun x acc => tt_size x + acc) 0 ts)
  | _ => 1
  end.
Definition tts_size (ts : list tt) : nat := fold_right (fun x acc => tt_size x + acc) 0 ts.
Definition default_fuel (ts : list tt) : nat := 8 * tts_size ts + 16.
Definition macro_eval (ts : list tt) : eres mval := toml_macro (default_fuel ts) ts.

(* ------------------------------------------------------------------------------------------ *)
(* the rule heads leave the matcher no choice (see the header comment)                        *)
(* ------------------------------------------------------------------------------------------ *)
(* `outer`: the literal punctuation tokens that may come right after the sequence under
   inspection (Some [] = only the end of a delimited group / of the input; None = something
   that is not literal punctuation, e.g. a `$x:tt`, which could match a separator) *)
Definition follow_of (after : list pat) (outer : option (list byte)) : option (list byte) :=
  match after with
  | PPunct c :: _ => Some [c]
  | [] => outer
  | _ => None
  end.

Fixpoint det_pat (p : pat) (after : list pat) (outer : option (list byte)) {struct p} : bool :=
  match p with
  | PGroup _ ps =>
    (fix go (l : list pat) : bool :=
       match l with
       | [] => true
       | q :: tl => det_pat q tl (Some []) && go tl
       end) ps
  | PRep ps None _ =>
    (* without separator: one `$x:tt`, last in a delimited sequence *)
    match after, ps, outer with
    | [], [PVar _ FTt], Some [] => true
    | _, _, _ => false
    end
  | PRep ps (Some c) _ =>
    (* with separator: whatever may follow is literal punctuation different from the separator *)
    match follow_of after outer with
    | Some l =>
      forallb (fun c' => negb (byte_eqb c c')) l
      && (fix go (q : list pat) : bool :=
            match q with
            | [] => true
            | q1 :: tl => det_pat q1 tl (Some (c :: l)) && go tl
            end) ps
    | None => false
    end
  | _ => true
  end.
Fixpoint det_seq (ps : list pat) : bool :=
  match ps with
  | [] => true
  | p :: tl => det_pat p tl (Some []) && det_seq tl
  end.
Definition heads_deterministic : bool := forallb (fun r => det_seq (r_head r)) rules.
