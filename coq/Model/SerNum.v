(* Model/SerNum.v — the checked integer conversions on the serde side.

   OUTPUT  crates/toml_edit/src/ser/value.rs  `impl serde::ser::Serializer for ValueSerializer`
           crates/toml/src/value.rs           `impl ser::Serializer for ValueSerializer`
           (crates/toml/src/ser.rs forwards every integer method to toml_edit's ValueSerializer)
     serialize_i8/i16/i32/u8/u16/u32(v) = self.serialize_i64(v as i64)   (widening, exact)
     serialize_i64(v) = Ok(v.into())
     serialize_u64(v) = i64::try_from(v) or Err(OutOfRange("u64")) / Err("u64 value was too large")
     serialize_i128 / serialize_u128 : NOT defined by either serializer, so serde's provided
       default applies: Err(Error::custom("i128 is not supported")) — for EVERY value.
   Which method serde calls for a primitive is serde's `impl Serialize for <prim>`:
     iN -> serialize_iN, uN -> serialize_uN, isize -> serialize_i64(as i64),
     usize -> serialize_u64(as u64)   (64-bit target).  This is external code given by its
     obvious functional spec.

   INPUT   crates/toml_edit/src/de/value.rs  ValueDeserializer::deserialize_any
           crates/toml/src/value.rs          `impl Deserializer for Value`::deserialize_any
     a TOML integer is handed to the visitor with `visitor.visit_i64(v)`.  All of
     deserialize_{i8..i64,u8..u64} are forwarded to deserialize_any
     (`forward_to_deserialize_any!`); deserialize_i128/u128 are not in that list, so serde's
     provided default applies: Err("i128 is not supported") — for EVERY value.
     serde's primitive visitors (serde/src/de/impls.rs `impl_deserialize_num!`:
     `int_to_int!`, `int_to_uint!`, `num_self!`) range-check visit_i64 against the target type
     and fail with `invalid_value` outside it.  That is external code; it is modelled by the
     obvious functional spec "in range of the target type, else error". *)
From TV Require Import Base.Prelude.

Inductive int_ty : Set :=
| TI8 | TI16 | TI32 | TI64 | TI128 | TIsize
| TU8 | TU16 | TU32 | TU64 | TU128 | TUsize.

Definition all_int_ty : list int_ty :=
  [TI8; TI16; TI32; TI64; TI128; TIsize; TU8; TU16; TU32; TU64; TU128; TUsize].

Definition ty_min (t : int_ty) : Z :=
  match t with
  | TI8 => - 2 ^ 7 | TI16 => - 2 ^ 15 | TI32 => - 2 ^ 31 | TI64 | TIsize => - 2 ^ 63 | TI128 => - 2 ^ 127
  | TU8 | TU16 | TU32 | TU64 | TU128 | TUsize => 0
  end%Z.
Definition ty_max (t : int_ty) : Z :=
  match t with
  | TI8 => 2 ^ 7 - 1 | TI16 => 2 ^ 15 - 1 | TI32 => 2 ^ 31 - 1 | TI64 | TIsize => 2 ^ 63 - 1 | TI128 => 2 ^ 127 - 1
  | TU8 => 2 ^ 8 - 1 | TU16 => 2 ^ 16 - 1 | TU32 => 2 ^ 32 - 1 | TU64 | TUsize => 2 ^ 64 - 1 | TU128 => 2 ^ 128 - 1
  end%Z.
(* the values of the Rust type *)
Definition in_ty (t : int_ty) (z : Z) : bool := ((ty_min t <=? z) && (z <=? ty_max t))%Z.

Definition i64_lo : Z := (- 2 ^ 63)%Z.
Definition i64_hi : Z := (2 ^ 63 - 1)%Z.
Definition fits_i64 (z : Z) : bool := ((i64_lo <=? z) && (z <=? i64_hi))%Z.

(* the Serializer method serde's `impl Serialize for <prim>` calls *)
Inductive ser_method : Set := M_i64 | M_u64 | M_i128 | M_u128.
Definition ser_method_of (t : int_ty) : ser_method :=
  match t with
  | TI8 | TI16 | TI32 | TI64 | TIsize => M_i64      (* serialize_i8/16/32 = serialize_i64(v as i64) *)
  | TU8 | TU16 | TU32 => M_i64                      (* serialize_u8/16/32 = serialize_i64(v as i64) *)
  | TU64 | TUsize => M_u64
  | TI128 => M_i128
  | TU128 => M_u128
  end.

(* toml_edit/src/ser/value.rs ValueSerializer; None = Err *)
Definition serialize_i64 (z : Z) : option Z := Some z.
Definition serialize_u64 (z : Z) : option Z := if fits_i64 z then serialize_i64 z else None.
Definition serialize_i128 (z : Z) : option Z := None.     (* serde default: "i128 is not supported" *)
Definition serialize_u128 (z : Z) : option Z := None.     (* serde default: "u128 is not supported" *)

(* a value z of Rust type t (in_ty t z = true) serialized: the i64 stored in the TOML tree *)
Definition ser_int (t : int_ty) (z : Z) : option Z :=
  match ser_method_of t with
  | M_i64 => serialize_i64 z
  | M_u64 => serialize_u64 z
  | M_i128 => serialize_i128 z
  | M_u128 => serialize_u128 z
  end.

(* toml/src/value.rs ValueSerializer (Value::try_from): the same decisions, written
   `if i64::try_from(value).is_ok() { serialize_i64(value as i64) } else { Err(..) }` *)
Definition tv_serialize_u64 (z : Z) : option Z := if fits_i64 z then Some z else None.
Definition tv_ser_int (t : int_ty) (z : Z) : option Z :=
  match ser_method_of t with
  | M_i64 => Some z
  | M_u64 => tv_serialize_u64 z
  | M_i128 | M_u128 => None
  end.

(* deserialising the TOML integer z (an i64) into Rust type t:
   deserialize_<t> -> deserialize_any -> visitor.visit_i64(z) -> serde's range check;
   deserialize_i128/u128 -> serde default error *)
Definition de_forwarded (t : int_ty) : bool :=
  match t with TI128 | TU128 => false | _ => true end.
Definition visit_i64 (t : int_ty) (z : Z) : option Z := if in_ty t z then Some z else None.
Definition de_int (t : int_ty) (z : Z) : option Z :=
  if de_forwarded t then visit_i64 t z else None.
