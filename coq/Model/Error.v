(* Model/Error.v — crates/toml_edit/src/error.rs (TomlError::new, translate_position, the
   arithmetic of `Display for TomlError`) and winnow-0.7.6/src/error.rs (ParseError::char_span,
   char_boundary).  usize values are `nat`; every place where the Rust code would panic
   (slice out of range, `expect`, usize underflow in a debug build) is an explicit `None` /
   `RPanic site` branch guarded by the condition under which Rust panics. *)
From TV Require Import Base.Prelude Base.Utf8 Base.Winnow.

(* ---- winnow error.rs ---------------------------------------------------------------------- *)

(* `input.get(i).copied().map(is_utf8_char_boundary).unwrap_or(false)` *)
Definition boundary_at (s : bytes) (i : nat) : bool :=
  match nth_error s i with Some b => is_boundary_byte b | None => false end.

(* `(0..n).rev().find(p)` *)
Fixpoint rfind_below (p : nat -> bool) (n : nat) : option nat :=
  match n with
  | O => None
  | S n' => if p n' then Some n' else rfind_below p n'
  end.

(* `(a..a+k).find(p)` *)
Fixpoint find_from (p : nat -> bool) (a k : nat) : option nat :=
  match k with
  | O => None
  | S k' => if p a then Some a else find_from p (S a) k'
  end.

(* winnow error.rs: char_boundary(input, offset) -> Range<usize> *)
Definition char_boundary (s : bytes) (offset : nat) : nat * nat :=
  let len := length s in
  if Nat.eqb offset len then (offset, offset)
  else
    let start := match rfind_below (boundary_at s) (Nat.min (offset + 1) len) with
                 | Some i => i | None => 0 end in
    let end_ := match find_from (boundary_at s) (offset + 1) (len - (offset + 1)) with
                | Some i => i | None => len end in
    (start, end_).

(* winnow error.rs: ParseError::char_span = char_boundary(self.input, self.offset) *)
Definition char_span (s : bytes) (offset : nat) : nat * nat := char_boundary s offset.

(* ---- toml_edit error.rs ------------------------------------------------------------------- *)

Definition is_lf (b : byte) : bool := byte_eqb b x0a.

(* `&input[a..b]`: panics unless a <= b <= len *)
Definition slice (s : bytes) (a b : nat) : bytes := firstn (b - a) (skipn a s).
Definition slice_chk (s : bytes) (a b : nat) : option bytes :=
  if Nat.leb a b && Nat.leb b (length s) then Some (slice s a b) else None.

(* checked usize subtraction (debug build: panic on underflow) *)
Definition sub_chk (a b : nat) : option nat := if Nat.leb b a then Some (a - b) else None.

(* `.iter().enumerate().find(|(_, b)| f(b)).map(|(i, _)| i)` *)
Fixpoint find_index (f : byte -> bool) (s : bytes) : option nat :=
  match s with
  | [] => None
  | b :: r => if f b then Some 0 else option_map S (find_index f r)
  end.

(* `s.chars().count()` for `s: &str` = number of non-continuation bytes (Utf8.char_count) *)
Definition chars_count (s : bytes) : nat := length (filter is_boundary_byte s).

(* error.rs: translate_position(input, index) -> (line, column), both 0-based *)
Definition translate_position (input : bytes) (index : nat) : nat * nat :=
  match input with
  | [] => (0, index)
  | _ =>
    let safe_index := Nat.min index (length input - 1) in
    let column_offset := index - safe_index in
    let index := safe_index in
    let nl := option_map (fun nl => index - nl - 1)
                (find_index is_lf (rev (slice input 0 index))) in
    let line_start := match nl with Some nl => nl + 1 | None => 0 end in
    let line := length (filter is_lf (slice input 0 line_start)) in
    let column :=
      if utf8_valid_b (slice input line_start (S index))
      then chars_count (slice input line_start (S index)) - 1
      else if utf8_valid_b (slice input line_start index)       (* the repair of F8 *)
      then chars_count (slice input line_start index)
      else index - line_start in
    (line, column + column_offset)
  end.

(* the same function with every slice bound and every subtraction checked: None = Rust panics *)
Definition obind {A B} (o : option A) (f : A -> option B) : option B :=
  match o with Some a => f a | None => None end.

Definition translate_position_chk (input : bytes) (index : nat) : option (nat * nat) :=
  match input with
  | [] => Some (0, index)
  | _ =>
    obind (sub_chk (length input) 1) (fun last =>
    let safe_index := Nat.min index last in
    obind (sub_chk index safe_index) (fun column_offset =>
    let index := safe_index in
    obind (slice_chk input 0 index) (fun pre =>
    obind (match find_index is_lf (rev pre) with
           | Some nl => obind (sub_chk index nl) (fun x => obind (sub_chk x 1) (fun y => Some (Some y)))
           | None => Some None
           end) (fun nl =>
    let line_start := match nl with Some nl => nl + 1 | None => 0 end in
    obind (slice_chk input 0 line_start) (fun before =>
    let line := length (filter is_lf before) in
    obind (slice_chk input line_start (S index)) (fun incl =>
    obind (if utf8_valid_b incl then sub_chk (chars_count incl) 1
           else obind (slice_chk input line_start index) (fun excl =>
                if utf8_valid_b excl then Some (chars_count excl)
                else sub_chk index line_start)) (fun column =>
    Some (line, column + column_offset))))))))
  end.

(* `raw.split('\n')` *)
Fixpoint split_lf_acc (cur : bytes) (s : bytes) : list bytes :=
  match s with
  | [] => [rev cur]
  | b :: r => if is_lf b then rev cur :: split_lf_acc [] r else split_lf_acc (b :: cur) r
  end.
Definition split_lf (s : bytes) : list bytes := split_lf_acc [] s.

(* what `Display for TomlError` computes before it starts writing (raw and span present) *)
Record rendered : Set := mkRendered {
  r_line_num : nat;       (* 1-based *)
  r_col_num : nat;        (* 1-based *)
  r_content : bytes;      (* the source line shown *)
  r_highlight_len : nat   (* the marker line shows max 1 highlight_len carets *)
}.
Inductive render_res : Set :=
| ROk (r : rendered)
| RPanic (s : site).

Definition site_translate : site := P_span_slice.          (* a slice/subtraction inside translate_position *)
Definition site_line : site := P_other 150.                (* .nth(line).expect("valid line number") *)
Definition site_span_len : site := P_arith_overflow 151.   (* span.end - span.start *)

(* error.rs: <TomlError as Display>::fmt, the part that can panic *)
Definition render (raw : bytes) (span : nat * nat) : render_res :=
  let (a, b) := span in
  match translate_position_chk raw a with
  | None => RPanic site_translate
  | Some (line, column) =>
    let line_num := line + 1 in
    let col_num := column + 1 in
    match nth_error (split_lf raw) line with
    | None => RPanic site_line
    | Some content =>
      match sub_chk b a with
      | None => RPanic site_span_len
      | Some highlight_len =>
        (* highlight_len.min(content.len().saturating_sub(column)) *)
        let highlight_len := Nat.min highlight_len (length content - column) in
        ROk (mkRendered line_num col_num content highlight_len)
      end
    end
  end.

(* number of '^' written: one, then `for _ in 1..highlight_len` *)
Definition carets (r : rendered) : nat := Nat.max 1 (r_highlight_len r).

(* error.rs: TomlError::new — the fields the property speaks about *)
Record toml_error : Set := mkTomlError {
  te_message_empty : bool;            (* error.inner().to_string().is_empty() *)
  te_span : option (nat * nat)        (* Some(error.char_span()) / None for TomlError::custom(_, None) *)
}.

Definition message_empty (e : perr) : bool :=
  match e_cause e with Some _ => false | None => negb (e_ctx e) end.

Definition toml_error_new (raw : bytes) (e : perr) (offset : N) : toml_error :=
  mkTomlError (message_empty e) (Some (char_span raw (N.to_nat offset))).

Definition toml_error_custom (e : perr) : toml_error :=
  mkTomlError (message_empty e) None.
