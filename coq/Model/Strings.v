(* Model/Strings.v — crates/toml_edit/src/parser/strings.rs.  Decoded strings are UTF-8 byte lists. *)
From TV Require Import Base.Prelude Base.Utf8 Base.Winnow Gen.Consts Model.Trivia.

(* .try_map(std::str::from_utf8) *)
Definition from_utf8 (p : parser bytes) : parser bytes :=
  try_map (fun b => if utf8_valid_b b then TmOk b else TmErr Utf8Error) p.

(* u32::from_str_radix(s, 16) on hex digits *)
Definition hex_val (b : byte) : N :=
  let n := b2n b in
  if (n <=? 57)%N then (n - 48)%N else if (n <=? 70)%N then (n - 55)%N else (n - 87)%N.
Fixpoint hex_value_acc (acc : N) (s : bytes) : N :=
  match s with [] => acc | b :: r => hex_value_acc (acc * 16 + hex_val b)%N r end.
Definition hex_value (s : bytes) : N := hex_value_acc 0 s.
Definition is_hexdig_ascii (b : byte) : bool :=
  inr 48 57 b || inr 65 70 b || inr 97 102 b.
(* u32::from_str_radix(s,16).ok(): s non-empty, all hex digits, value < 2^32 *)
Definition u32_from_hex (s : bytes) : option N :=
  match s with
  | [] => None
  | _ => if forallb is_hexdig_ascii s
         then let v := hex_value s in if (v <? 2 ^ 32)%N then Some v else None
         else None
  end.

(* strings.rs: hexescape::<N> *)
Definition hexescape (n : nat) : parser bytes :=
  try_map (fun h => if is_scalar h then TmOk (utf8_encode h) else TmErr OutOfRange)
    (verify_map u32_from_hex
       (unchecked_utf8 2
          (verify (fun b => Nat.eqb (length b) n)
             (take_while_mn 0 (Some n) (in_class HEXDIG))))).

Fixpoint assoc_byte {A} (l : list (byte * A)) (b : byte) : option A :=
  match l with
  | [] => None
  | (k, v) :: tl => if byte_eqb k b then Some v else assoc_byte tl b
  end.

(* strings.rs: escape_seq_char — dispatch!{any; ...} *)
Definition escape_seq_char : parser bytes :=
  b <- any ;;
  match assoc_byte ESCAPE_SIMPLE b with
  | Some c => ret (utf8_encode c)
  | None =>
    match assoc_byte ESCAPE_HEX b with
    | Some n => context (cut_err (hexescape n))
    | None => context (cut_err fail)
    end
  end.

(* strings.rs: escaped *)
Definition escaped : parser bytes := preceded (byte_ ESCAPE) escape_seq_char.

(* strings.rs: basic_chars *)
Definition basic_chars : parser bytes :=
  from_utf8 (take_while1 (in_class BASIC_UNESCAPED)) <|> escaped.

(* `if let Some(ci) = opt(p) {..}; while let Some(ci) = opt(p) {..}` : collect chunks *)
Fixpoint chunks_f (fuel : nat) (p : parser bytes) (acc : bytes) (i : input) : res bytes :=
  match fuel with
  | O => Panic P_out_of_fuel
  | S f =>
    match p i with
    | Ok c i' =>
      (* no winnow progress assertion here: a non-consuming success would spin forever *)
      if Nat.eqb (length (rest i')) (length (rest i)) then Panic P_repeat_no_progress
      else chunks_f f p (acc ++ c) i'
    | Bt _ _ => Ok acc i
    | Cut e i' => Cut e i'
    | Panic s => Panic s
    end
  end.
Definition chunks (p : parser bytes) : parser bytes :=
  fun i => chunks_f (S (length (rest i))) p [] i.

(* strings.rs: basic_string *)
Definition basic_string : parser bytes :=
  byte_ QUOTATION_MARK ;;;
  c <- chunks basic_chars ;;
  context (cut_err (byte_ QUOTATION_MARK)) ;;;
  ret c.

(* strings.rs: mlb_escaped_nl = repeat(1.., (ESCAPE, ws, ws_newlines)) *)
Definition mlb_escaped_nl : parser unit :=
  pvoid (repeat1 (byte_ ESCAPE ;;; ws ;;; ws_newlines)).

(* strings.rs: mlb_content *)
Definition mlb_content : parser bytes :=
  from_utf8 (take_while1 (in_class MLB_UNESCAPED))
  <|> pvalue [] mlb_escaped_nl
  <|> escaped
  <|> pvalue [x0a] newline.

(* strings.rs: mlb_quotes(term) / mll_quotes(term): two quote characters followed by term, else one *)
Definition quotes2 (q : byte) (term : parser unit) : parser bytes :=
  fun i =>
    match unchecked_utf8 3 (terminated (lit [q; q]) (peek term)) i with
    | Bt _ _ => unchecked_utf8 3 (terminated (lit [q]) (peek term)) i
    | r => r
    end.

(* strings.rs: ml_basic_body *)
Fixpoint mlb_quote_loop (fuel : nat) (acc : bytes) (i : input) : res bytes :=
  match fuel with
  | O => Panic P_out_of_fuel
  | S f =>
    match opt (quotes2 x22 (pvoid (none_of (byte_eqb x22)))) i with
    | Ok (Some qi) i1 =>
      match opt mlb_content i1 with
      | Ok (Some ci) i2 =>
        match chunks mlb_content i2 with
        | Ok more i3 => mlb_quote_loop f (acc ++ qi ++ ci ++ more) i3
        | Bt e i' => Bt e i'
        | Cut e i' => Cut e i'
        | Panic s => Panic s
        end
      | Ok None i2 => Ok acc i2        (* break: the quotes stay consumed, but are not pushed *)
      | Bt e i' => Bt e i'
      | Cut e i' => Cut e i'
      | Panic s => Panic s
      end
    | Ok None i1 => Ok acc i1
    | Bt e i' => Bt e i'
    | Cut e i' => Cut e i'
    | Panic s => Panic s
    end
  end.
Definition ml_basic_body : parser bytes :=
  fun i =>
    (c <- chunks mlb_content ;;
     c2 <- (fun j => mlb_quote_loop (S (length (rest j))) c j) ;;
     q <- opt (quotes2 x22 (pvoid (lit ML_BASIC_STRING_DELIM))) ;;
     ret (c2 ++ match q with Some qi => qi | None => [] end)) i.

(* strings.rs: ml_basic_string *)
Definition ml_basic_string : parser bytes :=
  lit ML_BASIC_STRING_DELIM ;;;
  c <- context (opt newline ;;; cut_err ml_basic_body) ;;
  context (cut_err (lit ML_BASIC_STRING_DELIM)) ;;;
  ret c.

(* strings.rs: literal_string *)
Definition literal_string : parser bytes :=
  context
    (from_utf8
       (byte_ APOSTROPHE ;;;
        c <- cut_err (take_while0 (in_class LITERAL_CHAR)) ;;
        cut_err (byte_ APOSTROPHE) ;;;
        ret c)).

(* strings.rs: mll_content *)
Definition mll_content : parser byte :=
  one_of (in_class MLL_CHAR) <|> pvalue x0a newline.

(* strings.rs: ml_literal_body — recognised text, checked as UTF-8 *)
Definition ml_literal_body : parser bytes :=
  from_utf8
    (taken
       (repeat0 mll_content ;;;
        repeat0 (quotes2 x27 (pvoid (none_of (byte_eqb APOSTROPHE))) ;;; repeat1 mll_content) ;;;
        opt (quotes2 x27 (pvoid (lit ML_LITERAL_STRING_DELIM))))).

(* t.replace("\r\n", "\n") *)
Fixpoint replace_crlf (s : bytes) : bytes :=
  match s with
  | a :: ((b :: r) as t) => if byte_eqb a x0d && byte_eqb b x0a then x0a :: replace_crlf r else a :: replace_crlf t
  | _ => s
  end.

(* strings.rs: ml_literal_string *)
Definition ml_literal_string : parser bytes :=
  (lit ML_LITERAL_STRING_DELIM ;;; opt newline) ;;;
  c <- context (cut_err (pmap replace_crlf ml_literal_body)) ;;
  context (cut_err (lit ML_LITERAL_STRING_DELIM)) ;;;
  ret c.

(* strings.rs: string *)
Definition string_ : parser bytes :=
  ml_basic_string <|> basic_string <|> ml_literal_string <|> literal_string.
