(* Model/Encode.v — crates/toml_edit/src/encode.rs (Display for DocumentMut / Value / Key),
   RawString::encode_with_default (CR stripping), Table::get_values / append_values,
   and `despan` (ImDocument::into_mut). *)
From TV Require Import Base.Prelude Base.Utf8 Base.Winnow Gen.Consts.
From TV Require Import Model.Datetime Model.DatetimeStd Model.Numbers Model.Tree Model.Write.

(* ---- despan --------------------------------------------------------------------------------
   None = a span that is out of range / off a char boundary (Rust: panic in RawString::despan) *)
Section Despan.
  Variable src : bytes.

  Definition oraw_despan (o : option raw) : option (option raw) :=
    match o with
    | None => Some None
    | Some r => match raw_despan src r with Some r' => Some (Some r') | None => None end
    end.
  Definition decor_despan (d : decor) : option decor :=
    match oraw_despan (d_prefix d), oraw_despan (d_suffix d) with
    | Some p, Some s => Some (mkDecor p s)
    | _, _ => None
    end.
  Definition key_despan (k : key) : option key :=
    match decor_despan (k_leaf k), decor_despan (k_dotted k), oraw_despan (k_repr k) with
    | Some l, Some d, Some r => Some (mkKey (k_key k) r l d)
    | _, _, _ => None
    end.

  Definition omap_list {A B} (f : A -> option B) : list A -> option (list B) :=
    fix go (l : list A) : option (list B) :=
      match l with
      | [] => Some []
      | a :: tl => match f a, go tl with Some b, Some r => Some (b :: r) | _, _ => None end
      end.

  Fixpoint value_despan (v : value) : option value :=
    match v with
    | VScalar s r d =>
      match oraw_despan r, decor_despan d with
      | Some r', Some d' => Some (VScalar s r' d') | _, _ => None end
    | VArray vals tr c d _ =>
      match omap_list item_despan vals, raw_despan src tr, decor_despan d with
      | Some vals', Some tr', Some d' => Some (VArray vals' tr' c d' None) | _, _, _ => None end
    | VInline items pre im dt d _ =>
      match omap_list (fun kv => match kv with (k0, i0) =>
                                 match key_despan k0, item_despan i0 with
                                 | Some k, Some i => Some (k, i) | _, _ => None end end) items,
            raw_despan src pre, decor_despan d with
      | Some items', Some pre', Some d' => Some (VInline items' pre' im dt d' None) | _, _, _ => None end
    end
  with item_despan (it : item) : option item :=
    match it with
    | INone => Some INone
    | IValue v => optmap IValue (value_despan v)
    | ITable t => optmap ITable (tbl_despan t)
    | IAot ts _ => optmap (fun ts' => IAot ts' None) (omap_list tbl_despan ts)
    end
  with tbl_despan (t : tbl) : option tbl :=
    match t with
    | Tbl items d im dt p _ =>
      match omap_list (fun kv => match kv with (k0, i0) =>
                                 match key_despan k0, item_despan i0 with
                                 | Some k, Some i => Some (k, i) | _, _ => None end end) items,
            decor_despan d with
      | Some items', Some d' => Some (Tbl items' d' im dt p None) | _, _ => None end
    end.
End Despan.

(* ---- encode (input = None: the tree is despanned) ------------------------------------------ *)
Definition strip_cr (s : bytes) : bytes := filter (fun b => negb (byte_eqb b x0d)) s.

(* RawString::encode_with_default(buf, None, default) *)
Definition raw_encode (r : raw) (default : bytes) : bytes :=
  strip_cr (match r with REmpty => [] | RExplicit s => s | RSpanned _ _ => default end).
Definition decor_prefix (d : decor) (default : bytes) : bytes :=
  match d_prefix d with Some r => raw_encode r default | None => default end.
Definition decor_suffix (d : decor) (default : bytes) : bytes :=
  match d_suffix d with Some r => raw_encode r default | None => default end.

(* as_repr().and_then(|r| r.as_raw().as_str()) *)
Definition repr_str (r : option raw) : option bytes :=
  match r with
  | Some REmpty => Some []
  | Some (RExplicit s) => Some s
  | _ => None
  end.

Definition default_string_repr (s : bytes) : bytes :=
  as_default s (vmetrics_of s).

(* f64's std Display is an oracle; a float without a stored repr prints as a marker the
   correspondence differ resolves (only built trees have such floats) *)
Definition float_marker (f : fval) : bytes :=
  match f with
  | FNan false => [x6e; x61; x6e]
  | FNan true => [x2d; x6e; x61; x6e]
  | FInf false => [x69; x6e; x66]
  | FInf true => [x2d; x69; x6e; x66]
  | FDec neg m e => (if neg then [x2d] else []) ++ write_N m ++ [x65] ++ write_i64 e ++ [x00]
  end.

Definition scalar_default_repr (s : scalar) : bytes :=
  match s with
  | SString x => default_string_repr x
  | SInt z => write_i64 z
  | SFloat f => float_marker f
  | SBool b => write_bool b
  | SDatetime d => display_datetime d
  end.

Definition key_display_repr (k : key) : bytes :=
  match repr_str (k_repr k) with
  | Some s => s
  | None => match write_key KDefault (k_key k) with Some t => t | None => [] end
  end.

(* encode_key_path / encode_key_path_ref *)
Fixpoint encode_key_path_loop (leaf : decor) (default : bytes * bytes) (first : bool) (ks : list key) : bytes :=
  match ks with
  | [] => []
  | k :: tl =>
    let last := match tl with [] => true | _ => false end in
    (if first then decor_prefix leaf (fst default)
     else [x2e] ++ decor_prefix (k_dotted k) (fst DEFAULT_KEY_PATH_DECOR))
    ++ key_display_repr k
    ++ (if last then decor_suffix leaf (snd default)
        else decor_suffix (k_dotted k) (snd DEFAULT_KEY_PATH_DECOR))
    ++ encode_key_path_loop leaf default false tl
  end.
Definition encode_key_path (ks : list key) (default : bytes * bytes) : bytes :=
  match rev ks with
  | [] => []          (* `.last().expect("always at least one key")` — callers pass non-empty paths *)
  | last :: _ => encode_key_path_loop (k_leaf last) default true ks
  end.

(* encode.rs is_blank: only blanks may surround the keys inside a `[table]` header (a decor that is absent is blank) *)
Definition raw_blank (r : option raw) : bool :=
  match r with
  | None => true
  | Some REmpty => true
  | Some (RExplicit s) => forallb (fun b => byte_eqb b x20 || byte_eqb b x09) s
  | Some (RSpanned _ _) => true          (* `to_str_with_default(input, "")` without the source text *)
  end.

(* encode_key_path as used for headers: a leaf prefix that is not blank (the comment above a former `key = value`
   line) is not written inside the brackets ... *)
Definition encode_header_key_path (ks : list key) (default : bytes * bytes) : bytes :=
  match rev ks with
  | [] => []
  | last :: _ =>
    let leaf := k_leaf last in
    let leaf' := if raw_blank (d_prefix leaf) then leaf else mkDecor None (d_suffix leaf) in
    encode_key_path_loop leaf' default true ks
  end.
(* ... encode_key_comments: it is written in front of the header instead *)
Definition encode_key_comments (ks : list key) : bytes :=
  match rev ks with
  | [] => []
  | last :: _ => if raw_blank (d_prefix (k_leaf last)) then [] else decor_prefix (k_leaf last) []
  end.

(* Table::append_values / InlineTable::append_values: the (key path, value) lines of a section *)
Fixpoint inline_values (fuel : nat) (parent : list key) (items : kvs) : list (list key * value) :=
  match fuel with
  | O => []
  | S f =>
    flat_map (fun kv =>
                let path := parent ++ [fst kv] in
                match snd kv with
                | IValue (VInline sub _ _ true _ _) => inline_values f path sub
                | IValue v => [(path, v)]
                | _ => []
                end) items
  end.
Fixpoint table_values (fuel : nat) (parent : list key) (items : kvs) : list (list key * value) :=
  match fuel with
  | O => []
  | S f =>
    flat_map (fun kv =>
                let path := parent ++ [fst kv] in
                match snd kv with
                | ITable (Tbl sub _ _ true _ _) => table_values f path sub
                | IValue (VInline sub _ _ true _ _) => inline_values f path sub
                | IValue v => [(path, v)]
                | _ => []
                end) items
  end.

Fixpoint value_size (v : value) : nat :=
  match v with
  | VScalar _ _ _ => 1
  | VArray vals _ _ _ _ => S (fold_right (fun it acc => item_size it + acc) 0 vals)
  | VInline items _ _ _ _ _ => S (fold_right (fun kv acc => match kv with (_, i0) => item_size i0 + acc end) 0 items)
  end
with item_size (it : item) : nat :=
  match it with
  | INone => 1
  | IValue v => S (value_size v)
  | ITable t => S (tbl_size t)
  | IAot ts _ => S (fold_right (fun t acc => tbl_size t + acc) 0 ts)
  end
with tbl_size (t : tbl) : nat :=
  match t with
  | Tbl items _ _ _ _ _ => S (fold_right (fun kv acc => match kv with (_, i0) => item_size i0 + acc end) 0 items)
  end.

(* encode_value / encode_formatted / encode_array / encode_table *)
Fixpoint encode_value (fuel : nat) (v : value) (default : bytes * bytes) : bytes :=
  match fuel with
  | O => []
  | S f =>
    match v with
    | VScalar s r d =>
      decor_prefix d (fst default)
      ++ (match repr_str r with Some t => t | None => scalar_default_repr s end)
      ++ decor_suffix d (snd default)
    | VArray vals tr comma d _ =>
      decor_prefix d (fst default) ++ [x5b]
      ++ (fix elems (first : bool) (l : list item) : bytes :=
            match l with
            | [] => []
            | it :: tl =>
              (match it with
               | IValue e =>    (* Array::iter yields the values only *)
                 (if first then [] else [x2c])
                 ++ encode_value f e (if first then DEFAULT_LEADING_VALUE_DECOR else DEFAULT_VALUE_DECOR)
               | _ => []
               end) ++ elems (match it with IValue _ => false | _ => first end) tl
            end) true vals
      ++ (if comma && negb (match vals with [] => true | _ => false end) then [x2c] else [])
      ++ raw_encode tr [] ++ [x5d]
      ++ decor_suffix d (snd default)
    | VInline items pre _ _ d _ =>
      let children := inline_values (S (value_size v)) [] items in
      let len := length children in
      decor_prefix d (fst default) ++ [x7b] ++ raw_encode pre []
      ++ (fix kvs_ (i : nat) (l : list (list key * value)) : bytes :=
            match l with
            | [] => []
            | (kp, e) :: tl =>
              (if Nat.eqb i 0 then [] else [x2c])
              ++ encode_key_path kp DEFAULT_INLINE_KEY_DECOR ++ [x3d]
              ++ encode_value f e (if Nat.eqb i (len - 1) then DEFAULT_TRAILING_VALUE_DECOR else DEFAULT_VALUE_DECOR)
              ++ kvs_ (S i) tl
            end) 0 children
      ++ [x7d] ++ decor_suffix d (snd default)
    end
  end.

(* Display for Value: encode_value(self, f, None, ("", "")) *)
Definition display_value (v : value) : bytes := encode_value (S (value_size v)) v ([], []).

(* visit_nested_tables: (table, path, is_array) in preorder, dotted tables skipped as entries *)
Fixpoint nested_tables (fuel : nat) (t : tbl) (path : list key) (is_array : bool)
  : list (tbl * list key * bool) :=
  match fuel with
  | O => []
  | S f =>
    (if t_dotted t then [] else [(t, path, is_array)])
    ++ flat_map (fun kv =>
                   match snd kv with
                   | ITable sub => nested_tables f sub (path ++ [fst kv]) false
                   | IAot ts _ => flat_map (fun sub => nested_tables f sub (path ++ [fst kv]) true) ts
                   | _ => []
                   end) (t_items t)
  end.

(* the `last_position` threading of Display for DocumentMut *)
Fixpoint assign_positions (last : N) (l : list (tbl * list key * bool)) : list (N * (tbl * list key * bool)) :=
  match l with
  | [] => []
  | ((t, p, a) as x) :: tl =>
    let pos := match t_position t with Some q => q | None => last end in
    (pos, x) :: assign_positions pos tl
  end.

(* stable sort by key (slice::sort_by_key is stable) *)
Fixpoint insert_sorted {A} (x : N * A) (l : list (N * A)) : list (N * A) :=
  match l with
  | [] => [x]
  | y :: tl => if (fst x <? fst y)%N then x :: l else y :: insert_sorted x tl
  end.
Definition stable_sort {A} (l : list (N * A)) : list (N * A) :=
  fold_left (fun acc x => insert_sorted x acc) l [].

(* visit_table: returns text and the updated first_table flag *)
Definition visit_table (t : tbl) (path : list key) (is_array : bool) (first_table : bool) : bytes * bool :=
  let children := table_values (S (tbl_size t)) [] (t_items t) in
  let no_children := match children with [] => true | _ => false end in
  let visible := negb (t_implicit t && no_children) in
  let header (open_ close_ : bytes) :=
      let default := if first_table then ([], snd DEFAULT_TABLE_DECOR) else DEFAULT_TABLE_DECOR in
      decor_prefix (t_decor t) (fst default) ++ encode_key_comments path ++ open_
      ++ encode_header_key_path path DEFAULT_KEY_PATH_DECOR ++ close_
      ++ decor_suffix (t_decor t) (snd default) ++ [x0a] in
  let '(head, first') :=
      match path with
      | [] => ([], if no_children then first_table else false)
      | _ => if is_array then (header [x5b; x5b] [x5d; x5d], false)
             else if visible then (header [x5b] [x5d], false)
             else ([], first_table)
      end in
  (head ++ flat_map (fun '(kp, v) =>
                       encode_key_path kp DEFAULT_KEY_DECOR ++ [x3d]
                       ++ encode_value (S (value_size v)) v DEFAULT_VALUE_DECOR ++ [x0a]) children,
   first').

Fixpoint visit_tables (l : list (N * (tbl * list key * bool))) (first_table : bool) : bytes :=
  match l with
  | [] => []
  | (_, (t, p, a)) :: tl =>
    let '(txt, first') := visit_table t p a first_table in
    txt ++ visit_tables tl first'
  end.

(* Display for DocumentMut *)
Definition display_document (root : tbl) (trailing : raw) : bytes :=
  let tables := nested_tables (S (tbl_size root)) root [] false in
  let sorted := stable_sort (assign_positions 0 tables) in
  decor_prefix (t_decor root) (fst DEFAULT_ROOT_DECOR)
  ++ visit_tables sorted true
  ++ decor_suffix (t_decor root) (snd DEFAULT_ROOT_DECOR)
  ++ raw_encode trailing [].
