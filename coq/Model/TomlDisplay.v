(* Model/TomlDisplay.v — what `Display for toml::Table` / `toml::to_string(&toml::Value)` hand to the printer of
   toml_edit, with CONCRETE leaves: the toml_edit document tree (Model/Tree.v) that
     crates/toml/src/value.rs   `impl Serialize for Value` (three loops over a table) /
     crates/toml/src/map.rs     `impl Serialize for Map<String, Value>` (one loop, map order)
     crates/toml_edit/src/ser   ValueSerializer (Value::from(leaf); Array::with_vec; InlineTable::with_pairs with Key::new;
                                serialize_f64 drops the sign of NaN: `v.copysign(1.0)`)
     crates/toml/src/ser.rs     write_document: Item::Value(v).into_table(), then
     crates/toml/src/fmt.rs     DocumentFormatter (visit_item_mut: into_table, else into_array_of_tables, else a value;
                                visit_table_mut: `if !node.is_empty() { node.set_implicit(true) }`; decor cleared)
   build, before `write!(dst, "{doc}")` prints it.  Same stages as Model/TomlValue.v (where leaves are opaque tokens and
   the result is the abstract `dt`); Proofs/TomlDisplayTie.v shows that forgetting the leaves turns `tv_doc` into that `dt`.
   A map is the list of its entries in the order the map iterates (BTreeMap: ascending keys; IndexMap: insertion order).
   Plain layout only (`to_string`, Display): in the pretty layout arrays of two and more elements get line breaks. *)
From TV Require Import Base.Prelude Base.Utf8 Base.Winnow Gen.Consts.
From TV Require Import Model.Datetime Model.Numbers Model.Tree Model.Parse Model.Write Model.Build.

(* toml::Value with concrete leaves (String | Integer | Float | Boolean | Datetime are `scalar`s; a float is the
   decimal its text denotes, as in Model/Build.v) *)
Inductive tvc : Type :=
| TvLeaf (s : scalar)
| TvArr (l : list tvc)
| TvTab (m : list (bytes * tvc)).

Definition tvc_is_table (v : tvc) : bool := match v with TvTab _ => true | _ => false end.
Definition tvc_is_array (v : tvc) : bool := match v with TvArr _ => true | _ => false end.

(* toml_edit::ser::ValueSerializer on a leaf: serialize_str / _i64 / _bool / Datetime -> Value::from(x);
   serialize_f64: `if v.is_nan() { v = v.copysign(1.0) }` *)
Definition ser_scalar (s : scalar) : scalar :=
  match s with SFloat (FNan _) => SFloat (FNan false) | _ => s end.

(* the tests of the three loops of `impl Serialize for Value` (Model/TomlValue.v pass1 / pass2 / pass3) *)
Definition c_any_table (v : tvc) : bool := match v with TvArr l => existsb tvc_is_table l | _ => false end.
Definition c_pass1 (v : tvc) : bool :=
  (negb (tvc_is_table v) && negb (tvc_is_array v)) || match v with TvArr l => negb (existsb tvc_is_table l) | _ => false end.
Definition c_pass2 (v : tvc) : bool := c_any_table v.
Definition c_pass3 (v : tvc) : bool := tvc_is_table v.

(* the entries a serializer hands over, in its order: `three` = the three loops, else map order *)
Definition in_order {A} (three : bool) (ent : list (bytes * tvc * A)) : list (bytes * A) :=
  let pick (p : tvc -> bool) := map (fun e => (fst (fst e), snd e)) (filter (fun e => p (snd (fst e))) ent) in
  if three then pick c_pass1 ++ pick c_pass2 ++ pick c_pass3 else pick (fun _ => true).

(* 1. ValueSerializer: the value as a toml_edit::Value (maps become inline tables, sequences arrays).
   DocumentFormatter leaves such a value as it is (it only clears decor, which is already empty). *)
Fixpoint tv_value (v : tvc) : value :=
  match v with
  | TvLeaf s => value_from (ser_scalar s)
  | TvArr l => array_from_iter (map tv_value l)                              (* Array::with_vec *)
  | TvTab m =>                                                                (* InlineTable::with_pairs, Key::new *)
    VInline (mk_inline_items
               (in_order true ((fix go (m : list (bytes * tvc)) : list (bytes * tvc * value) :=
                                  match m with
                                  | [] => []
                                  | (k, x) :: r => (k, x, tv_value x) :: go r
                                  end) m)))
            REmpty false false decor_default None
  end.

(* Item::into_array_of_tables: `!a.is_empty() && a.iter().all(|v| v.is_inline_table())` *)
Definition c_aot_able (l : list tvc) : bool := match l with [] => false | _ => forallb tvc_is_table l end.

(* 2. write_document / DocumentFormatter with is_value = false: a table value becomes a Table (implicit iff it
   is not empty), a non-empty array of tables an ArrayOfTables, anything else stays a value *)
Definition doc_tbl (m_nonempty : bool) (l : list (bytes * item)) : tbl :=
  Tbl (mk_tbl_items l) decor_default m_nonempty false None None.
Definition nonempty_b {A} (l : list A) : bool := match l with [] => false | _ => true end.

Fixpoint tv_item (v : tvc) : item :=
  match v with
  | TvLeaf _ => IValue (tv_value v)
  | TvTab m =>
    ITable (doc_tbl (nonempty_b m)
                    (in_order true ((fix go (m : list (bytes * tvc)) : list (bytes * tvc * item) :=
                                       match m with
                                       | [] => []
                                       | (k, x) :: r => (k, x, tv_item x) :: go r
                                       end) m)))
  | TvArr l =>
    if c_aot_able l
    then IAot ((fix go (l : list tvc) : list tbl :=
                  match l with
                  | [] => []
                  | x :: r => match tv_item x with ITable t => t :: go r | _ => go r end
                  end) l) None
    else IValue (tv_value v)
  end.

(* the root: `three` = toml::Value (three loops at the root too), else toml::Table (Display for Table: map order
   at the root, Values below) *)
Definition tv_doc (three : bool) (m : list (bytes * tvc)) : tbl :=
  doc_tbl (nonempty_b m) (in_order three (map (fun kv => (fst kv, snd kv, tv_item (snd kv))) m)).

(* ---- what comes back ---------------------------------------------------------------------------------------
   the abstract tree of a parsed document as a toml::Value: arrays of tables are arrays, inline tables tables *)
Fixpoint tvc_of_aval (a : aval) : tvc :=
  match a with
  | AScalar s => TvLeaf s
  | AArr l => TvArr (map tvc_of_aval l)
  | AInl l => TvTab (map (fun kv => (fst kv, tvc_of_aval (snd kv))) l)
  end.
Fixpoint tvc_of_anode (n : anode) : tvc :=
  match n with
  | AVal a => tvc_of_aval a
  | ATbl l => TvTab (map (fun kv => (fst kv, tvc_of_anode (snd kv))) l)
  | AAot ls => TvArr (map (fun l => TvTab (map (fun kv => (fst kv, tvc_of_anode (snd kv))) l)) ls)
  end.
Definition tvc_of_entries (l : list (bytes * anode)) : list (bytes * tvc) :=
  map (fun kv => (fst kv, tvc_of_anode (snd kv))) l.

(* the order in which the entries come back (order of appearance in the text = the order an insertion-ordered
   map keeps; a BTreeMap sorts them again):
   inside a value, a table lists its entries in three-loop order;
   a table written with headers lists its key/value lines first (plain values, then arrays that hold tables
   but are not arrays of tables), then its arrays of tables and sub-tables in the serializer's order *)
Fixpoint val_order (v : tvc) : tvc :=
  match v with
  | TvLeaf s => TvLeaf (ser_scalar s)
  | TvArr l => TvArr (map val_order l)
  | TvTab m =>
    TvTab (in_order true ((fix go (m : list (bytes * tvc)) : list (bytes * tvc * tvc) :=
                             match m with
                             | [] => []
                             | (k, x) :: r => (k, x, val_order x) :: go r
                             end) m))
  end.

Definition c_is_line (v : tvc) : bool :=
  match v with TvLeaf _ => true | TvArr l => negb (c_aot_able l) | TvTab _ => false end.

Fixpoint tab_order (v : tvc) : tvc :=
  match v with
  | TvLeaf s => TvLeaf (ser_scalar s)
  | TvArr l => if c_aot_able l then TvArr (map tab_order l) else val_order v
  | TvTab m =>
    let ent := (fix go (m : list (bytes * tvc)) : list (bytes * tvc * tvc) :=
                  match m with
                  | [] => []
                  | (k, x) :: r => (k, x, tab_order x) :: go r
                  end) m in
    TvTab (in_order true (filter (fun e => c_is_line (snd (fst e))) ent)
           ++ in_order true (filter (fun e => negb (c_is_line (snd (fst e)))) ent))
  end.
Definition root_order (three : bool) (m : list (bytes * tvc)) : list (bytes * tvc) :=
  let ent := map (fun kv => (fst kv, snd kv, tab_order (snd kv))) m in
  in_order three (filter (fun e => c_is_line (snd (fst e))) ent)
  ++ in_order three (filter (fun e => negb (c_is_line (snd (fst e)))) ent).

(* nesting: tables and arrays count alike (header paths and inline values share the parser's limit) *)
Fixpoint tvc_depth (v : tvc) : nat :=
  match v with
  | TvLeaf _ => 0
  | TvArr l => S (fold_right (fun x acc => Nat.max (tvc_depth x) acc) 0 l)
  | TvTab m => S (fold_right (fun kv acc => Nat.max (tvc_depth (snd kv)) acc) 0 m)
  end.
