(* Model/DatetimeStd.v — crates/toml_datetime/src/datetime.rs: `impl FromStr for Datetime`
   and the four `Display` impls, transcribed.

   The Rust code walks `chars()`; the model walks bytes.  For valid UTF-8 input the two
   coincide: every character the code consumes must be an ASCII digit or one of
   `- : . T t Z z + space`, so a non-ASCII character is rejected at the same step as its
   lead byte is here, and `chars().nth(2)` is byte 2 whenever the first two characters are
   ASCII (otherwise both branches fail at `digit`). *)
From TV Require Import Base.Prelude Base.Utf8 Gen.Consts Model.Datetime.

(* a cursor monad over the remaining bytes; None = DatetimeParseError *)
Definition sp (A : Type) := bytes -> option (A * bytes).
Definition sret {A} (a : A) : sp A := fun s => Some (a, s).
Definition sbind {A B} (p : sp A) (f : A -> sp B) : sp B :=
  fun s => match p s with Some (a, r) => f a r | None => None end.
Definition sfail {A} : sp A := fun _ => None.

Declare Scope sp_scope.
Delimit Scope sp_scope with sp.
Notation "x <~ p ;; q" := (sbind p (fun x => q))
  (at level 61, p at next level, right associativity) : sp_scope.
Notation "p ~;; q" := (sbind p (fun _ => q))
  (at level 61, right associativity) : sp_scope.
Open Scope sp_scope.

(* fn digit(chars) *)
Definition sdigit : sp N :=
  fun s => match s with
           | b :: r => if is_digit b then Some (digit_val b, r) else None
           | [] => None
           end.
(* match chars.next() { Some(c) => {} _ => return Err } *)
Definition sexpect (c : byte) : sp unit :=
  fun s => match s with
           | b :: r => if byte_eqb b c then Some (tt, r) else None
           | [] => None
           end.
(* chars.clone().next() *)
Definition speek : sp (option byte) :=
  fun s => Some (match s with b :: _ => Some b | [] => None end, s).
Definition snext : sp unit := fun s => Some (tt, tl s).

Definition two : sp N := a <~ sdigit ;; b <~ sdigit ;; sret (a * 10 + b)%N.

Definition std_date : sp date :=
  y1 <~ sdigit ;; y2 <~ sdigit ;; y3 <~ sdigit ;; y4 <~ sdigit ;;
  sexpect dash ~;;
  m <~ two ;;
  sexpect dash ~;;
  d <~ two ;;
  let y := (y1 * 1000 + y2 * 100 + y3 * 10 + y4)%N in
  if (m <? SD_MONTH_MIN)%N || (SD_MONTH_MAX <? m)%N then sfail
  else if (d <? SD_DAY_MIN)%N || (max_days SD_MAXDAYS m (is_leap_year y) <? d)%N then sfail
  else sret (mkDate y m d).

(* the fractional-second loop: digits are accumulated with weights 10^(8-i) for i < 9,
   further digits are skipped; `end == 0` is an error *)
Fixpoint frac_loop (i : nat) (acc : N) (s : bytes) : N * nat * bytes :=
  match s with
  | b :: r =>
    if is_digit b
    then frac_loop (S i) (if Nat.ltb i 9 then acc + 10 ^ (8 - N.of_nat i) * digit_val b else acc)%N r
    else (acc, i, s)
  | [] => (acc, i, s)
  end.

Definition std_time : sp time :=
  h <~ two ;;
  sexpect colon ~;;
  mi <~ two ;;
  sexpect colon ~;;
  sec <~ two ;;
  nx <~ speek ;;
  ns <~ (match nx with
         | Some b =>
           if byte_eqb b dot
           then snext ~;; (fun s => let '(acc, n, r) := frac_loop 0 0%N s in
                                   if Nat.eqb n 0 then None else Some (acc, r))
           else sret 0%N
         | None => sret 0%N
         end) ;;
  if (SD_HOUR_MAX <? h)%N then sfail
  else if (SD_MINUTE_MAX <? mi)%N then sfail
  else if (SD_SECOND_MAX <? sec)%N then sfail
  else if (SD_NANO_MAX <? ns)%N then sfail
  else sret (mkTime h mi sec ns).

Definition std_offset : sp (option offset) :=
  nx <~ speek ;;
  match nx with
  | None => sret None
  | Some b =>
    if byte_eqb b x5a || byte_eqb b x7a then snext ~;; sret (Some OffZ)
    else
      sign <~ (if byte_eqb b plus then sret 1%Z else if byte_eqb b dash then sret (-1)%Z else sfail) ;;
      snext ~;;
      hours <~ two ;;
      sexpect colon ~;;
      minutes <~ two ;;
      if (SD_OFFSET_HOUR_MAX <? hours)%N || (SD_OFFSET_MINUTE_MAX <? minutes)%N then sfail
      else
        let total := (sign * Z.of_N (hours * 60 + minutes))%Z in
        if (SD_OFFSET_MIN <=? total)%Z && (total <=? SD_OFFSET_MAX)%Z
        then sret (Some (OffCustom total)) else sfail
  end.

(* impl FromStr for Datetime *)
Definition std_from_str (s : bytes) : option datetime :=
  if Nat.ltb (length s) SD_MIN_LEN then None
  else
    let time_only := match nth_error s 2 with Some b => byte_eqb b colon | None => false end in
    let run : sp datetime :=
      (if time_only
       then t <~ std_time ;; sret (mkDT None (Some t) None)
       else
         d <~ std_date ;;
         nx <~ speek ;;
         match nx with
         | Some b =>
           if byte_eqb b x54 || byte_eqb b x74 || byte_eqb b x20
           then snext ~;; t <~ std_time ;; off <~ std_offset ;; sret (mkDT (Some d) (Some t) off)
           else sret (mkDT (Some d) None None)
         | None => sret (mkDT (Some d) None None)
         end) in
    match run s with
    | Some (dt, []) => Some dt
    | _ => None
    end.

(* ---- Display ---------------------------------------------------------------------- *)
(* {:0w} for an unsigned number: at least w digits, zero padded *)
Fixpoint digits_rev (fuel : nat) (n : N) : bytes :=
  match fuel with
  | O => []
  | S f => if (n <? 10)%N then [digit_byte n] else digit_byte (n mod 10) :: digits_rev f (n / 10)
  end.
Definition dec_digits (n : N) : bytes := rev (digits_rev 40 n).
Definition pad0 (w : nat) (n : N) : bytes :=
  let d := dec_digits n in repeat x30 (w - length d) ++ d.

Fixpoint trim_end_zeros_rev (s : bytes) : bytes :=
  match s with
  | b :: r => if byte_eqb b x30 then trim_end_zeros_rev r else s
  | [] => []
  end.
Definition trim_end_zeros (s : bytes) : bytes := rev (trim_end_zeros_rev (rev s)).

Definition display_date (d : date) : bytes :=
  pad0 4 (year d) ++ [dash] ++ pad0 2 (month d) ++ [dash] ++ pad0 2 (day d).
Definition display_time (t : time) : bytes :=
  pad0 2 (hour t) ++ [colon] ++ pad0 2 (minute t) ++ [colon] ++ pad0 2 (second t)
  ++ (if (nanosecond t =? 0)%N then [] else dot :: trim_end_zeros (pad0 9 (nanosecond t))).
Definition display_offset (o : offset) : bytes :=
  match o with
  | OffZ => [x5a]
  | OffCustom m =>
    let sign := if (m <? 0)%Z then dash else plus in
    let a := Z.to_N (Z.abs m) in
    sign :: pad0 2 (a / 60) ++ [colon] ++ pad0 2 (a mod 60)
  end.
Definition display_datetime (d : datetime) : bytes :=
  (match d_date d with Some x => display_date x | None => [] end)
  ++ (match d_time d with
      | Some t => (match d_date d with Some _ => [x54] | None => [] end) ++ display_time t
      | None => [] end)
  ++ (match d_offset d with Some o => display_offset o | None => [] end).
