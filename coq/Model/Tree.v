(* Model/Tree.v — the document tree of toml_edit: RawString, Decor, Repr, Key, Formatted<T>,
   Value, Array, InlineTable, Item, Table, ArrayOfTables (crates/toml_edit/src/{raw_string,
   repr,key,value,array,inline_table,item,table,array_of_tables}.rs).
   IndexMap<Key, Item> is an association list in insertion order; keys compare by their
   decoded text only (key.rs: impl PartialEq/Hash for Key). *)
From TV Require Import Base.Prelude Base.Utf8 Base.Winnow Model.Datetime Model.Numbers.

Definition ospan := option (N * N).

(* raw_string.rs: RawStringInner *)
Inductive raw : Set := REmpty | RExplicit (s : bytes) | RSpanned (a b : N).

(* RawString::with_span *)
Definition raw_with_span (sp : N * N) : raw :=
  if (fst sp =? snd sp)%N then REmpty else RSpanned (fst sp) (snd sp).
(* From<&str> for RawString *)
Definition raw_of_bytes (s : bytes) : raw := match s with [] => REmpty | _ => RExplicit s end.
Definition raw_span (r : raw) : ospan := match r with RSpanned a b => Some (a, b) | _ => None end.

(* repr.rs: Decor *)
Record decor : Set := mkDecor { d_prefix : option raw; d_suffix : option raw }.
Definition decor_default : decor := mkDecor None None.
Definition decor_new (p s : raw) : decor := mkDecor (Some p) (Some s).

(* key.rs: Key *)
Record key : Set := mkKey { k_key : bytes; k_repr : option raw; k_leaf : decor; k_dotted : decor }.
Definition key_eqb (a b : key) : bool := bytes_eqb (k_key a) (k_key b).

Inductive scalar : Set :=
| SString (s : bytes) | SInt (z : Z) | SFloat (f : fval) | SBool (b : bool) | SDatetime (d : datetime).

Inductive value : Set :=
| VScalar (s : scalar) (repr : option raw) (dec : decor)                      (* Formatted<T> *)
| VArray (vals : list item) (trailing : raw) (trailing_comma : bool) (dec : decor) (span : ospan)
| VInline (items : list (key * item)) (preamble : raw) (implicit dotted : bool) (dec : decor) (span : ospan)
with item : Set :=
| INone
| IValue (v : value)
| ITable (t : tbl)
| IAot (ts : list tbl) (span : ospan)
with tbl : Set :=
| Tbl (items : list (key * item)) (dec : decor) (implicit dotted : bool) (position : option N) (span : ospan).

Definition t_items (t : tbl) := let 'Tbl i _ _ _ _ _ := t in i.
Definition t_decor (t : tbl) := let 'Tbl _ d _ _ _ _ := t in d.
Definition t_implicit (t : tbl) := let 'Tbl _ _ i _ _ _ := t in i.
Definition t_dotted (t : tbl) := let 'Tbl _ _ _ d _ _ := t in d.
Definition t_position (t : tbl) := let 'Tbl _ _ _ _ p _ := t in p.
Definition t_span (t : tbl) := let 'Tbl _ _ _ _ _ s := t in s.
Definition t_set_items (t : tbl) (i : list (key * item)) := let 'Tbl _ d im dt p s := t in Tbl i d im dt p s.
Definition t_set_span (t : tbl) (s : ospan) := let 'Tbl i d im dt p _ := t in Tbl i d im dt p s.

(* Table::new() / Default *)
Definition tbl_new : tbl := Tbl [] decor_default false false None None.
(* InlineTable::new() *)
Definition inline_new : value := VInline [] REmpty false false decor_default None.

(* Value::span / Item::span *)
Definition value_span (v : value) : ospan :=
  match v with
  | VScalar _ r _ => match r with Some x => raw_span x | None => None end
  | VArray _ _ _ _ sp => sp
  | VInline _ _ _ _ _ sp => sp
  end.
Definition item_span (it : item) : ospan :=
  match it with
  | INone => None
  | IValue v => value_span v
  | ITable t => t_span t
  | IAot _ sp => sp
  end.

(* Value::decorate *)
Definition value_decorate (v : value) (p s : raw) : value :=
  match v with
  | VScalar x r _ => VScalar x r (decor_new p s)
  | VArray a t c _ sp => VArray a t c (decor_new p s) sp
  | VInline i pr im dt _ sp => VInline i pr im dt (decor_new p s) sp
  end.

(* Value::type_name *)
Definition value_is_inline (v : value) : bool := match v with VInline _ _ _ _ _ _ => true | _ => false end.

(* ---- IndexMap<Key, Item> as an association list ------------------------------------- *)
Definition kvs := list (key * item).

Fixpoint kv_get (m : kvs) (k : bytes) : option (key * item) :=
  match m with
  | [] => None
  | (k', v) :: tl => if bytes_eqb (k_key k') k then Some (k', v) else kv_get tl k
  end.
(* replace the item stored under k (keeps position and stored key) *)
Fixpoint kv_set (m : kvs) (k : bytes) (v : item) : kvs :=
  match m with
  | [] => []
  | (k', v') :: tl => if bytes_eqb (k_key k') k then (k', v) :: tl else (k', v') :: kv_set tl k v
  end.
(* IndexMap::insert on a vacant entry: append *)
Definition kv_push (m : kvs) (k : key) (v : item) : kvs := m ++ [(k, v)].
(* IndexMap::shift_remove *)
Fixpoint kv_remove (m : kvs) (k : bytes) : kvs :=
  match m with
  | [] => []
  | (k', v) :: tl => if bytes_eqb (k_key k') k then tl else (k', v) :: kv_remove tl k
  end.

Definition item_is_none (it : item) : bool := match it with INone => true | _ => false end.
(* Table::is_empty: no non-None item *)
Definition tbl_is_empty (t : tbl) : bool := forallb (fun kv => item_is_none (snd kv)) (t_items t).

(* ---- despan: replace every Spanned raw string by the text it covers ------------------ *)
Definition slice (s : bytes) (a b : N) : bytes := firstn (N.to_nat (b - a)) (skipn (N.to_nat a) s).

(* str::get(range): None when out of bounds, reversed or off a char boundary *)
Definition str_get (s : bytes) (a b : N) : option bytes :=
  if ((a <=? b) && (b <=? N.of_nat (length s)) && char_boundary_b s a && char_boundary_b s b)%N
  then Some (slice s a b) else None.

Definition raw_despan (s : bytes) (r : raw) : option raw :=
  match r with
  | RSpanned a b => match str_get s a b with Some t => Some (raw_of_bytes t) | None => None end
  | _ => Some r
  end.
