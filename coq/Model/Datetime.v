(* Model/Datetime.v — crates/toml_edit/src/parser/datetime.rs transcribed with the
   mini-winnow combinators; constants come from the generated Gen/Consts.v. *)
From TV Require Import Base.Prelude Base.Utf8 Base.Winnow Gen.Consts.

Record date : Set := mkDate { year : N; month : N; day : N }.
Record time : Set := mkTime { hour : N; minute : N; second : N; nanosecond : N }.
Inductive offset : Set := OffZ | OffCustom (minutes : Z).
Record datetime : Set := mkDT { d_date : option date; d_time : option time; d_offset : option offset }.

(* str::parse::<uN>() on the digit run handed over by unsigned_digits *)
Definition parse_unsigned (bits : N) (s : bytes) : option N :=
  match s with
  | [] => None
  | _ => if forallb is_digit s
         then let v := dec_value s in if (v <? 2 ^ bits)%N then Some v else None
         else None
  end.

(* datetime.rs: unsigned_digits::<MIN, MAX> *)
Definition unsigned_digits (m : nat) (n : option nat) : parser bytes :=
  unchecked_utf8 20 (take_while_mn m n (in_class DT_DIGIT)).

(* datetime.rs: date_fullyear *)
Definition date_fullyear : parser N :=
  try_map (fun s => match parse_unsigned 16 s with Some v => TmOk v | None => TmPanic P_expect_digits end)
          (unsigned_digits 4 (Some 4)).

Definition two_digit_field (lo hi : N) : parser N :=
  try_map (fun s => match parse_unsigned 8 s with
                    | None => TmPanic P_expect_digits
                    | Some d => if (lo <=? d)%N && (d <=? hi)%N then TmOk d else TmErr OutOfRange
                    end)
          (unsigned_digits 2 (Some 2)).

Definition date_month : parser N := two_digit_field DT_MONTH_MIN DT_MONTH_MAX.
Definition date_mday : parser N := two_digit_field DT_MDAY_MIN DT_MDAY_MAX.
Definition time_hour : parser N := two_digit_field DT_HOUR_MIN DT_HOUR_MAX.
Definition time_minute : parser N := two_digit_field DT_MINUTE_MIN DT_MINUTE_MAX.
Definition time_second : parser N := two_digit_field DT_SECOND_MIN DT_SECOND_MAX.

Definition is_leap_year (y : N) : bool :=
  ((y mod 4 =? 0) && (negb (y mod 100 =? 0) || (y mod 400 =? 0)))%N.

(* the `match month { 2 if is_leap_year => 29, 2 => 28, 4 | 6 | 9 | 11 => 30, _ => 31 }` table *)
Fixpoint max_days (tbl : list (N * bool * N)) (m : N) (leap : bool) : N :=
  match tbl with
  | [] => 0%N
  | (mm, needs_leap, days) :: tl =>
    if ((mm =? 0) || (mm =? m))%N && (negb needs_leap || leap) then days else max_days tl m leap
  end.

Definition dash : byte := x2d.
Definition colon : byte := x3a.
Definition dot : byte := x2e.
Definition plus : byte := x2b.

(* datetime.rs: full_date_ *)
Definition full_date : parser date :=
  fun i =>
  (y <- date_fullyear ;;
   byte_ dash ;;;
   m <- cut_err date_month ;;
   cut_err (byte_ dash) ;;;
   (fun day_start =>
      (d <- cut_err date_mday ;;
       if (max_days DT_MAXDAYS m (is_leap_year y) <? d)%N
       then (fun _ => Cut (err_of OutOfRange) day_start)
       else ret (mkDate y m d)) day_start)) i.

(* datetime.rs: time_secfrac *)
Definition secfrac_value (repr : bytes) : tm N :=
  let max_digits := (length DT_SCALE - 1)%nat in
  let repr := if Nat.ltb max_digits (length repr) then firstn max_digits repr else repr in
  match parse_unsigned 32 repr with
  | None => TmErr OutOfRange
  | Some v =>
    match nth_error DT_SCALE (length repr) with
    | None => TmErr OutOfRange
    | Some scale => if (v * scale <? 2 ^ 32)%N then TmOk (v * scale)%N else TmErr OutOfRange
    end
  end.
Definition time_secfrac : parser N :=
  try_map secfrac_value (preceded (byte_ dot) (unsigned_digits 1 None)).

(* datetime.rs: partial_time *)
Definition partial_time : parser time :=
  h <- time_hour ;;
  byte_ colon ;;;
  cut_err (mi <- time_minute ;;
           byte_ colon ;;;
           s <- time_second ;;
           ns <- opt time_secfrac ;;
           ret (mkTime h mi s (match ns with Some n => n | None => 0%N end))).

(* datetime.rs: time_offset *)
Definition time_offset : parser offset :=
  context
    (pvalue OffZ (one_of (fun b => byte_eqb b x5a || byte_eqb b x7a))
     <|>
     pmap OffCustom
       (verify (fun mins => (DT_OFFSET_MIN <=? mins)%Z && (mins <=? DT_OFFSET_MAX)%Z)
          (sign <- one_of (fun b => byte_eqb b plus || byte_eqb b dash) ;;
           '(h, mi) <- cut_err (h <- time_hour ;; byte_ colon ;;; mi <- time_minute ;; ret (h, mi)) ;;
           if byte_eqb sign plus then ret (Z.of_N (h * 60 + mi))
           else if byte_eqb sign dash then ret (- Z.of_N (h * 60 + mi))%Z
           else (fun _ => Panic P_unreachable_sign)))).

Definition time_delim : parser byte := one_of (in_class TIME_DELIM).

(* datetime.rs: date_time *)
Definition date_time : parser datetime :=
  context
    (d <- full_date ;;
     o <- opt (time_delim ;;; t <- partial_time ;; off <- opt time_offset ;; ret (t, off)) ;;
     ret (match o with
          | Some (t, off) => mkDT (Some d) (Some t) off
          | None => mkDT (Some d) None None
          end))
  <|>
  context (pmap (fun t => mkDT None (Some t) None) partial_time).

(* the document grammar's date-time as reached through `Value::from_str` (value.rs: the
   `b'+' | b'-' | b'0'..=b'9'` arm tries date_time first; Parser::parse then requires eof).
   Proofs/ValueDatetime.v relates this to the full value parser. *)
Definition doc_datetime (s : bytes) : option datetime :=
  match s with
  | b :: _ =>
    if in_class VALUE_NUMBER_START b then
      match date_time (new_input s) with
      | Ok d i => match rest i with [] => Some d | _ => None end
      | _ => None
      end
    else None
  | [] => None
  end.

