(* Model/Document.v — crates/toml_edit/src/parser/{state,document,table,mod}.rs *)
From TV Require Import Base.Prelude Base.Utf8 Base.Winnow Gen.Consts.
From TV Require Import Model.Trivia Model.Strings Model.Datetime Model.Numbers Model.Tree Model.Parse.

(* ---- state.rs --------------------------------------------------------------------------- *)
Record pstate : Set := mkState {
  st_root : tbl;
  st_trailing : ospan;
  st_position : N;                (* current_table_position *)
  st_current : tbl;               (* current_table *)
  st_is_array : bool;             (* current_is_array *)
  st_path : list key              (* current_table_path *)
}.

(* ParseState::new *)
Definition state_new : pstate :=
  mkState tbl_new None 0 (t_set_span tbl_new (Some (0, 0)%N)) false [].

(* on_ws / on_comment *)
Definition on_ws (st : pstate) (sp : N * N) : pstate :=
  mkState (st_root st)
          (match st_trailing st with Some old => Some (fst old, snd sp) | None => Some sp end)
          (st_position st) (st_current st) (st_is_array st) (st_path st).

(* ParseState::descend_path, in "zipper" form: apply f to the table reached through `path`
   below t and rebuild.  Entries created on the way are implicit tables (dotted as given). *)
Fixpoint with_table_at {X : Type} (t : tbl) (path : list key) (dotted : bool)
         (f : tbl -> cres (tbl * X)) : cres (tbl * X) :=
  match path with
  | [] => f t
  | k :: ptl =>
    match kv_get (t_items t) (k_key k) with
    | None =>
      match with_table_at (Tbl [] decor_default true dotted None None) ptl dotted f with
      | COk (sub, x) => COk (t_set_items t (kv_push (t_items t) k (ITable sub)), x)
      | CErr c => CErr c
      | CPanic s => CPanic s
      end
    | Some (_, IValue _) => CErr ExtendWrongType
    | Some (_, IAot ts sp) =>
      (* a dotted key may not reach through an array of tables (i + 1 < path.len()) *)
      if dotted && (match ptl with [] => false | _ => true end) then CErr DuplicateKey else
      match rev ts with
      | [] => CPanic P_aot_empty
      | last :: rinit =>
        match with_table_at last ptl dotted f with
        | COk (last', x) => COk (t_set_items t (kv_set (t_items t) (k_key k) (IAot (rev (last' :: rinit)) sp)), x)
        | CErr c => CErr c
        | CPanic s => CPanic s
        end
      end
    | Some (_, ITable sub) =>
      if dotted && negb (t_implicit sub) then CErr DuplicateKey
      else match with_table_at sub ptl dotted f with
           | COk (sub', x) => COk (t_set_items t (kv_set (t_items t) (k_key k) (ITable sub')), x)
           | CErr c => CErr c
           | CPanic s => CPanic s
           end
    | Some (_, INone) => CPanic P_item_none
    end
  end.

Definition union_span (a b : ospan) : ospan :=
  match a, b with Some x, Some y => Some (fst x, snd y) | _, _ => None end.

(* on_keyval *)
Definition on_keyval (st : pstate) (path : list key) (k : key) (v : item) : cres pstate :=
  let kpre := match d_prefix (k_leaf k) with Some r => raw_span r | None => None end in
  let prefix := match st_trailing st, kpre with
                | Some p, Some kk => Some (fst p, snd kk)
                | Some p, None => Some p
                | None, Some p => Some p
                | None, None => None
                end in
  let k' := set_leaf k (mkDecor (Some (match prefix with Some sp => raw_with_span sp | None => REmpty end))
                                (d_suffix (k_leaf k))) in
  let cur := match t_span (st_current st), item_span v with
             | Some e, Some vs => t_set_span (st_current st) (Some (fst e, snd vs))
             | _, _ => st_current st
             end in
  let path_empty := match path with [] => true | _ => false end in
  match with_table_at cur path true
          (fun table =>
             if Bool.eqb (t_dotted table) path_empty then CErr DuplicateKey
             else match kv_get (t_items table) (k_key k') with
                  | None => COk (t_set_items table (kv_push (t_items table) k' v), tt)
                  | Some _ => CErr DuplicateKey
                  end) with
  | COk (cur', _) => COk (mkState (st_root st) None (st_position st) cur' (st_is_array st) (st_path st))
  | CErr c => CErr c
  | CPanic s => CPanic s
  end.

(* state.rs descend_path: a table made of dotted keys spans from its first key to the end of its
   last value.  The Rust code widens the spans while descending; here it is a separate pass over the
   same path after the (unchanged) insertion `on_keyval`, which gives the same tree on success. *)
Fixpoint set_dotted_spans (t : tbl) (path : list key) (value_end : option N) : tbl :=
  match path with
  | [] => t
  | k :: ptl =>
    match kv_get (t_items t) (k_key k) with
    | Some (_, ITable sub) =>
      let sub1 := if t_dotted sub
                  then match key_span k, value_end with
                       | Some ks, Some e => t_set_span sub (widen (t_span sub) ks e)
                       | _, _ => sub end
                  else sub in
      t_set_items t (kv_set (t_items t) (k_key k) (ITable (set_dotted_spans sub1 ptl value_end)))
    | _ => t
    end
  end.

(* on_keyval as in the source = insertion + span bookkeeping of dotted tables *)
Definition on_keyval_sp (st : pstate) (path : list key) (k : key) (v : item) : cres pstate :=
  match on_keyval st path k v with
  | COk st' => COk (mkState (st_root st') (st_trailing st') (st_position st')
                            (set_dotted_spans (st_current st') path (item_end v))
                            (st_is_array st') (st_path st'))
  | e => e
  end.

(* finalize_table *)
Definition finalize_table (st : pstate) : cres pstate :=
  let table := st_current st in
  let path := st_path st in
  let done root := COk (mkState root (st_trailing st) (st_position st) tbl_new (st_is_array st) []) in
  match pop_key path with
  | None =>
    if tbl_is_empty (st_root st) then done table else CPanic P_root_not_empty
  | Some (ppath, k) =>
    if st_is_array st then
      match with_table_at (st_root st) ppath false
              (fun parent =>
                 match kv_get (t_items parent) (k_key k) with
                 | None => COk (t_set_items parent (kv_push (t_items parent) k (IAot [table] (union_span (t_span table) (t_span table)))), tt)
                 | Some (_, IAot ts _) =>
                   let ts' := ts ++ [table] in
                   let sp := match ts' with
                             | first :: _ => union_span (t_span first) (t_span table)
                             | [] => None
                             end in
                   COk (t_set_items parent (kv_set (t_items parent) (k_key k) (IAot ts' sp)), tt)
                 | Some _ => CErr DuplicateKey
                 end) with
      | COk (root', _) => done root'
      | CErr c => CErr c
      | CPanic s => CPanic s
      end
    else
      match with_table_at (st_root st) ppath false
              (fun parent =>
                 match kv_get (t_items parent) (k_key k) with
                 | Some (_, ITable t) =>
                   if t_implicit t then COk (t_set_items parent (kv_set (t_items parent) (k_key k) (ITable table)), tt)
                   else CErr DuplicateKey
                 | Some _ => CErr DuplicateKey
                 | None => COk (t_set_items parent (kv_push (t_items parent) k (ITable table)), tt)
                 end) with
      | COk (root', _) => done root'
      | CErr c => CErr c
      | CPanic s => CPanic s
      end
  end.

Definition open_table (st : pstate) (root' : tbl) (current : tbl) (path : list key) (dec : decor)
           (sp : N * N) (is_array : bool) : pstate :=
  let position := (st_position st + 1)%N in
  mkState root' (st_trailing st) position
          (Tbl (t_items current) dec false false (Some position) (Some sp))
          is_array path.

(* start_table *)
Definition start_table (st : pstate) (path : list key) (dec : decor) (sp : N * N) : cres pstate :=
  if negb (tbl_is_empty (st_current st)) then CPanic (P_debug_assert 1)
  else match st_path st with _ :: _ => CPanic (P_debug_assert 2) | [] =>
  match pop_key path with
  | None => CPanic (P_debug_assert 0)
  | Some (ppath, k) =>
    match with_table_at (st_root st) ppath false
            (fun parent =>
               match kv_get (t_items parent) (k_key k) with
               | None => COk (parent, None)
               | Some (_, ITable t) =>
                 if t_implicit t && negb (t_dotted t)
                 then COk (t_set_items parent (kv_remove (t_items parent) (k_key k)), Some t)
                 else CErr DuplicateKey
               | Some _ => CErr DuplicateKey
               end) with
    | COk (root', taken_) =>
      let current := match taken_ with Some t => t | None => st_current st end in
      COk (open_table st root' current path dec sp false)
    | CErr c => CErr c
    | CPanic s => CPanic s
    end
  end end.

(* start_array_table *)
Definition start_array_table (st : pstate) (path : list key) (dec : decor) (sp : N * N) : cres pstate :=
  if negb (tbl_is_empty (st_current st)) then CPanic (P_debug_assert 1)
  else match st_path st with _ :: _ => CPanic (P_debug_assert 2) | [] =>
  match pop_key path with
  | None => CPanic (P_debug_assert 0)
  | Some (ppath, k) =>
    match with_table_at (st_root st) ppath false
            (fun parent =>
               match kv_get (t_items parent) (k_key k) with
               | None => COk (t_set_items parent (kv_push (t_items parent) k (IAot [] None)), tt)
               | Some (_, IAot _ _) => COk (parent, tt)
               | Some _ => CErr DuplicateKey
               end) with
    | COk (root', _) => COk (open_table st root' (st_current st) path dec sp true)
    | CErr c => CErr c
    | CPanic s => CPanic s
    end
  end end.

Definition take_trailing (st : pstate) : pstate * raw :=
  (mkState (st_root st) None (st_position st) (st_current st) (st_is_array st) (st_path st),
   match st_trailing st with Some sp => raw_with_span sp | None => REmpty end).

(* on_std_header / on_array_header *)
Definition on_header (is_array : bool) (st : pstate) (path : list key) (trailing sp : N * N) : cres pstate :=
  match path with
  | [] => CPanic (P_debug_assert 0)
  | _ =>
    match finalize_table st with
    | COk st1 =>
      let '(st2, leading) := take_trailing st1 in
      let dec := decor_new leading (raw_with_span trailing) in
      if is_array then start_array_table st2 path dec sp else start_table st2 path dec sp
    | e => e
    end
  end.

(* ---- document.rs / table.rs -------------------------------------------------------------- *)
Definition lift_state {A} (r : cres A) : tm A :=
  match r with COk a => TmOk a | CErr c => TmErr c | CPanic s => TmPanic s end.

(* document.rs: parse_keyval *)
Definition parse_keyval : parser (list key * (key * item)) :=
  kp <- key_ ;;
  '(pre, v, suf) <- cut_err (context (byte_ KEYVAL_SEP) ;;;
                             pre <- span_ ws ;; v <- value_ ;; suf <- context line_trailing ;; ret (pre, v, suf)) ;;
  match pop_key kp with
  | None => fun _ => Panic P_key_path_empty
  | Some (path, k) =>
    ret (path, (k, IValue (value_decorate v (raw_with_span pre) (raw_with_span suf))))
  end.

(* document.rs: keyval(state) *)
Definition keyval (st : pstate) : parser pstate :=
  try_map (fun '(p, (k, v)) => lift_state (on_keyval_sp st p k v)) parse_keyval.

(* table.rs: std_table / array_table *)
Definition header (is_array : bool) (st : pstate) : parser pstate :=
  let open_ := if is_array then pvoid (lit ARRAY_TABLE_OPEN) else pvoid (byte_ STD_TABLE_OPEN) in
  let close_ := if is_array then pvoid (lit ARRAY_TABLE_CLOSE) else pvoid (byte_ STD_TABLE_CLOSE) in
  try_map (fun '((h, sp), t) => lift_state (on_header is_array st h t sp))
    (pair_ (with_span (delimited open_ (cut_err key_) (context (cut_err close_))))
           (context (cut_err line_trailing))).

(* table.rs: table — dispatch!(peek(take(2)); b"[[" => array_table, _ => std_table).context(..) *)
Definition table (st : pstate) : parser pstate :=
  context
    (two <- peek (take_n 2) ;;
     if bytes_eqb two [x5b; x5b] then header true st else header false st).

(* document.rs: parse_comment / parse_ws / parse_newline *)
Definition parse_comment (st : pstate) : parser pstate :=
  pmap (on_ws st) (span_ (comment ;;; context line_ending)).
Definition parse_ws (st : pstate) : parser pstate := pmap (on_ws st) (span_ ws).
Definition parse_newline (st : pstate) : parser pstate := pmap (on_ws st) (span_ newline).

(* one iteration of the repeat in `document` *)
Definition doc_line (st : pstate) : parser pstate :=
  b <- peek any ;;
  st1 <- (if byte_eqb b COMMENT_START_SYMBOL then cut_err (parse_comment st)
          else if byte_eqb b STD_TABLE_OPEN then cut_err (table st)
          else if byte_eqb b LF || byte_eqb b CR then parse_newline st
          else cut_err (keyval st)) ;;
  parse_ws st1.

Fixpoint doc_loop (fuel : nat) (st : pstate) (i : input) : res pstate :=
  match fuel with
  | O => Panic P_out_of_fuel
  | S f =>
    match doc_line st i with
    | Ok st' i' =>
      if Nat.eqb (length (rest i')) (length (rest i)) then Panic P_repeat_no_progress
      else doc_loop f st' i'
    | Bt _ _ => Ok st i
    | Cut e i' => Cut e i'
    | Panic s => Panic s
    end
  end.

Definition bom : bytes := [xef; xbb; xbf].

(* document.rs: document *)
Definition document : parser pstate :=
  opt (lit bom) ;;;
  st <- parse_ws state_new ;;
  st' <- (fun i => doc_loop (S (length (rest i))) st i) ;;
  eof ;;;
  ret st'.

(* ---- mod.rs: entry points ---------------------------------------------------------------- *)
Record doc : Set := mkDoc { doc_root : tbl; doc_trailing : raw }.

Inductive presult (A : Type) : Type :=
| POk (a : A)
| PErr (e : perr) (at_ : option N)      (* TomlError: message emptiness is e; span start *)
| PPanic (s : site).
Arguments POk {A}. Arguments PErr {A}. Arguments PPanic {A}.

(* parse_document *)
Definition parse_document (s : bytes) : presult doc :=
  match parse_all document s with
  | Done st =>
    match finalize_table st with
    | COk st' => POk (mkDoc (st_root st') (match st_trailing st' with Some sp => raw_with_span sp | None => REmpty end))
    | CErr c => PErr (err_of c) None
    | CPanic p => PPanic p
    end
  | Failed e at_ => PErr e (Some at_)
  | Panicked p => PPanic p
  end.

Definition lift_outcome {A} (o : outcome A) : presult A :=
  match o with Done a => POk a | Failed e at_ => PErr e (Some at_) | Panicked p => PPanic p end.

(* mod.rs: end_of_input — eof.void().context(Expected(Description("end of input"))): what may
   follow a stand-alone key or value.  `Parser::parse` (parse_all) checks eof as well, but its
   error has no context and renders as an empty message. *)
Definition end_of_input : parser unit := context eof.
(* winnow::combinator::terminated(p, end_of_input), as the three stand-alone entry points use it *)
Definition terminated_eoi {A} (p : parser A) : parser A := a <- p ;; end_of_input ;;; ret a.

(* parse_value: terminated(value, end_of_input).parse, decor cleared, despanned (despan modelled
   in Model/Despan.v) *)
Definition parse_value_raw (s : bytes) : presult value := lift_outcome (parse_all (terminated_eoi value_) s).
(* parse_key: terminated(simple_key, end_of_input).parse *)
Definition parse_key (s : bytes) : presult (raw * bytes) := lift_outcome (parse_all (terminated_eoi simple_key) s).
(* parse_key_path: terminated(key, end_of_input).parse *)
Definition parse_key_path (s : bytes) : presult (list key) := lift_outcome (parse_all (terminated_eoi key_) s).
