(* Model/SerdeSpanned.v — the serde half of C14: `serde_spanned::Spanned<T>` delivered by toml_edit's
   deserializer, on the level of a value tree whose nodes carry the spans the parser recorded.

   stree          the value tree with spans: every scalar, array, (inline) table, array of tables and
                  every table KEY has an optional span (toml_edit Item::span / Key::span on an
                  ImDocument; a DocumentMut has none; a table that exists only because a longer
                  [header] mentions it has none: known finding C14-implicit-table-span)
   sty            target types with Spanned<..> wrappers at any position; `YPlain t` embeds a type of
                  Spec/SerdeData.v that has none
   xval           the values of those types; XSpanned a b v = Spanned { span: a..b, value: v }
   de_s           crates/serde_spanned/src/spanned.rs   `impl Deserialize for Spanned<T>`:
                     deserializer.deserialize_struct(NAME, [START, END, VALUE], SpannedVisitor)
                  crates/toml_edit/src/de/value.rs      ValueDeserializer::deserialize_struct:
                     `if is_spanned(name, fields) { if let Some(span) = self.input.span() {
                          return visitor.visit_map(SpannedDeserializer::new(self, span)) } }`,
                     otherwise deserialize_any — whose visit_map / visit_str / .. SpannedVisitor refuses
                     (its keys must be BORROWED strs, which only SpannedDeserializer hands out)
                  crates/toml_edit/src/de/spanned.rs    SpannedDeserializer: start, end, then the value
                     through `value.into_deserializer()` — the same ValueDeserializer again
                  crates/toml_edit/src/de/key.rs        KeyDeserializer::deserialize_struct: the key's span and
                     the key TEXT through serde's StrDeserializer (so only str-like targets work below it)
                  everything else: Model/De.v de_value, transcribed over stree.
   Through toml::Value / toml::Table (try_into) there are no spans at all; not modelled here. *)
From TV Require Import Base.Prelude Model.Datetime Model.DatetimeStd Model.SerNum Spec.SerdeData Model.Ser Model.De.

Definition ospan := option (N * N).

Inductive stree : Set :=
| NLeaf (sp : ospan) (x : tomlval)                       (* String / Integer / Float / Boolean / Datetime *)
| NArr (sp : ospan) (xs : list stree)                    (* Array / ArrayOfTables *)
| NTab (sp : ospan) (es : list (bytes * ospan * stree)). (* Table / InlineTable: key, key span, value *)

Definition span_of (s : stree) : ospan :=
  match s with NLeaf sp _ | NArr sp _ | NTab sp _ => sp end.

(* forget the spans *)
Fixpoint strip (s : stree) : tomlval :=
  match s with
  | NLeaf _ x => x
  | NArr _ xs => VArr (map strip xs)
  | NTab _ es => VTab (map (fun e => (fst (fst e), strip (snd e))) es)
  end.

(* what into_mut() / a DocumentMut leaves: the same tree without any span *)
Fixpoint despan (s : stree) : stree :=
  match s with
  | NLeaf _ x => NLeaf None x
  | NArr _ xs => NArr None (map despan xs)
  | NTab _ es => NTab None (map (fun e => (fst (fst e), None, despan (snd e))) es)
  end.

Definition has_span (o : ospan) : bool := match o with Some _ => true | None => false end.
Definition is_leaf (x : tomlval) : bool := match x with VArr _ | VTab _ => false | _ => true end.
(* a well-formed tree (leaves hold scalars) all of whose nodes and keys have a span *)
Fixpoint all_spans (s : stree) : bool :=
  has_span (span_of s) &&
  match s with
  | NLeaf _ x => is_leaf x
  | NArr _ xs => forallb all_spans xs
  | NTab _ es => forallb (fun e => has_span (snd (fst e)) && all_spans (snd e)) es
  end.

(* ---- types with Spanned wrappers ---- *)
Inductive sty : Set :=
| YPlain (t : ty)                                (* no Spanned inside *)
| YSpanned (t : sty)                             (* serde_spanned::Spanned<T> *)
| YOpt (t : sty)
| YSeq (t : sty)
| YTuple (ts : list sty)
| YMap (k : sty) (v : sty)
| YStruct (name : bytes) (fs : list (bytes * sty))
| YNewtype (name : bytes) (t : sty)
| YTupleStruct (name : bytes) (ts : list sty)
| YEnum (name : bytes) (vs : list (bytes * svariant))
with svariant : Set :=
| YVUnit
| YVNewtype (t : sty)
| YVTuple (ts : list sty)
| YVStruct (fs : list (bytes * sty)).

Fixpoint erase_ty (t : sty) : ty :=
  match t with
  | YPlain t0 => t0
  | YSpanned t' => erase_ty t'
  | YOpt t' => TOpt (erase_ty t')
  | YSeq t' => TSeq (erase_ty t')
  | YTuple ts => TTuple (map erase_ty ts)
  | YMap k v => TMap (erase_ty k) (erase_ty v)
  | YStruct n fs => TStruct n (map (fun ft => (fst ft, erase_ty (snd ft))) fs)
  | YNewtype n t' => TNewtype n (erase_ty t')
  | YTupleStruct n ts => TTupleStruct n (map erase_ty ts)
  | YEnum n vs => TEnum n (map (fun nv => (fst nv, erase_variant (snd nv))) vs)
  end
with erase_variant (var : svariant) : variant :=
  match var with
  | YVUnit => VUnit
  | YVNewtype t => VNewtype (erase_ty t)
  | YVTuple ts => VTuple (map erase_ty ts)
  | YVStruct fs => VStruct (map (fun ft => (fst ft, erase_ty (snd ft))) fs)
  end.

(* ---- values ---- *)
Inductive xval : Set :=
| XPlain (v : sval)                              (* a value without Spanned inside *)
| XSpanned (a b : N) (v : xval)
| XSome (v : xval)
| XSeq (vs : list xval)
| XMap (es : list (xval * xval))
| XRec (vs : list xval)
| XNewtype (v : xval)
| XVariant (idx : nat) (payload : xval).

Fixpoint erase_val (x : xval) : sval :=
  match x with
  | XPlain v => v
  | XSpanned _ _ v => erase_val v
  | XSome v => SSome (erase_val v)
  | XSeq vs => SSeq (map erase_val vs)
  | XMap es => SMap (map (fun kv => (erase_val (fst kv), erase_val (snd kv))) es)
  | XRec vs => SRec (map erase_val vs)
  | XNewtype v => SNewtype (erase_val v)
  | XVariant i p => SVariant i (erase_val p)
  end.

(* `impl PartialEq / Ord for Spanned<T>` compare the value only: map keys are equal up to spans *)
Definition xval_beq (a b : xval) : bool := sval_beq (erase_val a) (erase_val b).
Fixpoint xmap_insert (k v : xval) (es : list (xval * xval)) : list (xval * xval) :=
  match es with
  | [] => [(k, v)]
  | (k', v') :: es' => if xval_beq k' k then (k', v) :: es' else (k', v') :: xmap_insert k v es'
  end.
Definition xmap_of_pairs (ps : list (xval * xval)) : list (xval * xval) :=
  fold_left (fun acc p => xmap_insert (fst p) (snd p) acc) ps [].

(* ---- generic visitors (as in Model/De.v, over any tree / value type) ---- *)
Section GVisitors.
  Context {T X A : Type}.
  Variable de : A -> T -> result X.
  Fixpoint gde_pos (l : list A) (xs : list T) : result (list X * list T) :=
    match l with
    | [] => Ok ([], xs)
    | a :: l' =>
      match xs with
      | [] => Err EDe
      | x :: xs' => rbind (de a x) (fun v => rbind (gde_pos l' xs') (fun r => Ok (v :: fst r, snd r)))
      end
    end.
End GVisitors.

Fixpoint stab_get (k : bytes) (es : list (bytes * ospan * stree)) : option stree :=
  match es with
  | [] => None
  | (k', _, x) :: es' => if bytes_eqb k' k then Some x else stab_get k es'
  end.

Definition sdup_field_hit (names : list bytes) (es : list (bytes * ospan * stree)) : bool :=
  negb (nodup_bytes (filter (fun k => mem_bytes k names) (map (fun e => fst (fst e)) es))).
Definition sstruct_keys_ok (names : list bytes) (es : list (bytes * ospan * stree)) : bool :=
  forallb (fun e => mem_bytes (fst (fst e)) names) es.

(* missing_field on the Deserialize impl of the field's type: Option fields become None; a Spanned
   around it asks MissingFieldDeserializer for a struct, which is an error *)
Definition missing_field_s (t : sty) : result xval :=
  match t with
  | YOpt _ => Ok (XPlain SNone)
  | YPlain (TOpt _) => Ok (XPlain SNone)
  | _ => Err EDe
  end.

Section SStruct.
  Variable de : sty -> stree -> result xval.
  Fixpoint sde_fields_map (es : list (bytes * ospan * stree)) (seen : list bytes) (fs : list (bytes * sty))
    : result (list xval) :=
    match fs with
    | [] => Ok []
    | (f, t) :: fs' =>
      rbind (if mem_bytes f seen then missing_field_s t
             else match stab_get f es with Some x => de t x | None => missing_field_s t end) (fun v =>
      rbind (sde_fields_map es (f :: seen) fs') (fun vs => Ok (v :: vs)))
    end.
End SStruct.
Definition sde_struct_map (de : sty -> stree -> result xval) (fs : list (bytes * sty)) (es : list (bytes * ospan * stree))
  : result (list xval) :=
  if sdup_field_hit (map fst fs) es then Err EDe else sde_fields_map de es [] fs.

Fixpoint sindex_keys (i : N) (es : list (bytes * ospan * stree)) : option (list stree) :=
  match es with
  | [] => Some []
  | (k, _, x) :: es' =>
    match parse_usize k with
    | Some j => if (j =? i)%N then optmap (cons x) (sindex_keys (i + 1) es') else None
    | None => None
    end
  end.

Definition sempty_container (s : stree) : bool :=
  match s with NArr _ [] => true | NTab _ [] => true | _ => false end.

(* T::deserialize(StrDeserializer(key text)): what a Spanned<T> map key hands to T.  serde's StrDeserializer
   forwards everything to visit_str except deserialize_enum (unit variants) *)
Definition unit_only (i : nat) (var : variant) : result sval :=
  match var with VUnit => Ok (SVariant i SUnit) | _ => Err EDe end.
Definition de_from_str (t : ty) (k : bytes) : result sval :=
  match t with
  | TStr => Ok (SStr k)
  | TChar => de_char k
  | TEnum _ vs => find_name unit_only (Err EDe) k vs 0
  | _ => Err EDe
  end.

(* KeyDeserializer at a type with Spanned wrappers *)
Fixpoint de_key_s (t : sty) (k : bytes) (ksp : ospan) {struct t} : result xval :=
  match t with
  | YPlain t0 => rmap XPlain (de_key t0 k)
  | YSpanned t' =>
    match ksp with
    | Some (a, b) =>
      (* SpannedDeserializer::new(self.key.get(), span): the value is deserialized from the key text *)
      match t' with
      | YPlain t0 => rmap (fun v => XSpanned a b (XPlain v)) (de_from_str t0 k)
      | YEnum _ vs =>                     (* StrDeserializer::deserialize_enum: visit_enum(self), unit variants only *)
        rmap (XSpanned a b)
             (find_name (fun i var => match var with YVUnit => Ok (XVariant i (XPlain SUnit)) | _ => Err EDe end) (Err EDe) k vs 0)
      | _ => Err EDe                      (* a nested Spanned / newtype / .. refuses visit_str *)
      end
    | None => Err EDe                     (* deserialize_any: visit_str, refused by SpannedVisitor *)
    end
  | YNewtype _ t' => rmap XNewtype (de_key_s t' k ksp)
  | YEnum _ vs =>
    find_name (fun i var => match var with YVUnit => Ok (XVariant i (XPlain SUnit)) | _ => Err EDe end) (Err EDe) k vs 0
  | YStruct n _ => if private_name n then Err EUnmodelled else Err EDe
  | _ => Err EDe
  end.

(* ValueDeserializer at a type with Spanned wrappers *)
Fixpoint de_s (t : sty) (s : stree) {struct t} : result xval :=
  match t with
  | YPlain t0 => rmap XPlain (de_value t0 (strip s))
  | YSpanned t' =>
    match span_of s with
    | Some (a, b) => rmap (XSpanned a b) (de_s t' s)      (* start, end, then the value from the same deserializer *)
    | None => Err EDe                                     (* no span: deserialize_any, refused by SpannedVisitor *)
    end
  | YOpt t' => rmap XSome (de_s t' s)
  | YSeq t' => match s with NArr _ xs => rmap XSeq (mapM (de_s t') xs) | _ => Err EDe end
  | YTuple ts | YTupleStruct _ ts =>
    match s with NArr _ xs => rmap (fun r => XSeq (fst r)) (gde_pos de_s ts xs) | _ => Err EDe end
  | YMap kt vt =>
    match s with
    | NTab _ es => rmap (fun ps => XMap (xmap_of_pairs ps))
                        (mapM (fun e => rbind (de_key_s kt (fst (fst e)) (snd (fst e))) (fun k =>
                                        rmap (fun v => (k, v)) (de_s vt (snd e)))) es)
    | NLeaf _ (VDatetime _) => Err EUnmodelled
    | _ => Err EDe
    end
  | YStruct n fs =>
    if private_name n then Err EUnmodelled
    else match s with
         | NTab _ es => rmap XRec (sde_struct_map de_s fs es)
         | NArr _ xs => rmap (fun r => XRec (fst r)) (gde_pos (fun ft x => de_s (snd ft) x) fs xs)
         | NLeaf _ (VDatetime _) => Err EUnmodelled
         | _ => Err EDe
         end
  | YNewtype _ t' => rmap XNewtype (de_s t' s)
  | YEnum _ vs =>
    match s with
    | NLeaf _ (VStr k) =>
      find_name (fun i var => match var with YVUnit => Ok (XVariant i (XPlain SUnit)) | _ => Err EDe end) (Err EDe) k vs 0
    | NTab _ [(k, _, y)] =>
      find_name (fun i var => rmap (XVariant i) (de_payload_s var y)) (Err EDe) k vs 0
    | _ => Err EDe
    end
  end
with de_payload_s (var : svariant) (y : stree) {struct var} : result xval :=
  match var with
  | YVUnit => if sempty_container y then Ok (XPlain SUnit) else Err EDe
  | YVNewtype t => de_s t y
  | YVTuple ts =>
    match y with
    | NArr _ xs => if Nat.eqb (length xs) (length ts)
                   then rmap (fun r => XSeq (fst r)) (gde_pos de_s ts xs) else Err EDe
    | NTab _ es => match sindex_keys 0 es with
                   | Some xs => if Nat.eqb (length xs) (length ts)
                                then rmap (fun r => XSeq (fst r)) (gde_pos de_s ts xs) else Err EDe
                   | None => Err EDe end
    | _ => Err EDe
    end
  | YVStruct fs =>
    match y with
    | NTab _ es => if sstruct_keys_ok (map fst fs) es then rmap XRec (sde_struct_map de_s fs es) else Err EDe
    | NArr _ xs => rmap (fun r => XRec (fst r)) (gde_pos (fun ft x => de_s (snd ft) x) fs xs)
    | NLeaf _ (VDatetime _) => Err EUnmodelled
    | _ => Err EDe
    end
  end.

(* ---- where wrapping is NOT transparent (hypotheses of C14_transparent, each with a refuting witness) ----
   * a struct field  Spanned<Option<T>>  whose key is missing: Option<T> alone becomes None, the Spanned
     around it turns the missing field into an error (there is no node whose span it could deliver);
   * a map key  Spanned<Newtype(..)> / Spanned<Spanned<..>>: the key text goes through serde's
     StrDeserializer, which offers visit_str only. *)
Definition bad_field (t : sty) : bool :=
  match t with YSpanned _ => is_opt (erase_ty t) | _ => false end.
Fixpoint key_sty_ok (t : sty) : bool :=
  match t with
  | YSpanned (YPlain t0) => match t0 with TNewtype _ _ => false | _ => true end
  | YSpanned (YEnum _ _) => true
  | YSpanned _ => false
  | YNewtype _ t' => key_sty_ok t'
  | _ => true
  end.
Fixpoint sty_ok (t : sty) {struct t} : bool :=
  match t with
  | YPlain _ => true
  | YSpanned t' | YOpt t' | YSeq t' | YNewtype _ t' => sty_ok t'
  | YTuple ts | YTupleStruct _ ts => forallb sty_ok ts
  | YMap k v => key_sty_ok k && sty_ok k && sty_ok v
  | YStruct _ fs => forallb (fun ft => negb (bad_field (snd ft)) && sty_ok (snd ft)) fs
  | YEnum _ vs => forallb (fun nv => svariant_ok (snd nv)) vs
  end
with svariant_ok (var : svariant) {struct var} : bool :=
  match var with
  | YVUnit => true
  | YVNewtype t => sty_ok t
  | YVTuple ts => forallb sty_ok ts
  | YVStruct fs => forallb (fun ft => negb (bad_field (snd ft)) && sty_ok (snd ft)) fs
  end.
