(* Model/FrontEnds.v — the serde front ends of the two crates as compositions of the models that exist
   (properties C01 / C02, "the serde front ends accept exactly the same documents as the parser" and
   "toml::from_str::<Value> decodes the same tree"):

     crates/toml_edit/src/de/mod.rs   Deserializer::parse / from_str: ImDocument::parse, then
                                      T::deserialize(root ValueDeserializer)
                                      from_slice: std::str::from_utf8 first ("the bytes entry point
                                      validates UTF-8"), then from_str
     crates/toml/src/de.rs            toml::from_str wraps toml_edit's
     crates/toml/src/map.rs           `impl FromStr for Table` = toml::from_str::<Table>
   with T = toml::Table (`to_toml_table`, Model/SerdeRoutes.v: the root is read entry by entry) and
   T = toml::Value (`to_toml_value`: ValueVisitor, the first-key tunnel check, the duplicate-key error).

   The document is Model/Document.v parse_document; its tree becomes eng-c07's value tree through
   Extract/SpannedTree.v st_tbl + strip (the conversion the serde correspondence of C07/C13/C14 uses).
   Floats are symbolic in the parser model, so a document holding a float has no value tree here:
   FUnmodelled. *)
From TV Require Import Base.Prelude Base.Utf8 Model.Datetime Model.Tree Model.Document Spec.SerdeData Model.De Model.SerdeSpanned.
From TV Require Import Spec.DatetimeSpec Model.Ser Model.SerdeRoutes Extract.SpannedTree.

Inductive fres (A : Type) : Type :=
| FOk (a : A)
| FUtf8Err            (* from_slice: Error::custom(Utf8Error) *)
| FParseErr           (* the document is refused by the parser *)
| FDeErr              (* the parser accepts, T::deserialize refuses *)
| FPanic              (* a panic site of the parser model is reached *)
| FUnmodelled.        (* a float in the document *)
Arguments FOk {A} a. Arguments FUtf8Err {A}. Arguments FParseErr {A}. Arguments FDeErr {A}.
Arguments FPanic {A}. Arguments FUnmodelled {A}.

(* the value tree of a parsed document (None: a float inside) *)
Definition tree_of_doc (d : doc) : option tomlval := optmap strip (st_tbl (doc_root d)).

(* toml_edit::de::from_str::<T> / toml::from_str::<T>: parse, then T::deserialize on the root *)
Definition from_str_with (conv : tomlval -> result tomlval) (s : bytes) : fres tomlval :=
  match parse_document s with
  | POk d =>
    match tree_of_doc d with
    | Some x => match conv x with Ok v => FOk v | Err _ => FDeErr end
    | None => FUnmodelled
    end
  | PErr _ _ => FParseErr
  | PPanic _ => FPanic
  end.

Definition toml_from_str_table (s : bytes) : fres tomlval := from_str_with to_toml_table s.   (* toml::from_str::<toml::Table>, str::parse::<toml::Table> *)
Definition toml_from_str_value (s : bytes) : fres tomlval := from_str_with to_toml_value s.   (* toml::from_str::<toml::Value> *)
Definition edit_from_str_table (s : bytes) : fres tomlval := from_str_with to_toml_table s.   (* toml_edit::de::from_str::<toml::Table> *)

(* toml_edit::de::from_slice::<toml::Table>:
     let s = std::str::from_utf8(s).map_err(|e| Error::custom(e, None))?; from_str(s) *)
Definition from_slice_table (bs : bytes) : fres tomlval :=
  if utf8_valid_b bs then edit_from_str_table bs else FUtf8Err.

(* str::parse::<DocumentMut>, ImDocument::parse: the parser itself *)
Definition edit_parse (s : bytes) : fres doc :=
  match parse_document s with POk d => FOk d | PErr _ _ => FParseErr | PPanic _ => FPanic end.

Definition accepts {A} (r : fres A) : Prop := exists a, r = FOk a.

(* ---- what the statements speak about ---------------------------------------------------------- *)
(* a table key spelling the private name of the date-time tunnel (known finding private-datetime-key, F14) *)
Fixpoint has_private_key (x : tomlval) : bool :=
  match x with
  | VArr xs => existsb has_private_key xs
  | VTab es => existsb (fun kx => bytes_eqb (fst kx) DT_FIELD || has_private_key (snd kx)) es
  | _ => false
  end.
(* ... anywhere but directly in the root table (toml::Table reads the root without the tunnel check) *)
Definition has_private_key_below_root (x : tomlval) : bool :=
  match x with VTab es => existsb (fun kx => has_private_key (snd kx)) es | _ => has_private_key x end.

(* what every tree of a parsed document satisfies: the keys of a table are distinct (C09_valid_wellformed;
   inline tables: the duplicate-key check of the value parser) and its date-times are in range (C12_closed) *)
Fixpoint tree_ready (x : tomlval) : bool :=
  match x with
  | VDatetime d => in_range d
  | VArr xs => forallb tree_ready xs
  | VTab es => nodup_bytes (map fst es) && forallb (fun kx => tree_ready (snd kx)) es
  | _ => true
  end.

(* the decoded value the property speaks of: the same keys, nesting and scalars; every table in
   ascending key order (toml::Value's map is a BTreeMap; under preserve_order the order is the
   document's instead — `sorted` = false) *)
Fixpoint canon_value (sorted : bool) (x : tomlval) : tomlval :=
  match x with
  | VArr xs => VArr (map (canon_value sorted) xs)
  | VTab es =>
    let es' := map (fun kx => (fst kx, canon_value sorted (snd kx))) es in
    VTab (if sorted then btree_of_pairs es' else es')
  | _ => x
  end.
