(* Model/Visit.v — crates/toml_edit/src/visit.rs (trait Visit and its default free functions)
   and crates/toml_edit/src/visit_mut.rs (trait VisitMut), together with the iterators the
   default bodies walk: Table::iter / iter_mut (table.rs), `impl TableLike for InlineTable`
   iter / iter_mut (inline_table.rs), Array::iter / iter_mut (array.rs),
   ArrayOfTables::iter / iter_mut (array_of_tables.rs).

   What is modelled is a visitor that overrides EVERY hook of the trait with
       fn visit_x(&mut self, node) { self.log.push(<event>); visit::visit_x(self, node) }
   i.e. it records the call and continues with the default body.  The result of a walk is the
   list of recorded calls, in call order.  For VisitMut the walk also returns the tree it
   leaves behind, and the five scalar hooks (visit_{string,integer,float,boolean,datetime}_mut)
   may be overridden by an action that replaces the `Formatted<T>` it is handed.
   No proofs in this file. *)
From TV Require Import Base.Prelude Model.Datetime Model.Numbers Model.Tree.

(* ---- the callback log ------------------------------------------------------------------- *)

(* the hooks of `trait Visit<'doc>` (visit.rs) / `trait VisitMut` (visit_mut.rs, suffix _mut) *)
Inductive meth : Set :=
| MDocument | MItem | MTable | MInlineTable | MTableLike | MTableLikeKv | MArray | MArrayOfTables | MValue
| MBoolean | MDatetime | MFloat | MInteger | MString.

(* what a hook is handed *)
Inductive arg : Set :=
| ADoc (root : tbl)                        (* &DocumentMut (its root table) *)
| AItem (i : item)                         (* &Item *)
| ATable (t : tbl)                         (* &Table *)
| AValue (v : value)                       (* &Value; also &Array, &InlineTable, &Formatted<T>: the value node itself *)
| ALike (inline : bool) (items : kvs)      (* &dyn TableLike: the entries behind it; inline = it is an InlineTable *)
| AKv (k : key) (i : item)                 (* key: &str (Visit) / KeyMut (VisitMut), node: &Item *)
| AAot (ts : list tbl) (sp : ospan).       (* &ArrayOfTables *)

Definition event : Set := (meth * arg)%type.

(* visit_value's match on the five `Formatted<T>` variants *)
Definition scalar_meth (s : scalar) : meth :=
  match s with
  | SString _ => MString
  | SInt _ => MInteger
  | SFloat _ => MFloat
  | SBool _ => MBoolean
  | SDatetime _ => MDatetime
  end.

(* ---- the iterators ---------------------------------------------------------------------- *)

(* does `node.iter()` / `node.iter_mut()` of a `&dyn TableLike` yield this entry?
   Table::iter, Table::iter_mut (table.rs) and `impl TableLike for InlineTable` iter / iter_mut
   (inline_table.rs, since the repair of finding F11) both carry
       `.filter(|(_, value)| !value.is_none())`
   so an `Item::None` placeholder is never yielded, whichever implementation is behind the
   `dyn`.  (`inline` = the object is an InlineTable; kept because the two are distinct impls.) *)
Definition like_yields (inline : bool) (i : item) : bool := negb (item_is_none i).

(* ---- trait Visit: log, then the default body -------------------------------------------- *)

(* visit_table_like_kv: default body `v.visit_item(node)` *)
Definition visit_table_like_kv (v_item : item -> list event) (k : key) (i : item) : list event :=
  (MTableLikeKv, AKv k i) :: v_item i.

(* visit_table_like: default body `for (key, item) in node.iter() { v.visit_table_like_kv(key, item) }` *)
Definition visit_table_like (v_item : item -> list event) (inline : bool) (items : kvs) : list event :=
  (MTableLike, ALike inline items)
  :: flat_map (fun kv => match kv with
                         | (k, i) => if like_yields inline i then visit_table_like_kv v_item k i else []
                         end) items.

(* visit_array: default body `for value in node.iter() { v.visit_value(value) }`;
   Array::iter = `self.values.iter().filter_map(Item::as_value)` *)
Definition visit_array (v_value : value -> list event) (self : value) (vals : list item) : list event :=
  (MArray, AValue self)
  :: flat_map (fun it => match it with IValue e => v_value e | _ => [] end) vals.

(* visit_array_of_tables: default body `for table in node.iter() { v.visit_table(table) }`
   (the model's IAot holds tables only, so filter_map(Item::as_table) keeps everything) *)
Definition visit_array_of_tables (v_table : tbl -> list event) (ts : list tbl) (sp : ospan) : list event :=
  (MArrayOfTables, AAot ts sp) :: flat_map (fun t => v_table t) ts.

(* visit_value: default body dispatches on the variant;
   visit_{string,integer,float,boolean,datetime}: default bodies are empty (empty_visit!);
   visit_inline_table: default body `v.visit_table_like(node)`
   visit_item: default body dispatches on the variant, `Item::None => {}`
   visit_table: default body `v.visit_table_like(node)` *)
Fixpoint visit_value (v : value) : list event :=
  (MValue, AValue v)
  :: match v with
     | VScalar s _ _ => [(scalar_meth s, AValue v)]
     | VArray vals _ _ _ _ => visit_array visit_value v vals
     | VInline items _ _ _ _ _ => (MInlineTable, AValue v) :: visit_table_like visit_item true items
     end
with visit_item (i : item) : list event :=
  (MItem, AItem i)
  :: match i with
     | INone => []
     | IValue v => visit_value v
     | ITable t => visit_table t
     | IAot ts sp => visit_array_of_tables visit_table ts sp
     end
with visit_table (t : tbl) : list event :=
  (MTable, ATable t)
  :: match t with
     | Tbl items _ _ _ _ _ => visit_table_like visit_item false items
     end.

(* visit_document: default body `v.visit_table(node.as_table())` *)
Definition visit_document (root : tbl) : list event := (MDocument, ADoc root) :: visit_table root.

(* ---- trait VisitMut --------------------------------------------------------------------- *)

(* `for x in xs.iter_mut() { body(x) }`: the recorded calls in order, and the elements as the
   bodies left them *)
Definition for_each_mut {A : Type} (f : A -> list event * A) : list A -> list event * list A :=
  fix go (l : list A) : list event * list A :=
    match l with
    | [] => ([], [])
    | a :: tl =>
      match f a with
      | (e, a') => match go tl with (es, tl') => (e ++ es, a' :: tl') end
      end
    end.

Section Mut.
  (* the overriding action of the scalar hooks: None = the default (empty) body,
     Some s' = `let d = node.decor().clone(); *node = Formatted::new(s'); *node.decor_mut() = d;`
     (Formatted::new: repr None, default decor) *)
  Variable hook : scalar -> option scalar.

  (* visit_{string,integer,float,boolean,datetime}_mut *)
  Definition visit_scalar_mut (s : scalar) (r : option raw) (d : decor) : list event * value :=
    ([(scalar_meth s, AValue (VScalar s r d))],
     match hook s with
     | Some s' => VScalar s' None d
     | None => VScalar s r d
     end).

  (* visit_table_like_kv_mut: default body `v.visit_item_mut(node)` (the KeyMut is not used) *)
  Definition visit_table_like_kv_mut (v_item : item -> list event * item) (k : key) (i : item)
    : list event * item :=
    match v_item i with (e, i') => ((MTableLikeKv, AKv k i) :: e, i') end.

  (* visit_table_like_mut: default body
     `for (key, item) in node.iter_mut() { v.visit_table_like_kv_mut(key, item) }` *)
  Definition visit_table_like_mut (v_item : item -> list event * item) (inline : bool) (items : kvs)
    : list event * kvs :=
    match for_each_mut (fun kv => match kv with
                                  | (k, i) =>
                                    if like_yields inline i
                                    then match visit_table_like_kv_mut v_item k i with (e, i') => (e, (k, i')) end
                                    else ([], kv)
                                  end) items with
    | (e, items') => ((MTableLike, ALike inline items) :: e, items')
    end.

  (* visit_array_mut: `for value in node.iter_mut() { v.visit_value_mut(value) }`;
     Array::iter_mut = `self.values.iter_mut().filter_map(Item::as_value_mut)` *)
  Definition visit_array_mut (v_value : value -> list event * value) (self : value) (vals : list item)
    : list event * list item :=
    match for_each_mut (fun it => match it with
                                  | IValue x => match v_value x with (e, x') => (e, IValue x') end
                                  | _ => ([], it)
                                  end) vals with
    | (e, vals') => ((MArray, AValue self) :: e, vals')
    end.

  (* visit_array_of_tables_mut: `for table in node.iter_mut() { v.visit_table_mut(table) }` *)
  Definition visit_array_of_tables_mut (v_table : tbl -> list event * tbl) (ts : list tbl) (sp : ospan)
    : list event * list tbl :=
    match for_each_mut (fun t => v_table t) ts with
    | (e, ts') => ((MArrayOfTables, AAot ts sp) :: e, ts')
    end.

  (* visit_value_mut / visit_inline_table_mut / visit_item_mut / visit_table_mut *)
  Fixpoint visit_value_mut (v : value) : list event * value :=
    match (match v with
           | VScalar s r d => visit_scalar_mut s r d
           | VArray vals tr c d sp =>
             match visit_array_mut visit_value_mut v vals with
             | (e, vals') => (e, VArray vals' tr c d sp)
             end
           | VInline items pre im dt d sp =>
             match visit_table_like_mut visit_item_mut true items with
             | (e, items') => ((MInlineTable, AValue v) :: e, VInline items' pre im dt d sp)
             end
           end) with
    | (e, v') => ((MValue, AValue v) :: e, v')
    end
  with visit_item_mut (i : item) : list event * item :=
    match (match i with
           | INone => ([], INone)
           | IValue v => match visit_value_mut v with (e, v') => (e, IValue v') end
           | ITable t => match visit_table_mut t with (e, t') => (e, ITable t') end
           | IAot ts sp =>
             match visit_array_of_tables_mut visit_table_mut ts sp with (e, ts') => (e, IAot ts' sp) end
           end) with
    | (e, i') => ((MItem, AItem i) :: e, i')
    end
  with visit_table_mut (t : tbl) : list event * tbl :=
    match t with
    | Tbl items d im dt p sp =>
      match visit_table_like_mut visit_item_mut false items with
      | (e, items') => ((MTable, ATable t) :: e, Tbl items' d im dt p sp)
      end
    end.

  (* visit_document_mut: default body `v.visit_table_mut(node.as_table_mut())` *)
  Definition visit_document_mut (root : tbl) : list event * tbl :=
    match visit_table_mut root with (e, root') => ((MDocument, ADoc root) :: e, root') end.
End Mut.

(* the three visitors of the correspondence harness *)
Definition hook_default : scalar -> option scalar := fun _ => None.
(* `fn visit_integer_mut(&mut self, n) { .. Formatted::new(f(n.value().clone())) .. }` *)
Definition hook_integer (f : Z -> Z) : scalar -> option scalar :=
  fun s => match s with SInt z => Some (SInt (f z)) | _ => None end.
(* `fn visit_string_mut(&mut self, n) { .. Formatted::new(f(n.value())) .. }` *)
Definition hook_string (f : bytes -> bytes) : scalar -> option scalar :=
  fun s => match s with SString x => Some (SString (f x)) | _ => None end.
