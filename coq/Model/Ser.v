(* Model/Ser.v — the serde serializers on the level of the TOML value tree.

   Two layers are composed in every function:
     (1) the DERIVE PROTOCOL (an oracle, DESIGN 4.4): which `Serializer` methods
         `#[derive(Serialize)]` / serde's std impls call for a value of each shape of `ty`
         (harness/src/bin/serde/dynser.rs is the same protocol as Rust code and is checked against
         real derived types by the `fidelity` command on every run);
     (2) what the repository's serializers do on those calls (transcribed below).

   ser_value      crates/toml_edit/src/ser/value.rs   `impl Serializer for ValueSerializer`
                  crates/toml_edit/src/ser/array.rs   SerializeValueArray
                  crates/toml_edit/src/ser/map.rs     SerializeMap / SerializeInlineTable /
                                                      SerializeDatetime / DatetimeFieldSerializer /
                                                      MapValueSerializer / SerializeVariant
   ser_key        crates/toml_edit/src/ser/key.rs     KeySerializer
   ser_edit_root  crates/toml_edit/src/ser/mod.rs     to_document (to_string, to_string_pretty print it)
   ser_toml_root  crates/toml/src/ser.rs              `impl Serializer for Serializer` + write_document
   tv_ser         crates/toml/src/value.rs            ValueSerializer (Value::try_from)
   tv_ser_table   crates/toml/src/value.rs            TableSerializer (Table::try_from)

   Printing the tree as text and reading it back is the business of C03/C06/C10/C11/C12. *)
From TV Require Import Base.Prelude Base.Utf8 Model.Datetime Model.DatetimeStd Model.WriteFloat Model.SerNum
  Spec.SerdeData.

(* ---- IndexMap::insert on the entries of a table: an existing key keeps its position and gets
        the new value, a new key is appended (indexmap is an oracle given by this spec) ---------- *)
Fixpoint tab_insert (k : bytes) (x : tomlval) (es : list (bytes * tomlval)) : list (bytes * tomlval) :=
  match es with
  | [] => [(k, x)]
  | (k', x') :: es' => if bytes_eqb k' k then (k', x) :: es' else (k', x') :: tab_insert k x es'
  end.
Definition tab_of_pairs (ps : list (bytes * tomlval)) : list (bytes * tomlval) :=
  fold_left (fun acc p => tab_insert (fst p) (snd p) acc) ps [].

(* ---- leaves -------------------------------------------------------------------------------- *)
(* value.rs serialize_f64: `if v.is_nan() { v = v.copysign(1.0); }` — clears the sign bit only *)
Definition canon_nan (b : N) : N := if is_nan64 b then (b mod 2 ^ 63)%N else b.

(* serialize_i8..u64 / serde's default serialize_i128, serialize_u128 (Model/SerNum.v) *)
Definition int_err (w : int_ty) : err :=
  match ser_method_of w with
  | M_u64 => EOutOfRange (Some S_u64)
  | M_i128 => EInt128 false
  | M_u128 => EInt128 true
  | M_i64 => EBadCase
  end.
Definition ser_int_value (w : int_ty) (z : Z) : result tomlval :=
  match ser_int w z with Some i => Ok (VInt i) | None => Err (int_err w) end.

(* `impl Serialize for Datetime`: serialize_struct(NAME, 1); serialize_field(FIELD, &self.to_string()); end()
   ValueSerializer::serialize_struct: name == NAME => SerializeDatetime;
   SerializeDatetime::serialize_field: key == FIELD => DatetimeFieldSerializer::serialize_str = v.parse::<Datetime>();
   end: value.ok_or(UnsupportedNone) *)
Definition dt_field_str (s : bytes) : result datetime :=
  match std_from_str s with Some d => Ok d | None => Err ECustomDatetime end.
Definition ser_datetime (d : datetime) : result tomlval :=
  rmap VDatetime (dt_field_str (display_datetime d)).

(* DatetimeFieldSerializer on a value of any other shape: every method but serialize_str answers
   DateInvalid; serialize_i128 / serialize_u128 are serde's defaults *)
Definition ser_dt_field (t : ty) (v : sval) : result datetime :=
  match t, v with
  | TStr, SStr s => dt_field_str s
  | TInt w, _ => match ser_method_of w with M_i128 => Err (EInt128 false) | M_u128 => Err (EInt128 true) | _ => Err EDateInvalid end
  | _, _ => Err EDateInvalid
  end.
(* a struct the program itself named NAME: only fields called FIELD are looked at, the last wins *)
Fixpoint ser_dt_struct (fs : list (bytes * ty)) (vs : list sval) (acc : option datetime) : result tomlval :=
  match fs, vs with
  | [], [] => match acc with Some d => Ok (VDatetime d) | None => Err EUnsupportedNone end
  | (f, t) :: fs', v :: vs' =>
    if bytes_eqb f DT_FIELD
    then rbind (ser_dt_field t v) (fun d => ser_dt_struct fs' vs' (Some d))
    else ser_dt_struct fs' vs' acc
  | _, _ => Err EBadCase
  end.

(* ---- keys: KeySerializer -------------------------------------------------------------------- *)
Fixpoint ser_key (t : ty) (v : sval) {struct t} : result bytes :=
  match t, v with
  | TStr, SStr s => Ok s                                        (* serialize_str *)
  | TNewtype _ t', SNewtype v' => ser_key t' v'                  (* serialize_newtype_struct: value.serialize(self) *)
  | TEnum _ vs, SVariant i _ =>
    pick (fun nv => match snd nv with VUnit => Ok (fst nv)       (* serialize_unit_variant: variant.into() *)
                                 | _ => Err EKeyNotString end) (Err EBadCase) vs i
  | TInt w, _ => match ser_method_of w with
                 | M_i128 => Err (EInt128 false) | M_u128 => Err (EInt128 true)   (* serde defaults *)
                 | _ => Err EKeyNotString end
  | _, _ => Err EKeyNotString
  end.

Definition somes_pairs (l : list (option (bytes * tomlval))) : list (bytes * tomlval) := somes l.

(* ---- ValueSerializer -------------------------------------------------------------------------- *)
Section Fields.
  (* SerializeInlineTable::serialize_field / serialize_value: the value goes through
     MapValueSerializer, whose serialize_none sets `is_none` and fails with UnsupportedNone — the
     one failure that is swallowed (the entry is left out); every other method forwards to a
     fresh ValueSerializer *)
  Variable ser : ty -> sval -> result tomlval.
  Definition ser_map_value (t : ty) (v : sval) : result (option tomlval) :=
    match t, v with
    | TOpt _, SNone => Ok None
    | _, _ => rmap Some (ser t v)
    end.
End Fields.

Fixpoint ser_value (t : ty) (v : sval) {struct t} : result tomlval :=
  match t, v with
  | TBool, SBool b => Ok (VBool b)
  | TInt w, SInt z => ser_int_value w z
  | TFloat F64, SF64 b => Ok (VFloat (canon_nan b))
  | TFloat F32, SF32 b => Ok (VFloat (canon_nan (widen32 b)))       (* serialize_f32: self.serialize_f64(v as f64) *)
  | TChar, SChar c => Ok (VStr (utf8_encode c))                      (* serialize_char: encode_utf8 + serialize_str *)
  | TStr, SStr s => Ok (VStr s)
  | TDatetime _, SDt d => ser_datetime d
  | TUnit, SUnit => Err (EUnsupportedType (Some S_unit))             (* serialize_unit *)
  | TUnitStruct n, SUnit => Err (EUnsupportedType (Some n))          (* serialize_unit_struct *)
  | TOpt _, SNone => Err EUnsupportedNone                            (* serialize_none *)
  | TOpt t', SSome v' => ser_value t' v'                             (* serialize_some: value.serialize(self) *)
  | TSeq t', SSeq vs => rmap VArr (mapM (ser_value t') vs)           (* collect_seq: serialize_seq + serialize_element* + end *)
  | TTuple ts, SSeq vs => rmap VArr (zipM ser_value ts vs)           (* serialize_tuple = serialize_seq *)
  | TTupleStruct _ ts, SSeq vs => rmap VArr (zipM ser_value ts vs)   (* serialize_tuple_struct = serialize_seq *)
  | TMap kt vt, SMap es =>                                           (* collect_map: serialize_map + serialize_entry* + end *)
    rmap (fun ps => VTab (tab_of_pairs (somes_pairs ps)))
         (mapM (fun kv => rbind (ser_key kt (fst kv)) (fun k =>
                          rmap (optmap (fun x => (k, x))) (ser_map_value ser_value vt (snd kv)))) es)
  | TStruct n fs, SRec vs =>                                         (* serialize_struct + serialize_field* + end *)
    if bytes_eqb n DT_NAME then ser_dt_struct fs vs None
    else rmap (fun ps => VTab (tab_of_pairs (somes_pairs ps)))
              (zipM (fun ft v' => rmap (optmap (fun x => (fst ft, x))) (ser_map_value ser_value (snd ft) v')) fs vs)
  | TNewtype _ t', SNewtype v' => ser_value t' v'                    (* serialize_newtype_struct: value.serialize(self) *)
  | TEnum _ vs, SVariant i p =>
    pick (fun nv =>
            match snd nv with
            | VUnit => match p with SUnit => Ok (VStr (fst nv)) | _ => Err EBadCase end   (* serialize_unit_variant: serialize_str(variant) *)
            | _ => rmap (fun x => VTab [(fst nv, x)]) (ser_payload (snd nv) p)             (* one-entry inline table *)
            end) (Err EBadCase) vs i
  | _, _ => Err EBadCase
  end
with ser_payload (var : variant) (p : sval) {struct var} : result tomlval :=
  match var, p with
  | VNewtype t, p => ser_value t p                                    (* serialize_newtype_variant *)
  | VTuple ts, SSeq vs => rmap VArr (zipM ser_value ts vs)             (* serialize_tuple_variant: SerializeVariant<SerializeValueArray> *)
  | VStruct fs, SRec vs =>                                             (* serialize_struct_variant: SerializeVariant<SerializeMap> *)
    rmap (fun ps => VTab (tab_of_pairs (somes_pairs ps)))
         (zipM (fun ft v' => rmap (optmap (fun x => (fst ft, x))) (ser_map_value ser_value (snd ft) v')) fs vs)
  | _, _ => Err EBadCase
  end.

(* ---- document roots ----------------------------------------------------------------------------- *)
(* toml_edit::ser::to_document: value.serialize(ValueSerializer::new())?; Item::Value(value).into_table()
   or Err(UnsupportedType(None)).  to_string prints the document, to_string_pretty runs the
   `Pretty` visitor first: no difference on the level of the value tree. *)
Definition root_table (x : tomlval) : result tomlval :=
  match x with VTab _ => Ok x | _ => Err (EUnsupportedType None) end.
Definition ser_edit_root (t : ty) (v : sval) : result tomlval := rbind (ser_value t v) root_table.

(* toml::ser::Serializer (to_string / to_string_pretty), the methods called on the ROOT value:
     scalars, none, some, unit, unit_struct, unit_variant, newtype_struct, newtype_variant:
                          write_document(ValueSerializer::new().serialize_X(..))
     seq, tuple, tuple_struct, TUPLE VARIANT: ValueSerializer::serialize_seq, elements, write_document(inner.end())
     map:                 ValueSerializer::serialize_map, entries, write_document(inner.end())
     struct:              ValueSerializer::serialize_struct(name, len) — the NAME is passed on (repair of
                          C06-root-datetime-printed-as-table; before: serialize_map, so that a root Datetime was
                          written as the table { FIELD = "text" }), fields, write_document(inner.end())
     struct_variant:      Err(UnsupportedType(Some(name)))   — `name` is the enum's name
   write_document: the value must convert into a table, else Err(UnsupportedType(None)).
   Differences from ser_edit_root on the level of the tree: a struct variant at the root (refused by name), a
   tuple variant at the root (written as a bare array, refused by write_document), a unit variant. *)
Definition ser_toml_root (t : ty) (v : sval) : result tomlval :=
  match t, v with
  | TEnum n vs, SVariant i p =>
    pick (fun nv =>
            match snd nv with
            | VStruct _ => Err (EUnsupportedType (Some n))
            | VTuple ts => match p with
                           | SSeq xs => rbind (zipM ser_value ts xs) (fun _ => Err (EUnsupportedType None))
                           | _ => Err EBadCase end
            | _ => ser_edit_root t v
            end) (Err EBadCase) vs i
  | _, _ => ser_edit_root t v
  end.

(* ---- toml::Value::try_from / toml::Table::try_from (crates/toml/src/value.rs) ----------------------
   (after the repairs of C13-tryfrom-datetime-table, C13-tryinto-datetime-string and C07-tryfrom-nested-none-dropped)
   toml::Table = BTreeMap<String, Value> (feature preserve_order off): insert keeps the entries
   sorted by key (byte-wise String order) and replaces the value of an equal key. *)
Fixpoint bytes_ltb (a b : bytes) : bool :=
  match a, b with
  | [], [] => false
  | [], _ :: _ => true
  | _ :: _, [] => false
  | x :: a', y :: b' => (b2n x <? b2n y)%N || ((b2n x =? b2n y)%N && bytes_ltb a' b')
  end.
Fixpoint btree_insert (k : bytes) (x : tomlval) (es : list (bytes * tomlval)) : list (bytes * tomlval) :=
  match es with
  | [] => [(k, x)]
  | (k', x') :: es' =>
    if bytes_eqb k' k then (k', x) :: es'
    else if bytes_ltb k k' then (k, x) :: (k', x') :: es'
    else (k', x') :: btree_insert k x es'
  end.
Definition btree_of_pairs (ps : list (bytes * tomlval)) : list (bytes * tomlval) :=
  fold_left (fun acc p => btree_insert (fst p) (snd p) acc) ps [].

Definition tv_int_err (w : int_ty) : err :=
  match ser_method_of w with
  | M_u64 => EU64TooLarge
  | M_i128 => EInt128 false
  | M_u128 => EInt128 true
  | M_i64 => EBadCase
  end.

(* SerializeMap::serialize_value: the value goes to a ValueSerializer that carries `is_none`; only `serialize_none`
   called on THAT serializer sets it (serialize_some and serialize_newtype_struct hand the inner value to a fresh
   one), and only then is the UnsupportedNone swallowed and the entry left out — exactly toml_edit's
   MapValueSerializer: `ser_map_value tv_ser`.  (Repair of C07-tryfrom-nested-none-dropped; before, ANY
   UnsupportedNone coming out of the value was swallowed.) *)
(* SerializeMap::serialize_key: `match Value::try_from(key)? { Value::String(s) => .., _ => Err(key_not_string) }` *)
Definition tv_key (r : result tomlval) : result bytes :=
  match r with
  | Ok (VStr s) => Ok s
  | Ok _ => Err EKeyNotString
  | Err e => Err e
  end.

(* Map key types on which Value::try_from and the document serializers give the same verdict: SerializeMap::serialize_key
   accepts whatever serializes to a Value::String — a `char` and an `Option<String>` too, which toml_edit's
   KeySerializer refuses (a documented difference of the two entry points, not a loss of data) *)
Fixpoint doc_key_ty (t : ty) : bool :=
  match t with
  | TChar | TOpt _ => false
  | TNewtype _ t' => doc_key_ty t'
  | _ => true
  end.
Fixpoint doc_keys (t : ty) {struct t} : bool :=
  match t with
  | TOpt t' | TSeq t' | TNewtype _ t' => doc_keys t'
  | TTuple ts | TTupleStruct _ ts => forallb doc_keys ts
  | TMap k v => doc_key_ty k && doc_keys k && doc_keys v
  | TStruct _ fs => forallb (fun ft => doc_keys (snd ft)) fs
  | TEnum _ vs => forallb (fun nv => doc_keys_variant (snd nv)) vs
  | _ => true
  end
with doc_keys_variant (var : variant) {struct var} : bool :=
  match var with
  | VUnit => true
  | VNewtype t => doc_keys t
  | VTuple ts => forallb doc_keys ts
  | VStruct fs => forallb (fun ft => doc_keys (snd ft)) fs
  end.

(* ValueSerializer::serialize_struct remembers `name == NAME` (toml_datetime's private struct); SerializeStruct::end
   then yields the date-time itself: the entry FIELD must be a string that parses (repair of
   C13-tryfrom-datetime-table; before, the struct was written as the table { FIELD = "text" }) *)
Fixpoint tab_find (k : bytes) (es : list (bytes * tomlval)) : option tomlval :=
  match es with
  | [] => None
  | (k', x) :: es' => if bytes_eqb k' k then Some x else tab_find k es'
  end.
Definition tv_dt_end (es : list (bytes * tomlval)) : result tomlval :=
  match tab_find DT_FIELD es with
  | Some (VStr s) => rmap VDatetime (dt_field_str s)
  | Some _ => Err EDateInvalid
  | None => Err EUnsupportedNone
  end.

Fixpoint tv_ser (t : ty) (v : sval) {struct t} : result tomlval :=
  match t, v with
  | TBool, SBool b => Ok (VBool b)
  | TInt w, SInt z => match tv_ser_int w z with Some i => Ok (VInt i) | None => Err (tv_int_err w) end
  | TFloat F64, SF64 b => Ok (VFloat (canon_nan b))
  | TFloat F32, SF32 b => Ok (VFloat (canon_nan (widen32 b)))
  | TChar, SChar c => Ok (VStr (utf8_encode c))
  | TStr, SStr s => Ok (VStr s)
  | TDatetime _, SDt d => ser_datetime d         (* serialize_struct: name == NAME => the date-time itself (tv_dt_end) *)
  | TUnit, SUnit => Err (EUnsupportedType (Some S_unit))
  | TUnitStruct n, SUnit => Err (EUnsupportedType (Some n))
  | TOpt _, SNone => Err EUnsupportedNone
  | TOpt t', SSome v' => tv_ser t' v'
  | TSeq t', SSeq vs => rmap VArr (mapM (tv_ser t') vs)
  | TTuple ts, SSeq vs => rmap VArr (zipM tv_ser ts vs)
  | TTupleStruct _ ts, SSeq vs => rmap VArr (zipM tv_ser ts vs)
  | TMap kt vt, SMap es =>
    rmap (fun ps => VTab (btree_of_pairs (somes_pairs ps)))
         (mapM (fun kv => rbind (tv_key (tv_ser kt (fst kv))) (fun k =>
                          rmap (optmap (fun x => (k, x))) (ser_map_value tv_ser vt (snd kv)))) es)
  | TStruct n fs, SRec vs =>
    rbind (zipM (fun ft v' => rmap (optmap (fun x => (fst ft, x))) (ser_map_value tv_ser (snd ft) v')) fs vs)
          (fun ps => if bytes_eqb n DT_NAME then tv_dt_end (btree_of_pairs (somes_pairs ps))
                     else Ok (VTab (btree_of_pairs (somes_pairs ps))))
  | TNewtype _ t', SNewtype v' => tv_ser t' v'
  | TEnum _ vs, SVariant i p =>
    pick (fun nv =>
            match snd nv with
            | VUnit => match p with SUnit => Ok (VStr (fst nv)) | _ => Err EBadCase end
            | _ => rmap (fun x => VTab [(fst nv, x)]) (tv_payload (snd nv) p)
            end) (Err EBadCase) vs i
  | _, _ => Err EBadCase
  end
with tv_payload (var : variant) (p : sval) {struct var} : result tomlval :=
  match var, p with
  | VNewtype t, p => tv_ser t p
  | VTuple ts, SSeq vs => rmap VArr (zipM tv_ser ts vs)
  | VStruct fs, SRec vs =>
    rmap (fun ps => VTab (btree_of_pairs (somes_pairs ps)))
         (zipM (fun ft v' => rmap (optmap (fun x => (fst ft, x))) (ser_map_value tv_ser (snd ft) v')) fs vs)
  | _, _ => Err EBadCase
  end.

(* TableSerializer: only maps, structs, newtype variants become a table; Some / newtype structs pass
   the SAME serializer down; everything else is refused — unit variants, tuple structs, tuple
   variants and struct variants with UnsupportedType(Some(name)), the rest with UnsupportedType(None) *)
Fixpoint tv_ser_table (t : ty) (v : sval) {struct t} : result tomlval :=
  match t, v with
  | TOpt _, SNone => Err EUnsupportedNone
  | TOpt t', SSome v' => tv_ser_table t' v'
  | TNewtype _ t', SNewtype v' => tv_ser_table t' v'
  | TMap _ _, SMap _ => tv_ser t v
  | TStruct _ fs, SRec vs =>                              (* TableSerializer::serialize_struct = serialize_map: any name *)
    rmap (fun ps => VTab (btree_of_pairs (somes_pairs ps)))
         (zipM (fun ft v' => rmap (optmap (fun x => (fst ft, x))) (ser_map_value tv_ser (snd ft) v')) fs vs)
  | TDatetime _, SDt d => Ok (VTab [(DT_FIELD, VStr (display_datetime d))])   (* known class private-datetime-key *)
  | TTupleStruct n _, SSeq _ => Err (EUnsupportedType (Some n))
  | TEnum n vs, SVariant i p =>
    pick (fun nv =>
            match snd nv with
            | VNewtype _ => tv_ser t v
            | _ => Err (EUnsupportedType (Some n))
            end) (Err EBadCase) vs i
  | TInt w, SInt _ =>                                   (* serialize_i128 / serialize_u128: serde's defaults *)
    match ser_method_of w with M_i128 => Err (EInt128 false) | M_u128 => Err (EInt128 true) | _ => Err (EUnsupportedType None) end
  | TBool, SBool _ | TFloat _, SF64 _ | TFloat _, SF32 _ | TChar, SChar _ | TStr, SStr _
  | TUnit, SUnit | TUnitStruct _, SUnit | TSeq _, SSeq _ | TTuple _, SSeq _ => Err (EUnsupportedType None)
  | _, _ => Err EBadCase
  end.
