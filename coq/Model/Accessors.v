(* Model/Accessors.v — the read API of the decoded tree: how a caller LOOKS at an Item / Value.
   Transcribed from crates/toml_edit/src/value.rs (Value::type_name, as_x / is_x),
   crates/toml_edit/src/item.rs (Item::type_name, as_x / is_x, as_table_like, get) and
   crates/toml_edit/src/index.rs (Index for str / usize / String / &T, Index<&str> for DocumentMut),
   plus the element accessors Array::get / Array::len, InlineTable::get, Table::get.
   No proofs here (Proofs/AccessorsSpec.v, Props/C02acc.v). *)
From TV Require Import Base.Prelude Model.Datetime Model.Numbers Model.Tree Extract.Show.
Require Import String.

Definition is_some {A} (o : option A) : bool := match o with Some _ => true | None => false end.
Definition and_then {A B} (o : option A) (f : A -> option B) : option B :=
  match o with Some a => f a | None => None end.

(* ---- value.rs ------------------------------------------------------------------------- *)
(* Value::type_name *)
Definition value_type_name (v : value) : bytes :=
  match v with
  | VScalar (SString _) _ _ => str "string"
  | VScalar (SInt _) _ _ => str "integer"
  | VScalar (SFloat _) _ _ => str "float"
  | VScalar (SBool _) _ _ => str "boolean"
  | VScalar (SDatetime _) _ _ => str "datetime"
  | VArray _ _ _ _ _ => str "array"
  | VInline _ _ _ _ _ _ => str "inline table"
  end.

(* Value::as_str / as_integer / as_float / as_bool / as_datetime: `match *self { Value::X(ref value) => Some(value.value()), _ => None }` *)
Definition value_as_str (v : value) : option bytes :=
  match v with VScalar (SString s) _ _ => Some s | _ => None end.
Definition value_as_integer (v : value) : option Z :=
  match v with VScalar (SInt z) _ _ => Some z | _ => None end.
Definition value_as_float (v : value) : option fval :=
  match v with VScalar (SFloat f) _ _ => Some f | _ => None end.
Definition value_as_bool (v : value) : option bool :=
  match v with VScalar (SBool b) _ _ => Some b | _ => None end.
Definition value_as_datetime (v : value) : option datetime :=
  match v with VScalar (SDatetime d) _ _ => Some d | _ => None end.
(* Value::as_array -> &Array (its `values` vector) ; Value::as_inline_table -> &InlineTable (its `items`) *)
Definition value_as_array (v : value) : option (list item) :=
  match v with VArray vals _ _ _ _ => Some vals | _ => None end.
Definition value_as_inline_table (v : value) : option (list (key * item)) :=
  match v with VInline items _ _ _ _ _ => Some items | _ => None end.
(* Value::is_x = self.as_x().is_some() *)
Definition value_is_str v := is_some (value_as_str v).
Definition value_is_integer v := is_some (value_as_integer v).
Definition value_is_float v := is_some (value_as_float v).
Definition value_is_bool v := is_some (value_as_bool v).
Definition value_is_datetime v := is_some (value_as_datetime v).
Definition value_is_array v := is_some (value_as_array v).
Definition value_is_inline_table v := is_some (value_as_inline_table v).

(* ---- item.rs -------------------------------------------------------------------------- *)
(* Item::as_value / as_table / as_array_of_tables *)
Definition item_as_value (it : item) : option value := match it with IValue v => Some v | _ => None end.
Definition item_as_table (it : item) : option tbl := match it with ITable t => Some t | _ => None end.
Definition item_as_aot (it : item) : option (list tbl) := match it with IAot ts _ => Some ts | _ => None end.
(* Item::is_none = matches!(self, Item::None) ; is_value / is_table / is_array_of_tables = as_x().is_some() *)
Definition item_is_none (it : item) : bool := match it with INone => true | _ => false end.
Definition item_is_value it := is_some (item_as_value it).
Definition item_is_table it := is_some (item_as_table it).
Definition item_is_aot it := is_some (item_as_aot it).
(* Item::type_name *)
Definition item_type_name (it : item) : bytes :=
  match it with
  | INone => str "none"
  | IValue v => value_type_name v
  | ITable _ => str "table"
  | IAot _ _ => str "array of tables"
  end.
(* "Duplicate Value downcasting API": self.as_value().and_then(Value::as_x) ; is_x = as_x().is_some() *)
Definition item_as_str it := and_then (item_as_value it) value_as_str.
Definition item_as_integer it := and_then (item_as_value it) value_as_integer.
Definition item_as_float it := and_then (item_as_value it) value_as_float.
Definition item_as_bool it := and_then (item_as_value it) value_as_bool.
Definition item_as_datetime it := and_then (item_as_value it) value_as_datetime.
Definition item_as_array it := and_then (item_as_value it) value_as_array.
Definition item_as_inline_table it := and_then (item_as_value it) value_as_inline_table.
Definition item_is_str it := is_some (item_as_str it).
Definition item_is_integer it := is_some (item_as_integer it).
Definition item_is_float it := is_some (item_as_float it).
Definition item_is_bool it := is_some (item_as_bool it).
Definition item_is_datetime it := is_some (item_as_datetime it).
Definition item_is_array it := is_some (item_as_array it).
Definition item_is_inline_table it := is_some (item_as_inline_table it).
(* Item::as_table_like: self.as_table().map(..).or_else(|| self.as_inline_table().map(..)) — the entries either way *)
Definition item_as_table_like (it : item) : option (list (key * item)) :=
  match item_as_table it with
  | Some t => Some (t_items t)
  | None => item_as_inline_table it
  end.
Definition item_is_table_like it := is_some (item_as_table_like it).

(* ---- element accessors ---------------------------------------------------------------- *)
(* Table::get: self.items.get(key).and_then(|v| if !v.is_none() { Some(v) } else { None }) *)
Definition table_get (items : list (key * item)) (k : bytes) : option item :=
  match kv_get items k with
  | Some (_, v) => if item_is_none v then None else Some v
  | None => None
  end.
(* InlineTable::get: self.items.get(key).and_then(|v| v.as_value()) *)
Definition inline_get (items : list (key * item)) (k : bytes) : option value :=
  match kv_get items k with
  | Some (_, v) => item_as_value v
  | None => None
  end.
(* Array::get: self.values.get(index).and_then(Item::as_value) ; Array::len = self.values.len() *)
Definition array_get (vals : list item) (i : nat) : option value := and_then (nth_error vals i) item_as_value.
Definition array_len (vals : list item) : nat := List.length vals.

(* Table::len = self.iter().count() (Table::iter skips placeholders) ; InlineTable::len = self.iter().count() (values only);
   TableLike::len (default method, both impls) = self.iter().filter(|(_, v)| !v.is_none()).count() over the view's own iter ;
   is_empty = len() == 0 *)
Definition table_len (items : list (key * item)) : nat :=
  List.length (filter (fun kv => negb (item_is_none (snd kv))) items).
Definition inline_len (items : list (key * item)) : nat :=
  List.length (filter (fun kv => item_is_value (snd kv)) items).
Definition tablelike_len (it : item) : option nat :=
  match item_as_table it with
  | Some t => Some (table_len (t_items t))
  | None => option_map inline_len (item_as_inline_table it)
  end.

(* ---- index.rs ------------------------------------------------------------------------- *)
(* impl Index for str :: index  (Item::get("k"); `String` and `&T` delegate to it) *)
Definition index_str (k : bytes) (it : item) : option item :=
  match it with
  | ITable t => table_get (t_items t) k
  | IValue v =>
    and_then (and_then (value_as_inline_table v) (fun items => option_map snd (kv_get items k)))
             (fun x => if negb (item_is_none x) then Some x else None)
  | _ => None
  end.
(* impl Index for usize :: index  (Item::get(i)); an array of tables holds its tables as Item::Table *)
Definition index_usize (i : nat) (it : item) : option item :=
  match it with
  | IAot ts _ => option_map ITable (nth_error ts i)
  | IValue a => if value_is_array a then and_then (value_as_array a) (fun vals => nth_error vals i) else None
  | _ => None
  end.
(* impl Index<&str> for DocumentMut :: index = self.root.index(key) — `expect("index not found")` is the
   caller's contract; the observation asks only for present keys, None stands for the panic *)
Definition doc_index (root : item) (k : bytes) : option item := index_str k root.

(* ---- the observation: every node, looked at through the accessors only ------------------ *)
Definition bit (b : bool) : bytes := if b then str "1" else str "0".
Definition us (s : bytes) : bytes := List.map (fun b => if b2n b =? 32 then n2b 95 else b)%N s.   (* ' ' -> '_' *)
Definition opt_list {A} (f : A -> bytes) (o : option A) : list bytes := match o with Some a => [f a] | None => [] end.
Definition plus_join (l : list bytes) : bytes := match l with [] => str "-" | _ => join (str "+") l end.
Definition show_tn (o : option bytes) : bytes := match o with Some t => us t | None => str "NONE" end.

Definition value_head (v : value) : bytes :=
  us (value_type_name v) ++ str "/"
  ++ bit (value_is_str v) ++ bit (value_is_integer v) ++ bit (value_is_float v) ++ bit (value_is_bool v)
  ++ bit (value_is_datetime v) ++ bit (value_is_array v) ++ bit (value_is_inline_table v) ++ str "/"
  ++ plus_join (opt_list (fun s => str "s:" ++ show_hex s) (value_as_str v)
                ++ opt_list (fun z => str "i:" ++ show_Z z) (value_as_integer v)
                ++ opt_list show_fval (value_as_float v)
                ++ opt_list (fun b => str "b:" ++ show_bool b) (value_as_bool v)
                ++ opt_list show_datetime (value_as_datetime v)
                ++ opt_list (fun a => str "n:" ++ show_nat (array_len a)) (value_as_array v)).

Definition item_head (it : item) : bytes :=
  us (item_type_name it) ++ str "/"
  ++ bit (item_is_none it) ++ bit (item_is_value it) ++ bit (item_is_table it) ++ bit (item_is_aot it)
  ++ bit (item_is_table_like it)
  ++ bit (item_is_str it) ++ bit (item_is_integer it) ++ bit (item_is_float it) ++ bit (item_is_bool it)
  ++ bit (item_is_datetime it) ++ bit (item_is_array it) ++ bit (item_is_inline_table it) ++ str "/"
  ++ plus_join (opt_list (fun s => str "s:" ++ show_hex s) (item_as_str it)
                ++ opt_list (fun z => str "i:" ++ show_Z z) (item_as_integer it)
                ++ opt_list show_fval (item_as_float it)
                ++ opt_list (fun b => str "b:" ++ show_bool b) (item_as_bool it)
                ++ opt_list show_datetime (item_as_datetime it)
                ++ opt_list (fun a => str "n:" ++ show_nat (array_len a)) (item_as_array it)
                ++ opt_list (fun n => str "l:" ++ show_nat n ++ str ":" ++ show_nat n ++ (if Nat.eqb n 0 then str "e" else [])) (tablelike_len it)).

(* a Value: its head, then its elements as Array::get(i) / InlineTable::iter + get(k) hand them out *)
Fixpoint acc_value (v : value) : bytes :=
  value_head v ++
  match v with
  | VScalar _ _ _ => []
  | VArray vals _ _ _ _ =>
    str "[" ++ join (str ",")
      ((fix go (l : list item) (i : nat) : list bytes :=
          match l with
          | [] => []
          | it :: tl =>
            match it with
            | IValue e => [acc_value e ++ str "@" ++ show_tn (option_map value_type_name (array_get vals i))]
            | _ => []
            end ++ go tl (S i)
          end) vals 0) ++ str "]"
  | VInline items _ _ _ _ _ =>
    str "{" ++ join (str ",")
      (flat_map (fun kv => match kv with
                           | (k, IValue e) => [show_hex (k_key k) ++ str "=" ++ acc_value e ++ str "@"
                                               ++ show_tn (option_map value_type_name (inline_get items (k_key k)))]
                           | _ => [] end) items) ++ str "}"
  end.

(* an Item: its head; a value's elements; a table's entries (Table::iter skips placeholders) each with what
   Item::get(key) answers; an array of tables' elements each with what Item::get(i) answers, and Item::get(len) *)
Fixpoint acc_tbl (t : tbl) : bytes :=
  match t with
  | Tbl items _ _ _ _ _ =>
    item_head (ITable t) ++ str "T{" ++ join (str ",")
      (flat_map (fun kv =>
         match kv with
         | (_, INone) => []
         | (k, IValue e) => [show_hex (k_key k) ++ str "=" ++ item_head (IValue e) ++ str "V(" ++ acc_value e ++ str ")"
                             ++ str "@" ++ show_tn (option_map item_type_name (index_str (k_key k) (ITable t)))]
         | (k, ITable sub) => [show_hex (k_key k) ++ str "=" ++ acc_tbl sub
                               ++ str "@" ++ show_tn (option_map item_type_name (index_str (k_key k) (ITable t)))]
         | (k, IAot ts sp) => [show_hex (k_key k) ++ str "=" ++ item_head (IAot ts sp) ++ str "A["
                               ++ join (str ",")
                                    ((fix go (l : list tbl) (i : nat) : list bytes :=
                                        match l with
                                        | [] => []
                                        | e :: tl => (acc_tbl e ++ str "@" ++ show_tn (option_map item_type_name (index_usize i (IAot ts sp))))
                                                     :: go tl (S i)
                                        end) ts 0)
                               ++ str "]" ++ show_tn (option_map item_type_name (index_usize (List.length ts) (IAot ts sp)))
                               ++ str "@" ++ show_tn (option_map item_type_name (index_str (k_key k) (ITable t)))]
         end) items) ++ str "}"
  end.

(* a value item's array elements once more through Item::get(i) (Index for usize on Item::Value) *)
Definition acc_item_indices (it : item) : bytes :=
  match item_as_array it with
  | Some vals => join (str ",") (List.map (fun i => show_tn (option_map item_type_name (index_usize i it))) (seq 0 (S (List.length vals))))
  | None => str "-"
  end.

(* the document: the root table as an item, then doc["k"] for every root key *)
Definition acc_doc (root : tbl) : bytes :=
  acc_tbl root ++ str " idx="
  ++ plus_join (flat_map (fun kv => match kv with
                                    | (_, INone) => []
                                    | (k, it) => [show_tn (option_map item_type_name (doc_index (ITable root) (k_key k)))
                                                  ++ str ":" ++ acc_item_indices it]
                                    end) (t_items root)).
