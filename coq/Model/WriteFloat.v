(* Model/WriteFloat.v — crates/toml_write/src/value.rs: `impl WriteTomlValue for f64` and
   `impl WriteTomlValue for f32` (the two bodies are token-for-token the same).

   The repository's logic is a function of
     - four observations of the float made with core float operations
         is_sign_negative(), is_nan(), `*self == 0.0`, `self % 1.0 == 0.0`
       (collected in the record `fclass`), and
     - the text std's `{}` (Display) prints for it,
   and that is exactly how it is modelled.  The std printer is an ORACLE (DESIGN.md 4.4):
   its text is an argument here.  The four observations are IEEE-754 operations; they are
   given their obvious functional spec on bit patterns (`classify`), used by the
   correspondence command so that model and implementation receive the same input (bits). *)
From TV Require Import Base.Prelude.

Record fclass : Set := mkFC {
  fc_neg : bool;        (* self.is_sign_negative() *)
  fc_nan : bool;        (* self.is_nan() *)
  fc_zero : bool;       (* *self == 0.0 *)
  fc_integral : bool    (* self % 1.0 == 0.0   (false for NaN and for the infinities: inf % 1.0 is NaN) *)
}.

Definition t_nan : bytes := [x6e; x61; x6e].                 (* "nan" *)
Definition t_neg_nan : bytes := [x2d; x6e; x61; x6e].        (* "-nan" *)
Definition t_zero : bytes := [x30; x2e; x30].                (* "0.0" *)
Definition t_neg_zero : bytes := [x2d; x30; x2e; x30].       (* "-0.0" *)
Definition t_dot_zero : bytes := [x2e; x30].                 (* ".0" *)

(* value.rs: <f64 as WriteTomlValue>::write_toml_value / <f32 as WriteTomlValue>::write_toml_value
     match (self.is_sign_negative(), self.is_nan(), *self == 0.0) {
         (true, true, _) => write!(writer, "-nan"),
         (false, true, _) => write!(writer, "nan"),
         (true, false, true) => write!(writer, "-0.0"),
         (false, false, true) => write!(writer, "0.0"),
         (_, false, false) => if self % 1.0 == 0.0 { write!(writer, "{self}.0") } else { write!(writer, "{self}") }
     } *)
Definition write_float (c : fclass) (std_text : bytes) : bytes :=
  match fc_neg c, fc_nan c, fc_zero c with
  | true, true, _ => t_neg_nan
  | false, true, _ => t_nan
  | true, false, true => t_neg_zero
  | false, false, true => t_zero
  | _, false, false => if fc_integral c then std_text ++ t_dot_zero else std_text
  end.

(* ---- the four observations as functions of an IEEE-754 bit pattern ------------------------
   format parameters: ebits exponent bits, mbits stored mantissa bits (f64: 11/52, f32: 8/23).
   value of a finite pattern = (-1)^s * mant' * 2^(e' - bias - mbits) with
   (e', mant') = (1, mant) for subnormals and (e, 2^mbits + mant) otherwise. *)
Definition classify (ebits mbits : N) (bits : N) : fclass :=
  let mant := (bits mod 2 ^ mbits)%N in
  let ex := ((bits / 2 ^ mbits) mod 2 ^ ebits)%N in
  let neg := N.testbit bits (ebits + mbits) in
  let emax := (2 ^ ebits - 1)%N in
  let bias := (2 ^ (ebits - 1) - 1)%N in
  let nan := (ex =? emax)%N && negb (mant =? 0)%N in
  let zero := (ex =? 0)%N && (mant =? 0)%N in
  (* x % 1.0 == 0.0 : x finite and an integer (zero included; NaN/inf give NaN % 1.0 = NaN) *)
  let integral :=
      if (ex =? emax)%N then false
      else if (ex =? 0)%N then (mant =? 0)%N                      (* subnormals are < 1 *)
      else if (bias + mbits <=? ex)%N then true                    (* ulp >= 1 *)
      else if (ex <? bias)%N then false                            (* 0 < |x| < 1 *)
      else ((mant mod 2 ^ (bias + mbits - ex)) =? 0)%N in          (* fractional bits all zero *)
  mkFC neg nan zero integral.

Definition classify64 : N -> fclass := classify 11 52.
Definition classify32 : N -> fclass := classify 8 23.

(* f64::from(f32) (`impl From<f32> for f64`, an exact conversion) on bit patterns:
   sign kept; normal: exponent rebiased (127 -> 1023), mantissa shifted left by 29;
   subnormal m * 2^-149 with highest set bit k: 2^(k-149) * (m / 2^k), a normal f64;
   zero -> zero; inf -> inf; NaN -> a NaN (payload shifted). *)
Definition widen32 (bits : N) : N :=
  let mant := (bits mod 2 ^ 23)%N in
  let ex := ((bits / 2 ^ 23) mod 2 ^ 8)%N in
  let sign := ((bits / 2 ^ 31) mod 2)%N in
  let '(e64, m64) :=
      (if (ex =? 255) then (2047, mant * 2 ^ 29)
       else if (ex =? 0) then
         if (mant =? 0) then (0, 0)
         else let k := N.log2 mant in (k + 874, (mant - 2 ^ k) * 2 ^ (52 - k))
       else (ex + 896, mant * 2 ^ 29))%N in
  (sign * 2 ^ 63 + e64 * 2 ^ 52 + m64)%N.

(* to_toml_value() of an f64 with the given bit pattern, given std's `{}` text for it *)
Definition write_f64 (bits : N) (std_text : bytes) : bytes := write_float (classify64 bits) std_text.

(* value.rs: <f32 as WriteTomlValue>::write_toml_value
     match (self.is_sign_negative(), self.is_nan(), *self == 0.0) {
         (true, true, _) => "-nan", (false, true, _) => "nan",
         (true, false, true) => "-0.0", (false, false, true) => "0.0",
         (_, false, false) => f64::from( *self ).write_toml_value(writer),
     }
   `std_text` is std's `{}` text of the WIDENED value (an f64). *)
Definition write_f32 (bits : N) (std_text : bytes) : bytes :=
  let c := classify32 bits in
  match fc_neg c, fc_nan c, fc_zero c with
  | true, true, _ => t_neg_nan
  | false, true, _ => t_nan
  | true, false, true => t_neg_zero
  | false, false, true => t_zero
  | _, false, false => write_f64 (widen32 bits) std_text
  end.
