(* Model/AccessorsToml.v — the read API of toml::Value (crates/toml/src/value.rs: type_str, same_type, as_x / is_x,
   get, impl Index for usize / str / String / &T) over Spec/SerdeData.v's tomlval.  No proofs here
   (Proofs/AccessorsTomlSpec.v, Props/C02acc.v). *)
From TV Require Import Base.Prelude Model.Datetime Spec.SerdeData Extract.Show Model.Accessors.
Require Import String.

(* Value::type_str *)
Definition tv_type_str (v : tomlval) : bytes :=
  match v with
  | VStr _ => str "string" | VInt _ => str "integer" | VFloat _ => str "float" | VBool _ => str "boolean"
  | VDatetime _ => str "datetime" | VArr _ => str "array" | VTab _ => str "table"
  end.
(* Value::same_type: discriminant(self) == discriminant(other) *)
Definition tv_disc (v : tomlval) : N :=
  match v with VStr _ => 0 | VInt _ => 1 | VFloat _ => 2 | VBool _ => 3 | VDatetime _ => 4 | VArr _ => 5 | VTab _ => 6 end.
Definition tv_same_type (a b : tomlval) : bool := (tv_disc a =? tv_disc b)%N.
(* Value::as_x: `match *self { Value::X(v) => Some(v), _ => None }` ; is_x = as_x().is_some() *)
Definition tv_as_str v := match v with VStr s => Some s | _ => None end.
Definition tv_as_integer v := match v with VInt z => Some z | _ => None end.
Definition tv_as_float v := match v with VFloat b => Some b | _ => None end.
Definition tv_as_bool v := match v with VBool b => Some b | _ => None end.
Definition tv_as_datetime v := match v with VDatetime d => Some d | _ => None end.
Definition tv_as_array v := match v with VArr xs => Some xs | _ => None end.
Definition tv_as_table v := match v with VTab es => Some es | _ => None end.
Definition tv_is_str v := is_some (tv_as_str v).
Definition tv_is_integer v := is_some (tv_as_integer v).
Definition tv_is_float v := is_some (tv_as_float v).
Definition tv_is_bool v := is_some (tv_as_bool v).
Definition tv_is_datetime v := is_some (tv_as_datetime v).
Definition tv_is_array v := is_some (tv_as_array v).
Definition tv_is_table v := is_some (tv_as_table v).
(* Map::get (both map kinds: the entry stored under the key) *)
Fixpoint tv_map_get (es : list (bytes * tomlval)) (k : bytes) : option tomlval :=
  match es with
  | [] => None
  | (k', v) :: tl => if bytes_eqb k' k then Some v else tv_map_get tl k
  end.
(* impl Index for usize / str (String and &T delegate) ; Value::get = index.index(self) *)
Definition tv_index_usize (i : nat) (v : tomlval) : option tomlval := match v with VArr xs => nth_error xs i | _ => None end.
Definition tv_index_str (k : bytes) (v : tomlval) : option tomlval := match v with VTab es => tv_map_get es k | _ => None end.

(* one probe value per kind, for same_type *)
Definition tv_probes : list tomlval :=
  [VStr []; VInt 0; VFloat 0; VBool false; VDatetime (mkDT None None None); VArr []; VTab []].

Definition tv_head (v : tomlval) : bytes :=
  us (tv_type_str v) ++ str "/"
  ++ bit (tv_is_str v) ++ bit (tv_is_integer v) ++ bit (tv_is_float v) ++ bit (tv_is_bool v)
  ++ bit (tv_is_datetime v) ++ bit (tv_is_array v) ++ bit (tv_is_table v) ++ str "/"
  ++ flat_map (fun p => bit (tv_same_type v p)) tv_probes ++ str "/"
  ++ plus_join (opt_list (fun s => str "s:" ++ show_hex s) (tv_as_str v)
                ++ opt_list (fun z => str "i:" ++ show_Z z) (tv_as_integer v)
                ++ opt_list (fun _ => str "f:?") (tv_as_float v)
                ++ opt_list (fun b => str "b:" ++ show_bool b) (tv_as_bool v)
                ++ opt_list show_datetime (tv_as_datetime v)
                ++ opt_list (fun a => str "n:" ++ show_nat (List.length a)) (tv_as_array v)
                ++ opt_list (fun a => str "m:" ++ show_nat (List.length a)) (tv_as_table v)).

(* map.rs: the iterators of toml::Map are double-ended (delegate_iterator!: next_back, len): reading from the back gives the
   entries in reverse; alternating next() / next_back() gives first, last, second, last but one, ... each entry once *)
Fixpoint alternate (fuel : nat) (l : list bytes) : list bytes :=
  match fuel with
  | O => []
  | S f => match l with
           | [] => []
           | x :: tl => match rev tl with
                        | [] => [x]
                        | y :: rtl => x :: y :: alternate f (rev rtl)
                        end
           end
  end.
Definition show_back (es : list (bytes * tomlval)) : bytes :=
  str "r=" ++ plus_join (rev (List.map (fun kv => show_hex (fst kv)) es))
  ++ str "x=" ++ plus_join (alternate (S (List.length es)) (List.map (fun kv => show_hex (fst kv)) es)).

Fixpoint acc_tv (v : tomlval) : bytes :=
  tv_head v ++
  match v with
  | VArr xs =>
    str "[" ++ join (str ",")
      ((fix go (l : list tomlval) (i : nat) : list bytes :=
          match l with
          | [] => []
          | e :: tl => (acc_tv e ++ str "@" ++ show_tn (option_map tv_type_str (tv_index_usize i v))) :: go tl (S i)
          end) xs 0) ++ str "]" ++ show_tn (option_map tv_type_str (tv_index_usize (List.length xs) v))
  | VTab es =>
    str "{" ++ join (str ",")
      (List.map (fun kv => show_hex (fst kv) ++ str "=" ++ acc_tv (snd kv) ++ str "@"
                           ++ show_tn (option_map tv_type_str (tv_index_str (fst kv) v))) es) ++ str "}" ++ show_back es
  | _ => []
  end.
