(* Model/DeLoc.v — toml_edit's deserializer on the span-carrying value tree, with the ERROR PLUMBING
   transcribed (the serde half of property C15): where a deserialization error gets its span and
   its key path from.

   The tree is eng-c07's `stree` (Model/SerdeSpanned.v): every node and every table key has an
   optional span (ImDocument: Some; DocumentMut / toml::Value: None, `despan`).
   The deserializer is Model/De.v `de_value` again (the same protocol of derive / std impls, the same
   acceptance), but
     * a struct's entries are visited in TABLE ORDER (the first error in that order is the one
       reported; De.v goes field by field because the order cannot be observed there);
     * errors are values `lerr` = kind, span, key path, and — ghost data for the statements, not
       present in the Rust error — the path `e_at` from the node being deserialized to the node the
       error was raised at (`e_onkey`: at the KEY of the last step, not at its value).

   crates/toml_edit/src/error.rs, de/mod.rs
     Error::custom(msg, span)            raise_at (errors the crate creates itself carry a span)
     serde::de::Error::custom(msg)       raise    (errors of visitors / derive: span None)
     `if e.span().is_none() { e.set_span(span) }`    wrap span
     e.add_key(key)                      addkey   (keys.insert(0, key))
   Where they are applied:
     de/value.rs  ValueDeserializer::deserialize_any / _option / _newtype_struct / _enum, the
                  date-time and key-validation arms of _struct:        wrap (span of the node)
     de/table.rs  TableMapAccess::next_key_seed:                       wrap (span of the key)
                  TableMapAccess::next_value_seed:                     wrap (value span, else key span), addkey
                  TableMapAccess::variant_seed:                        wrap (span of the key), NO addkey
     de/array.rs  ArraySeqAccess::next_element_seed:                   wrap (span of the element)
     de/table_enum.rs  TableEnumDeserializer: its own errors carry spans; newtype_variant_seed:
                  wrap (span of the payload); the elements of a tuple variant go through
                  ArraySeqAccess; the variant's key is NOT added
                  (known finding C15-de-keypath-omits-enum-variant)
     toml_datetime  Date::deserialize / Time::deserialize: the kind mismatch is raised AFTER
                  Datetime::deserialize(deserializer) returned, outside every wrapper of that node:
                  it gets its span from the access that handed the node out (next_value_seed,
                  next_element_seed, newtype_variant_seed, deserialize_option / _newtype_struct)
   `cfg`: deny n = the struct called n is `#[serde(deny_unknown_fields)]`;
          opt_overwrite = the seeded change "deserialize_option sets the span unconditionally". *)
From TV Require Import Base.Prelude Base.Utf8 Model.Datetime Model.DatetimeStd Model.SerNum Spec.SerdeData Model.De Model.SerdeSpanned.

(* ---- errors ---------------------------------------------------------------------------------- *)
Inductive ekind : Set :=
| KWrongType          (* invalid_type: the visitor does not accept this shape *)
| KOutOfRange         (* invalid_value: an integer outside the target type *)
| KMissing (f : bytes)(* missing_field *)
| KUnknownVariant     (* unknown_variant *)
| KUnknownField       (* unknown_field (deny_unknown_fields) / "unexpected keys in table" (struct variants) *)
| KLength             (* invalid_length / "expected tuple with length n" *)
| KDupField           (* duplicate_field *)
| KEnumShape          (* "wanted string or table", "wanted exactly 1 element, .." *)
| KDtKind             (* Date / Time fed another kind of date-time *)
| KOther              (* char of a longer string, date-time text, unit variant payload, tuple-variant key *)
| KUnmodelled.        (* a path Model/De.v does not follow either *)

(* one step from a node towards the offending node *)
Inductive step : Set :=
| SKey (i : nat) (k : bytes)     (* the value of the i-th entry of a table, whose key is k *)
| SIdx (i : nat)                 (* the i-th element of an array *)
| SVar (k : bytes)               (* the payload of the enum variant written as the one-entry table { k = .. } *)
| SPos (i : nat) (k : bytes).    (* the i-th component of a tuple variant written as a table { 0 = .., 1 = .. } *)

Record lerr : Set := mkErr {
  e_kind : ekind;
  e_span : ospan;              (* Error::span() *)
  e_keys : list bytes;         (* TomlError::keys, rendered as "in `a.b.c`" *)
  e_at : list step;            (* ghost: where the error was raised *)
  e_onkey : bool               (* ghost: at the key of the last step *)
}.

Inductive lres (A : Type) : Type := LOk (a : A) | LErr (e : lerr).
Arguments LOk {A} a.
Arguments LErr {A} e.

Definition lbind {A B} (r : lres A) (f : A -> lres B) : lres B :=
  match r with LOk a => f a | LErr e => LErr e end.
Definition lmap {A B} (f : A -> B) (r : lres A) : lres B :=
  match r with LOk a => LOk (f a) | LErr e => LErr e end.
Definition map_err {A} (f : lerr -> lerr) (r : lres A) : lres A :=
  match r with LOk a => LOk a | LErr e => LErr (f e) end.

Definition raise {A} (k : ekind) : lres A := LErr (mkErr k None [] [] false).
Definition raise_at {A} (k : ekind) (sp : ospan) : lres A := LErr (mkErr k sp [] [] false).

Definition set_span (sp : ospan) (e : lerr) : lerr := mkErr (e_kind e) sp (e_keys e) (e_at e) (e_onkey e).
(* `.map_err(|mut e| { if e.span().is_none() { e.set_span(span); } e })` *)
Definition wrap {A} (sp : ospan) : lres A -> lres A :=
  map_err (fun e => match e_span e with None => set_span sp e | Some _ => e end).
Definition wrap_always {A} (sp : ospan) : lres A -> lres A := map_err (set_span sp).
Definition addkey {A} (k : bytes) : lres A -> lres A :=
  map_err (fun e => mkErr (e_kind e) (e_span e) (k :: e_keys e) (e_at e) (e_onkey e)).
(* ghost *)
Definition under {A} (st : step) : lres A -> lres A :=
  map_err (fun e => mkErr (e_kind e) (e_span e) (e_keys e) (st :: e_at e) (e_onkey e)).
Definition on_key {A} : lres A -> lres A :=
  map_err (fun e => mkErr (e_kind e) (e_span e) (e_keys e) (e_at e) true).

Record cfg : Set := mkCfg { deny : bytes -> bool; opt_overwrite : bool }.
Definition cfg0 : cfg := mkCfg (fun _ => false) false.

(* ---- leaves ---------------------------------------------------------------------------------- *)
Definition de_char_l (s : bytes) : lres sval :=
  match de_char s with Ok v => LOk v | Err _ => raise KOther end.
Definition de_dt_str_l (s : bytes) : lres datetime :=
  match std_from_str s with Some d => LOk d | None => raise KOther end.

(* what the visitor of a scalar type says to the shape it is shown (deserialize_any on this node) *)
Definition visit_scalar (t : ty) (s : stree) : lres sval :=
  match s with
  | NLeaf _ x =>
    match t, x with
    | TBool, VBool b => LOk (SBool b)
    | TInt w, VInt z => match de_int w z with Some z' => LOk (SInt z') | None => raise KOutOfRange end
    | TFloat F64, VFloat b => LOk (SF64 b)
    | TFloat F32, VFloat b => LOk (SF32 (narrow32 b))
    | TFloat _, VInt _ => raise KUnmodelled
    | TChar, VStr s' => de_char_l s'
    | TStr, VStr s' => LOk (SStr s')
    | _, _ => raise KWrongType
    end
  | _ => raise KWrongType                       (* visit_seq / visit_map are refused *)
  end.

(* KeyDeserializer (de/key.rs): the errors have no span yet *)
Fixpoint de_key_l (t : ty) (k : bytes) {struct t} : lres sval :=
  match t with
  | TStr => LOk (SStr k)
  | TChar => de_char_l k
  | TNewtype _ t' => lmap SNewtype (de_key_l t' k)
  | TEnum _ vs =>
    find_name (fun i var => match var with VUnit => LOk (SVariant i SUnit) | _ => raise KWrongType end)
              (raise KUnknownVariant) k vs 0
  | TStruct n _ => if private_name n then raise KUnmodelled else raise KWrongType
  | _ => raise KWrongType
  end.

(* ---- visitors over the children of a node ---------------------------------------------------- *)
Definition entry := (bytes * ospan * stree)%type.
Definition en_key (e : entry) : bytes := fst (fst e).
Definition en_kspan (e : entry) : ospan := snd (fst e).
Definition en_val (e : entry) : stree := snd e.

(* TableMapAccess::next_value_seed on the i-th entry *)
Definition value_of_entry {A} (i : nat) (e : entry) (r : lres A) : lres A :=
  under (SKey i (en_key e))
        (addkey (en_key e)
                (wrap (match span_of (en_val e) with Some sp => Some sp | None => en_kspan e end) r)).
(* TableMapAccess::next_key_seed on the i-th entry *)
Definition key_of_entry {A} (i : nat) (e : entry) (r : lres A) : lres A :=
  under (SKey i (en_key e)) (on_key (wrap (en_kspan e) r)).

Section SeqVisitor.
  Variable de : ty -> stree -> lres sval.
  Variable t : ty.
  (* Vec<T>: ArraySeqAccess::next_element_seed (an error without span gets the element's) until the array ends *)
  Fixpoint seq_elems (xs : list stree) (i : nat) : lres (list sval) :=
    match xs with
    | [] => LOk []
    | x :: xs' =>
      lbind (under (SIdx i) (wrap (span_of x) (de t x))) (fun v => lbind (seq_elems xs' (S i)) (fun vs => LOk (v :: vs)))
    end.
End SeqVisitor.

Section Visitors.
  Variable de : ty -> stree -> lres sval.
  (* tuples, tuple structs, structs from arrays: one next_element per component; invalid_length when
     the array ends early; what is left over is not looked at *)
  Context {A : Type}.
  Variable proj : A -> ty.
  Fixpoint pos_elems (l : list A) (xs : list stree) (i : nat) : lres (list sval) :=
    match l with
    | [] => LOk []
    | a :: l' =>
      match xs with
      | [] => raise KLength
      | x :: xs' =>
        lbind (under (SIdx i) (wrap (span_of x) (de (proj a) x))) (fun v => lbind (pos_elems l' xs' (S i)) (fun vs => LOk (v :: vs)))
      end
    end.
End Visitors.

Section MapVisitor.
  Variable de : ty -> stree -> lres sval.
  Variables kt vt : ty.
  (* BTreeMap / HashMap: next_key_seed, next_value_seed per entry, in table order *)
  Fixpoint map_entries (es : list entry) (i : nat) : lres (list (sval * sval)) :=
    match es with
    | [] => LOk []
    | e :: es' =>
      lbind (key_of_entry i e (de_key_l kt (en_key e))) (fun k =>
      lbind (value_of_entry i e (de vt (en_val e))) (fun v =>
      lbind (map_entries es' (S i)) (fun ps => LOk ((k, v) :: ps))))
    end.
End MapVisitor.

Section StructVisitor.
  Variable de : ty -> stree -> lres sval.
  Variable fs : list (bytes * ty).
  Variable denied : bool.
  (* derive's visit_map, the loop over the entries: the field identifier visitor maps the key to the
     FIRST field of that name; a key that selects no field is an error under deny_unknown_fields
     (raised while deserializing the key) and skipped otherwise (IgnoredAny accepts any value); a field
     selected twice is duplicate_field (raised by the visitor itself, between key and value).
     Result: (field index, value) for every entry that selected a field, in table order. *)
  Fixpoint struct_scan (es : list entry) (i : nat) (seen : list nat) : lres (list (nat * sval)) :=
    match es with
    | [] => LOk []
    | e :: es' =>
      find_name
        (fun j t =>
           if existsb (Nat.eqb j) seen then raise KDupField
           else lbind (value_of_entry i e (de t (en_val e))) (fun v =>
                lbind (struct_scan es' (S i) (j :: seen)) (fun r => LOk ((j, v) :: r))))
        (if denied then key_of_entry i e (raise KUnknownField) else struct_scan es' (S i) seen)
        (en_key e) fs 0
    end.
End StructVisitor.

(* derive's visit_map, after the loop: a field no entry selected goes through missing_field
   (Option fields become None, everything else is an error) *)
Fixpoint assoc_nat {A} (j : nat) (l : list (nat * A)) : option A :=
  match l with
  | [] => None
  | (j', a) :: l' => if Nat.eqb j' j then Some a else assoc_nat j l'
  end.
Fixpoint struct_finish (fs : list (bytes * ty)) (j : nat) (got : list (nat * sval)) : lres (list sval) :=
  match fs with
  | [] => LOk []
  | (f, t) :: fs' =>
    lbind (match assoc_nat j got with
           | Some v => LOk v
           | None => match t with TOpt _ => LOk SNone | _ => raise (KMissing f) end
           end) (fun v =>
    lbind (struct_finish fs' (S j) got) (fun vs => LOk (v :: vs)))
  end.

Definition struct_from_table (de : ty -> stree -> lres sval) (fs : list (bytes * ty)) (denied : bool) (es : list entry)
  : lres (list sval) :=
  lbind (struct_scan de fs denied es 0 []) (struct_finish fs 0).

(* toml_edit/src/de/mod.rs validate_struct_keys: the first key that is no field, with its span *)
Fixpoint first_extra_key (names : list bytes) (es : list entry) (i : nat) : option (nat * entry) :=
  match es with
  | [] => None
  | e :: es' => if mem_bytes (en_key e) names then first_extra_key names es' (S i) else Some (i, e)
  end.

(* TableEnumDeserializer::tuple_variant on a table: the keys must be 0, 1, 2, .. in this order *)
Fixpoint index_entries (i : nat) (n : N) (es : list entry) : lres (list (nat * entry)) :=
  match es with
  | [] => LOk []
  | e :: es' =>
    match parse_usize (en_key e) with
    | Some j => if (j =? n)%N
                then lmap (cons (i, e)) (index_entries (S i) (n + 1) es')
                else under (SPos i (en_key e)) (on_key (raise_at KOther (en_kspan e)))
    | None => under (SPos i (en_key e)) (on_key (raise_at KOther (en_kspan e)))
    end
  end.

Section PosVisitor.
  Variable de : ty -> stree -> lres sval.
  (* the components of a tuple variant written as a table: ArraySeqAccess over the entry values *)
  Fixpoint pos_entries (ts : list ty) (xs : list (nat * entry)) : lres (list sval) :=
    match ts with
    | [] => LOk []
    | t :: ts' =>
      match xs with
      | [] => raise KLength
      | (i, e) :: xs' =>
        lbind (under (SPos i (en_key e)) (wrap (span_of (en_val e)) (de t (en_val e))))
              (fun v => lbind (pos_entries ts' xs') (fun vs => LOk (v :: vs)))
      end
    end.
End PosVisitor.

(* ---- Datetime::deserialize ------------------------------------------------------------------- *)
(* deserialize_struct(NAME, [FIELD], DatetimeVisitor) on this node *)
Definition de_datetime_l (s : stree) : lres datetime :=
  match s with
  | NLeaf sp (VDatetime d) =>
    (* the date-time arm of deserialize_struct: visit_map(DatetimeDeserializer), wrapped *)
    wrap sp (de_dt_str_l (display_datetime d))
  | NTab sp (e :: _) =>
    (* deserialize_any: TableMapAccess; the visitor reads one key and one value *)
    wrap sp
      (lbind (key_of_entry 0 e (if bytes_eqb (en_key e) DT_FIELD then LOk tt else raise KOther)) (fun _ =>
       value_of_entry 0 e
         (wrap (span_of (en_val e))
               (match en_val e with
                | NLeaf _ (VStr s') => de_dt_str_l s'
                | _ => raise KWrongType
                end))))
  | NTab sp [] => wrap sp (raise KOther)                 (* "datetime key not found" *)
  | _ => wrap (span_of s) (raise KWrongType)
  end.

(* ---- ValueDeserializer ------------------------------------------------------------------------ *)
Section DeLoc.
  Variable c : cfg.

  Fixpoint de_loc (t : ty) (s : stree) {struct t} : lres sval :=
    match t with
    | TBool | TInt _ | TFloat _ | TChar | TStr | TUnit | TUnitStruct _ =>
      wrap (span_of s) (visit_scalar t s)                         (* deserialize_any *)
    | TDatetime k =>
      (* Datetime::deserialize, then (Date / Time) the kind check, raised outside the node's wrappers *)
      lbind (de_datetime_l s) (fun d => if dt_kind_ok k d then LOk (SDt d) else raise KDtKind)
    | TOpt t' =>                                                  (* deserialize_option: visit_some(self) *)
      (if opt_overwrite c then wrap_always (span_of s) else wrap (span_of s)) (lmap SSome (de_loc t' s))
    | TNewtype _ t' => wrap (span_of s) (lmap SNewtype (de_loc t' s))   (* deserialize_newtype_struct *)
    | TSeq t' =>
      wrap (span_of s)
           (match s with
            | NArr _ xs => lmap SSeq (seq_elems de_loc t' xs 0)
            | _ => raise KWrongType
            end)
    | TTuple ts | TTupleStruct _ ts =>
      wrap (span_of s)
           (match s with
            | NArr _ xs => lmap SSeq (pos_elems de_loc (fun t' => t') ts xs 0)
            | _ => raise KWrongType
            end)
    | TMap kt vt =>
      wrap (span_of s)
           (match s with
            | NTab _ es => lmap (fun ps => SMap (smap_of_pairs ps)) (map_entries de_loc kt vt es 0)
            | NLeaf _ (VDatetime _) => raise KUnmodelled
            | _ => raise KWrongType
            end)
    | TStruct n fs =>
      if private_name n then raise KUnmodelled
      else
        wrap (span_of s)                                          (* deserialize_struct -> deserialize_any *)
             (match s with
              | NTab _ es => lmap SRec (struct_from_table de_loc fs (deny c n) es)                  (* visit_map *)
              | NArr _ xs => lmap SRec (pos_elems de_loc (fun ft => snd ft) fs xs 0)             (* visit_seq *)
              | NLeaf _ (VDatetime _) => raise KUnmodelled
              | _ => raise KWrongType
              end)
    | TEnum _ vs =>
      wrap (span_of s)                                            (* deserialize_enum *)
           (match s with
            | NLeaf _ (VStr v) =>                                 (* visit_enum(StringDeserializer): unit variants only *)
              find_name (fun i var => match var with VUnit => LOk (SVariant i SUnit) | _ => raise KWrongType end)
                        (raise KUnknownVariant) v vs 0
            | NTab tsp [e] =>                                     (* TableMapAccess as EnumAccess *)
              find_name (fun i var => lmap (SVariant i) (under (SVar (en_key e)) (de_payload var (en_val e))))
                        (under (SVar (en_key e)) (on_key (wrap (en_kspan e) (raise KUnknownVariant))))
                        (en_key e) vs 0
            | NTab tsp _ => raise_at KEnumShape tsp               (* "wanted exactly 1 element, .." *)
            | _ => raise_at KEnumShape (span_of s)                (* "wanted string or table" *)
            end)
    end
  with de_payload (var : variant) (y : stree) {struct var} : lres sval :=     (* TableEnumDeserializer *)
    match var with
    | VUnit => if sempty_container y then LOk SUnit else raise_at KOther (span_of y)
    | VNewtype t => wrap (span_of y) (de_loc t y)                 (* newtype_variant_seed: the payload's span, no key *)
    | VTuple ts =>
      match y with
      | NArr asp xs =>
        if Nat.eqb (length xs) (length ts)
        then lmap SSeq (pos_elems de_loc (fun t' => t') ts xs 0)  (* ArrayDeserializer directly: ArraySeqAccess *)
        else raise_at KLength asp
      | NTab tsp es =>
        lbind (index_entries 0 0 es) (fun xs =>
        if Nat.eqb (length xs) (length ts)
        then lmap SSeq (pos_entries de_loc ts xs)
        else raise_at KLength tsp)
      | _ => raise_at KOther (span_of y)                          (* "expected table, found .." *)
      end
    | VStruct fs =>                                               (* deserialize_struct with_struct_key_validation *)
      match y with
      | NTab tsp es =>
        match first_extra_key (map fst fs) es 0 with
        | Some (i, e) => wrap tsp (under (SKey i (en_key e)) (on_key (raise_at KUnknownField (en_kspan e))))
        | None => wrap tsp (lmap SRec (struct_from_table de_loc fs false es))
        end
      | NArr asp xs => wrap asp (lmap SRec (pos_elems de_loc (fun ft => snd ft) fs xs 0))
      | NLeaf sp (VDatetime _) => raise KUnmodelled
      | NLeaf sp _ => wrap sp (raise KWrongType)
      end
    end.
End DeLoc.

(* toml_edit::de::from_str / from_document / toml::from_str: the root item's ValueDeserializer *)
Definition de_root (c : cfg) (t : ty) (s : stree) : lres sval := de_loc c t s.

(* ---- reading the ghost path ------------------------------------------------------------------ *)
(* the span of the node (or, with onkey, of the key) the path leads to; None: no such node *)
Fixpoint locate (s : stree) (p : list step) (onkey : bool) {struct p} : option ospan :=
  match p with
  | [] => if onkey then None else Some (span_of s)
  | SKey i k :: r | SPos i k :: r =>
    match s with
    | NTab _ es =>
      match nth_error es i with
      | Some e =>
        if bytes_eqb (en_key e) k
        then match r with
             | [] => if onkey then Some (en_kspan e) else locate (en_val e) r onkey
             | _ => locate (en_val e) r onkey
             end
        else None
      | None => None
      end
    | _ => None
    end
  | SIdx i :: r =>
    match s with
    | NArr _ xs => match nth_error xs i with Some x => locate x r onkey | None => None end
    | _ => None
    end
  | SVar k :: r =>
    match s with
    | NTab _ [e] =>
      if bytes_eqb (en_key e) k
      then match r with
           | [] => if onkey then Some (en_kspan e) else locate (en_val e) r onkey
           | _ => locate (en_val e) r onkey
           end
      else None
    | _ => None
    end
  end.

(* the key path the property asks for: every key on the way (the variant's key included) *)
Fixpoint ideal_keys (p : list step) : list bytes :=
  match p with
  | [] => []
  | SKey _ k :: r | SVar k :: r | SPos _ k :: r => k :: ideal_keys r
  | SIdx _ :: r => ideal_keys r
  end.
(* the key path the plumbing produces: only next_value_seed adds a key *)
Fixpoint added_keys (p : list step) (onkey : bool) : list bytes :=
  match p with
  | [] => []
  | SKey _ k :: r => match r with [] => if onkey then [] else [k] | _ => k :: added_keys r onkey end
  | SIdx _ :: r | SVar _ :: r | SPos _ _ :: r => added_keys r onkey
  end.
Definition below_variant (p : list step) : bool :=
  existsb (fun st => match st with SVar _ | SPos _ _ => true | _ => false end) p.
