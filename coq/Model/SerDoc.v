(* Model/SerDoc.v — the step between eng-c07's value-tree level of the serde routes (Model/Ser.v, SerFmt.v) and real
   bytes: the toml_edit document tree (Model/Tree.v) each TEXT route hands to the printer, and the reading of a
   parsed document as the value tree the deserializers walk (Model/De.v).

     toml_edit::ser::to_string          to_document(value)?.to_string()                      everything below the root inline
     toml_edit::ser::to_string_pretty   to_document, `Pretty.visit_document_mut`, to_string  [tables], [[arrays of tables]]
     toml::to_string                    write_document: into_table, DocumentFormatter        [tables], [[arrays of tables]]
     toml::to_string_pretty             the same with multiline_array = true

   WHAT the tree looks like (which inline tables became tables, which arrays became arrays of tables) is taken from
   Model/SerFmt.v (`doc_edit_plain`, `doc_edit_pretty`, `doc_toml`), not transcribed again; this file only adds what
   SerFmt leaves out as "layout": the toml_edit nodes themselves.
     leaf            ValueSerializer::serialize_*: Value::from(x) = Formatted::new(x): no repr, default decor
     array           SerializeValueArray::end: Array::with_vec(values): default decor, no trailing comma
     inline table    SerializeInlineTable: items.insert(Key::new(k), Item::Value(v)); InlineTable::with_pairs(items)
     table           InlineTable::into_table: Table::with_pairs(items) + fmt() (decor of keys and values cleared: they
                     are default already); Pretty / DocumentFormatter visit_table_mut: decor cleared,
                     `if !node.is_empty() { node.set_implicit(true) }` — also on the root
     array of tables Item::into_array_of_tables: ArrayOfTables::new() with the elements' make_item (tables as above)
     multi-line arrays (the two `pretty` routes; Pretty::visit_array_mut / DocumentFormatter::visit_array_mut with
                     multiline_array): an array of two and more elements, anywhere inside a value, gets
                     set_prefix("\n    ") on every element, set_trailing("\n"), set_trailing_comma(true)
   A float leaf is kept as the decimal its text denotes (as in Model/Build.v); which decimal that is for a bit pattern
   is std's business (`{}` on f64: an ORACLE, DESIGN.md 4.4) and comes in as the parameter `fd`; the way back —
   `str::parse::<f64>` on the decimal, f64::NAN / INFINITY with the sign for the four words — is the parameter `back`. *)
From TV Require Import Base.Prelude Base.Utf8.
From TV Require Import Model.Datetime Model.Numbers Model.Tree Model.Write Model.Build.
From TV Require Import Spec.SerdeData Model.Ser Model.De Model.SerFmt.

(* ---- the text routes ---------------------------------------------------------------------------------------- *)
Inductive troute : Set :=
| EditString            (* toml_edit::ser::to_string  (to_vec is its bytes) *)
| EditStringPretty      (* toml_edit::ser::to_string_pretty *)
| TomlString            (* toml::to_string *)
| TomlStringPretty.     (* toml::to_string_pretty *)

(* the value tree of the route (Model/Ser.v) *)
Definition ser_text (r : troute) : ty -> sval -> result tomlval :=
  match r with
  | EditString | EditStringPretty => ser_edit_root
  | TomlString | TomlStringPretty => ser_toml_root
  end.
(* what the route's post-processor makes of it (Model/SerFmt.v) *)
Definition layout (r : troute) (x : tomlval) : SerFmt.item :=
  match r with
  | EditString => doc_edit_plain x
  | EditStringPretty => doc_edit_pretty x
  | TomlString | TomlStringPretty => doc_toml x
  end.
(* arrays of two and more elements are broken over lines *)
Definition multiline (r : troute) : bool :=
  match r with EditStringPretty | TomlStringPretty => true | EditString | TomlString => false end.
(* a visitor ran over the tables (set_implicit on the non-empty ones) *)
Definition formatted (r : troute) : bool :=
  match r with EditString => false | _ => true end.

Definition nonempty {A} (l : list A) : bool := match l with [] => false | _ => true end.

(* ---- from the layout to the toml_edit tree -------------------------------------------------------------------- *)
Section Tree.
  Variable fd : N -> fval.        (* ORACLE: the float std prints for a bit pattern, as the decimal / nan / inf its text denotes *)
  Variable ml : bool.             (* multi-line arrays *)

  Definition leaf_scalar (x : tomlval) : Tree.scalar :=
    match x with
    | VStr s => SString s
    | VInt z => Tree.SInt z
    | VFloat b => SFloat (fd b)
    | VBool b => Tree.SBool b
    | VDatetime d => SDatetime d
    | VArr _ | VTab _ => Tree.SBool false        (* not a leaf: SerFmt.emb never puts one under ILeaf *)
    end.

  (* Pretty::visit_array_mut on an array of len >= 2: every element `decor_mut().set_prefix("\n    ")` (Model/Build.v
     ml_elem), set_trailing("\n"), set_trailing_comma(true); shorter arrays: set_trailing(""), set_trailing_comma(false) *)
  Definition mk_array (es : list value) : value :=
    if ml && (2 <=? length es)
    then VArray (map (fun e => IValue (ml_elem e)) es) (RExplicit [x0a]) true decor_default None
    else array_from_iter es.

  (* a value: leaves, arrays, inline tables (a Table / ArrayOfTables cannot stand here: SerFmt.printable) *)
  Fixpoint doc_value (it : SerFmt.item) : value :=
    match it with
    | ILeaf x => value_from (leaf_scalar x)
    | IArr xs => mk_array (map doc_value xs)
    | IInl es | ITab es =>
      VInline (mk_inline_items (map (fun kx => (fst kx, doc_value (snd kx))) es)) REmpty false false decor_default None
    | SerFmt.IAot ts => mk_array (map doc_value ts)
    end.

  (* a table the visitor went over: implicit iff not empty *)
  Definition fmt_tbl (l : list (bytes * Tree.item)) : tbl :=
    Tbl (mk_tbl_items l) decor_default (nonempty l) false None None.

  Fixpoint doc_item (it : SerFmt.item) : Tree.item :=
    match it with
    | ITab es => ITable (fmt_tbl (map (fun kx => (fst kx, doc_item (snd kx))) es))
    | SerFmt.IAot ts =>
      Tree.IAot (map (fun t => match t with
                               | ITab es => fmt_tbl (map (fun kx => (fst kx, doc_item (snd kx))) es)
                               | _ => fmt_tbl []          (* not printable *)
                               end) ts) None
    | _ => IValue (doc_value it)
    end.

  (* the root: Table::with_pairs; a visitor (if any) marks it like every other table; DocumentMut::from(table) *)
  Definition doc_root_tbl (visited : bool) (it : SerFmt.item) : tbl :=
    match it with
    | ITab es =>
      let l := map (fun kx => (fst kx, doc_item (snd kx))) es in
      Tbl (mk_tbl_items l) decor_default (visited && nonempty l) false None None
    | _ => tbl_new
    end.
End Tree.

(* 1. the document tree of a text route; None: the serializer returned an error *)
Definition ser_doc (fd : N -> fval) (r : troute) (t : ty) (v : sval) : option tbl :=
  match ser_text r t v with
  | Ok x => Some (doc_root_tbl fd (multiline r) (formatted r) (layout r x))
  | Err _ => None
  end.

(* ---- reading a parsed document as the tree the deserializers walk --------------------------------------------------
   toml_edit::de: a Table and an InlineTable are both walked by TableMapAccess, an ArrayOfTables and an Array both by
   ArraySeqAccess (Model/De.v: "Item::Table / Value::InlineTable are both VTab, Item::ArrayOfTables / Value::Array
   both VArr"); a float leaf is the f64 the parser computed from the text. *)
Section Back.
  Variable back : fval -> N.      (* ORACLE: str::parse::<f64> on the decimal, as a bit pattern *)

  Definition tv_of_scalar (s : Tree.scalar) : tomlval :=
    match s with
    | SString x => VStr x
    | Tree.SInt z => VInt z
    | SFloat f => VFloat (back f)
    | Tree.SBool b => VBool b
    | SDatetime d => VDatetime d
    end.
  Fixpoint tv_of_aval (a : aval) : tomlval :=
    match a with
    | AScalar s => tv_of_scalar s
    | AArr l => VArr (map tv_of_aval l)
    | AInl l => VTab (map (fun kv => (fst kv, tv_of_aval (snd kv))) l)
    end.
  Fixpoint tv_of_anode (n : anode) : tomlval :=
    match n with
    | AVal a => tv_of_aval a
    | ATbl l => VTab (map (fun kv => (fst kv, tv_of_anode (snd kv))) l)
    | AAot ls => VArr (map (fun l => VTab (map (fun kv => (fst kv, tv_of_anode (snd kv))) l)) ls)
    end.
  (* the root table of a parsed document *)
  Definition tomlval_of_abs (l : list (bytes * anode)) : tomlval :=
    VTab (map (fun kv => (fst kv, tv_of_anode (snd kv))) l).
End Back.

(* ---- the two oracles together: what is assumed of std's float printing and parsing (DESIGN.md 4.4) ----------------
   for every 64-bit pattern b the serializer can hand over (NaN already without its sign):
     - the text printed for b denotes nan / inf / a decimal m * 10^e with a fraction (e < 0: the writer appends ".0" to
       an integral value) below the overflow threshold of the parser (Model/Numbers.v `overflows`);
     - parsing that text gives b back, or a NaN for a NaN (the payload is not in the text).
   Props/C11.v `std_roundtrip_hyp` is the same assumption for the finite non-zero values, stated on the text. *)
Definition float_oracle (fd : N -> fval) (back : fval -> N) : Prop :=
  forall b, (b < 2 ^ 64)%N ->
    match fd b with FDec _ m e => (e < 0)%Z /\ overflows m e = false | _ => True end
    /\ f64_eq b (back (fd b)).

(* what the deserializer (toml_edit::de::from_str / toml::from_str: `de_value` on the root table) makes of a parsed document *)
Definition de_doc (back : fval -> N) (t : ty) (l : list (bytes * anode)) : result sval :=
  de_value t (tomlval_of_abs back l).

(* ---- nesting of a value tree: arrays and tables count alike (header paths and inline values share the parser's
        recursion limit) ---- *)
Fixpoint tv_depth (x : tomlval) : nat :=
  match x with
  | VArr xs => S (fold_right (fun y acc => Nat.max (tv_depth y) acc) 0 xs)
  | VTab es => S (fold_right (fun kx acc => Nat.max (tv_depth (snd kx)) acc) 0 es)
  | _ => 0
  end.

(* the same bound read off the type: every struct / map / sequence / tuple / non-unit variant is one level *)
Fixpoint ty_depth (t : ty) : nat :=
  match t with
  | TOpt t' | TNewtype _ t' => ty_depth t'
  | TSeq t' => S (ty_depth t')
  | TTuple ts | TTupleStruct _ ts => S (fold_right (fun t' acc => Nat.max (ty_depth t') acc) 0 ts)
  | TMap _ vt => S (ty_depth vt)
  | TStruct _ fs => S (fold_right (fun ft acc => Nat.max (ty_depth (snd ft)) acc) 0 fs)
  | TEnum _ vs => fold_right (fun nv acc => Nat.max (variant_depth (snd nv)) acc) 0 vs
  | _ => 0
  end
with variant_depth (var : variant) : nat :=
  match var with
  | VUnit => 0
  | VNewtype t => S (ty_depth t)
  | VTuple ts => S (S (fold_right (fun t' acc => Nat.max (ty_depth t') acc) 0 ts))
  | VStruct fs => S (S (fold_right (fun ft acc => Nat.max (ty_depth (snd ft)) acc) 0 fs))
  end.

(* ---- what is asked of the text in the value: Rust `String`s / `&str`s / `&'static str` names are UTF-8, the `bytes`
        of the universe (Spec/SerdeData.v) are arbitrary.  Only names that can be written matter: field and variant
        names (the names of the types themselves are never written). ---- *)
Fixpoint utf8_ty (t : ty) : bool :=
  match t with
  | TOpt t' | TSeq t' | TNewtype _ t' => utf8_ty t'
  | TTuple ts | TTupleStruct _ ts => forallb utf8_ty ts
  | TMap k v => utf8_ty k && utf8_ty v
  | TStruct _ fs => forallb (fun ft => utf8_valid_b (fst ft) && utf8_ty (snd ft)) fs
  | TEnum _ vs => forallb (fun nv => utf8_valid_b (fst nv) && utf8_variant (snd nv)) vs
  | _ => true
  end
with utf8_variant (var : variant) : bool :=
  match var with
  | VUnit => true
  | VNewtype t => utf8_ty t
  | VTuple ts => forallb utf8_ty ts
  | VStruct fs => forallb (fun ft => utf8_valid_b (fst ft) && utf8_ty (snd ft)) fs
  end.

Fixpoint utf8_sv (v : sval) : bool :=
  match v with
  | SStr s => utf8_valid_b s
  | SSome v' | SNewtype v' | SVariant _ v' => utf8_sv v'
  | SSeq vs | SRec vs => forallb utf8_sv vs
  | SMap es => forallb (fun kv => utf8_sv (fst kv) && utf8_sv (snd kv)) es
  | _ => true
  end.

(* the same on a value tree *)
Fixpoint utf8_tv (x : tomlval) : bool :=
  match x with
  | VStr s => utf8_valid_b s
  | VArr xs => forallb utf8_tv xs
  | VTab es => forallb (fun kx => utf8_valid_b (fst kx) && utf8_tv (snd kx)) es
  | _ => true
  end.
