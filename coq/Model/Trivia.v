(* Model/Trivia.v — crates/toml_edit/src/parser/trivia.rs *)
From TV Require Import Base.Prelude Base.Utf8 Base.Winnow Gen.Consts.

(* trivia.rs: ws *)
Definition ws : parser bytes := unchecked_utf8 1 (take_while0 (in_class WSCHAR)).

(* trivia.rs: comment *)
Definition comment : parser unit :=
  byte_ COMMENT_START_SYMBOL ;;; take_while0 (in_class NON_EOL) ;;; ret tt.

(* trivia.rs: newline — dispatch!{any; b'\n' => empty, b'\r' => one_of(LF).void(), _ => fail}.
   The dispatch scrutinee is `any` (not peek): the byte stays consumed on failure. *)
Definition newline : parser unit :=
  b <- any ;;
  if byte_eqb b x0a then empty
  else if byte_eqb b x0d then pvoid (byte_ LF)
  else fail.

(* trivia.rs: ws_newline = repeat(0.., alt((newline.value("\n"), take_while(1.., WSCHAR)))) *)
Definition ws_newline : parser unit :=
  pvoid (repeat0 (pvoid newline <|> pvoid (take_while1 (in_class WSCHAR)))).

(* trivia.rs: ws_newlines = (newline, ws_newline) *)
Definition ws_newlines : parser unit := newline ;;; ws_newline.

(* trivia.rs: ws_comment_newline — the hand-written loop with its no-progress check *)
Fixpoint ws_comment_newline_f (fuel : nat) (start : N) (i : input) : res unit :=
  match fuel with
  | O => Panic P_out_of_fuel
  | S f =>
    match ws i with
    | Ok _ i1 =>
      let step (p : parser unit) :=
        match p i1 with
        | Ok _ i2 => if (pos i2 =? start)%N then Ok tt i2 else ws_comment_newline_f f (pos i2) i2
        | Bt e i' => Bt e i'
        | Cut e i' => Cut e i'
        | Panic s => Panic s
        end in
      match rest i1 with
      | b :: _ =>
        if byte_eqb b x23 then step (comment ;;; context newline)
        else if byte_eqb b x0a then step newline
        else if byte_eqb b x0d then step newline
        else Ok tt i1
      | [] => Ok tt i1
      end
    | Bt e i' => Bt e i'
    | Cut e i' => Cut e i'
    | Panic s => Panic s
    end
  end.
Definition ws_comment_newline : parser unit :=
  fun i => ws_comment_newline_f (S (length (rest i))) (pos i) i.

(* trivia.rs: line_ending = alt((newline.value("\n"), eof.value(""))) *)
Definition line_ending : parser unit := newline <|> eof.

(* trivia.rs: line_trailing = terminated((ws, opt(comment)).span(), line_ending) *)
Definition line_trailing : parser (N * N) :=
  terminated (span_ (ws ;;; opt comment)) line_ending.
