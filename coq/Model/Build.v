(* Model/Build.v — the construction API of toml_edit as functions on Model/Tree.v trees
   (crates/toml_edit/src/{value,array,inline_table,table,array_of_tables,item,key,document}.rs),
   the set `Built*` of trees reachable through it from arbitrary leaves, and the plain abstract
   tree `abs_*` (keys, nesting, order, types, scalar values; no decor, no repr, no spans).

   What is inside `Built` and what is not (see also Props/C06.v):
   - inline tables and arrays hold values only: InlineTable::insert and Array::push take a
     `Value`, so an `Item::Table` below an inline table (reachable only through IndexMut on an
     inline-table parent; DESIGN.md F13, printed as nothing) is excluded by construction;
   - `Item::None` is not a constructed item (Table::insert accepts it and it prints as nothing);
   - Table::set_implicit(true) is covered (`im` in BI_table / BI_aot: it is what toml's DocumentFormatter calls on
     every non-empty table), provided the table still prints something below itself (`item_prints`);
   - the multi-line layout the two `pretty` serializers give an array is covered (BV_array_ml: every element
     set_prefix("\n    "), set_trailing("\n"), set_trailing_comma(true));
   - the other formatting switches (Table::set_dotted / set_position, InlineTable::set_dotted,
     other uses of Array::set_trailing* and the Decor setters, the *_formatted inserts) are not construction and are left out. *)
From TV Require Import Base.Prelude Base.Utf8 Base.Winnow Gen.Consts.
From TV Require Import Model.Datetime Model.Numbers Model.Tree Model.Parse Model.Write.

(* ---- key.rs ------------------------------------------------------------------------------- *)
(* Key::new(key) / From<&str> for Key *)
Definition key_new (k : bytes) : key := mkKey k None decor_default decor_default.
(* Key::fmt: repr = None; leaf_decor.clear(); dotted_decor.clear() *)
Definition key_fmt (k : key) : key := mkKey (k_key k) None decor_default decor_default.

(* ---- value.rs ----------------------------------------------------------------------------- *)
(* From<&str|String|i64|f64|bool|Datetime|Date|Time> for Value: Value::X(Formatted::new(x)) *)
Definition value_from (s : scalar) : value := VScalar s None decor_default.
(* Value::decorate(prefix, suffix) with &str arguments: Decor::new(prefix.into(), suffix.into()) *)
Definition value_decorate_str (v : value) (p s : bytes) : value :=
  value_decorate v (raw_of_bytes p) (raw_of_bytes s).
Definition value_decor (v : value) : decor :=
  match v with VScalar _ _ d => d | VArray _ _ _ d _ => d | VInline _ _ _ _ d _ => d end.

(* ---- array.rs ----------------------------------------------------------------------------- *)
(* Array::new() / Default *)
Definition array_new : value := VArray [] REmpty false decor_default None.
(* Array::value_op(v, decorate = true, push): the first element gets ("", ""), later ones (" ", "") *)
Definition array_value_op (vals : list item) (v : value) : value :=
  match vals with
  | [] => value_decorate_str v [] []
  | _ => value_decorate_str v [x20] []
  end.
(* Array::push(v) *)
Definition array_push (a : value) (v : value) : value :=
  match a with
  | VArray vals tr c d sp => VArray (vals ++ [IValue (array_value_op vals v)]) tr c d sp
  | _ => a
  end.
(* Array::push_formatted(v) — also what Extend / FromIterator do for every element *)
Definition array_push_formatted (a : value) (v : value) : value :=
  match a with
  | VArray vals tr c d sp => VArray (vals ++ [IValue v]) tr c d sp
  | _ => a
  end.
(* FromIterator<V> for Array / for Value: Array { values: iter.map(Item::Value).collect(), ..Default } *)
Definition array_from_iter (vs : list value) : value :=
  VArray (map IValue vs) REmpty false decor_default None.

(* ---- IndexMap entry insert used by InlineTable::insert / Table::insert ---------------------
   match self.items.entry(Key::new(key)) {
     Occupied(e) => { e.key_mut().fmt(); replace(e.get_mut(), item) }   (position kept)
     Vacant(e)   => { e.insert(item) } }                                   (appended) *)
Fixpoint kv_insert (m : kvs) (k : bytes) (v : item) : kvs :=
  match m with
  | [] => [(key_new k, v)]
  | (k', v') :: tl =>
    if bytes_eqb (k_key k') k then (key_fmt k', v) :: tl else (k', v') :: kv_insert tl k v
  end.

(* ---- inline_table.rs ----------------------------------------------------------------------- *)
(* InlineTable::new() is Tree.inline_new.  InlineTable::insert(key, value) *)
Definition inline_insert_api (t : value) (k : bytes) (v : value) : value :=
  match t with
  | VInline items pre im dt d sp => VInline (kv_insert items k (IValue v)) pre im dt d sp
  | _ => t
  end.
(* Extend<(K, V)> / FromIterator<(K, V)> for InlineTable: self.items.insert(key.into(), Item::Value(v))
   (IndexMap::insert keeps the stored key of an occupied entry and replaces the value) *)
Fixpoint kv_map_insert (m : kvs) (k : bytes) (v : item) : kvs :=
  match m with
  | [] => [(key_new k, v)]
  | (k', v') :: tl =>
    if bytes_eqb (k_key k') k then (k', v) :: tl else (k', v') :: kv_map_insert tl k v
  end.
Definition inline_from_iter (kvl : list (bytes * value)) : value :=
  VInline (fold_left (fun m kv => kv_map_insert m (fst kv) (IValue (snd kv))) kvl []) REmpty false false decor_default None.

(* ---- table.rs / array_of_tables.rs / item.rs / document.rs ---------------------------------- *)
(* Table::new() is Tree.tbl_new.  Table::insert(key, item) *)
Definition tbl_insert (t : tbl) (k : bytes) (it : item) : tbl :=
  t_set_items t (kv_insert (t_items t) k it).
(* ArrayOfTables::new() / Default, ArrayOfTables::push(table) *)
Definition aot_new : item := IAot [] None.
Definition aot_push (a : item) (t : tbl) : item :=
  match a with IAot ts sp => IAot (ts ++ [t]) sp | _ => a end.
(* Item::Value(v) / value(v) / From<V: Into<Value>> for Item; Item::Table(t) / From<Table>;
   Item::ArrayOfTables(a) / From<ArrayOfTables> are the constructors IValue / ITable / IAot. *)
(* DocumentMut::new() / Default: root = Item::Table(Table::with_pos(Some(0))), trailing empty *)
Definition doc_root_new : tbl := Tbl [] decor_default false false (Some 0%N) None.
(* From<Table> for DocumentMut: root = Item::Table(table), trailing empty *)

(* ---- construction terms: the closure of the constructors above ---------------------------------
   A term is a sequence of API calls written as a tree; `eval_*` runs it.  The observation commands
   (Extract/Cmd_c06.v, harness/src/bin/c06.rs) decode the same terms from a script. *)
Inductive cval : Set :=
| CScalar (s : scalar)                       (* Value::from(x) *)
| CArrPush (es : list cval)                  (* Array::new(); a.push(e) ...; Value::from(a) *)
| CArrCollect (es : list cval)               (* es.into_iter().collect::<Value>() / ::<Array>() *)
| CInlInsert (l : list (bytes * cval))       (* InlineTable::new(); t.insert(k, v) ...; Value::from(t) *)
| CInlCollect (l : list (bytes * cval)).     (* l.into_iter().collect::<Value>() / ::<InlineTable>() *)

Inductive citem : Set :=
| CValue (v : cval)                          (* Item::Value(v) / value(v) *)
| CTable (l : list (bytes * citem))          (* Table::new(); t.insert(k, item) ...; Item::Table(t) *)
| CAot (ts : list (list (bytes * citem))).   (* ArrayOfTables::new(); a.push(t) ...; Item::ArrayOfTables(a) *)

Fixpoint eval_value (c : cval) : value :=
  match c with
  | CScalar s => value_from s
  | CArrPush es => fold_left array_push (map eval_value es) array_new
  | CArrCollect es => array_from_iter (map eval_value es)
  | CInlInsert l =>
    fold_left (fun t kv => inline_insert_api t (fst kv) (snd kv))
              (map (fun kv => (fst kv, eval_value (snd kv))) l) inline_new
  | CInlCollect l => inline_from_iter (map (fun kv => (fst kv, eval_value (snd kv))) l)
  end.

Definition tbl_of (t0 : tbl) (l : list (bytes * item)) : tbl :=
  fold_left (fun t kv => tbl_insert t (fst kv) (snd kv)) l t0.

Fixpoint eval_item (c : citem) : item :=
  match c with
  | CValue v => IValue (eval_value v)
  | CTable l => ITable (tbl_of tbl_new (map (fun kv => (fst kv, eval_item (snd kv))) l))
  | CAot ts =>
    fold_left aot_push
              (map (fun l => tbl_of tbl_new (map (fun kv => (fst kv, eval_item (snd kv))) l)) ts) aot_new
  end.

(* the root table of DocumentMut::new() + inserts (from_table = false), or of
   DocumentMut::from(Table::new() + inserts) (from_table = true) *)
Definition eval_doc (from_table : bool) (l : list (bytes * citem)) : tbl :=
  tbl_of (if from_table then tbl_new else doc_root_new) (map (fun kv => (fst kv, eval_item (snd kv))) l).

(* ---- the trees the constructors reach -------------------------------------------------------
   Decor of a constructed value: untouched (`Formatted::new`, `Array::new`, `InlineTable::new`:
   default) or set by Array::push (("", "") for the first element, (" ", "") for the others). *)
Definition prefix_built (o : option raw) : Prop :=
  o = None \/ o = Some REmpty \/ o = Some (RExplicit [x20]).
Definition suffix_built (o : option raw) : Prop := o = None \/ o = Some REmpty.
Definition decor_built (d : decor) : Prop := prefix_built (d_prefix d) /\ suffix_built (d_suffix d).

(* the multi-line layout of an array (toml_edit::ser::pretty::Pretty::visit_array_mut and toml's DocumentFormatter with
   multiline_array, on arrays of two and more elements; Array::set_trailing / set_trailing_comma and
   Decor::set_prefix on the elements):
       for item in node.iter_mut() { item.decor_mut().set_prefix("\n    "); }
       node.set_trailing("\n"); node.set_trailing_comma(true);
   the only use of those three setters that is inside `Built` (BV_array_ml) *)
Definition ML_PREFIX : bytes := [x0a; x20; x20; x20; x20].
Definition ml_elem (v : value) : value :=
  match v with
  | VScalar s r d => VScalar s r (mkDecor (Some (RExplicit ML_PREFIX)) (d_suffix d))
  | VArray vals tr c d sp => VArray vals tr c (mkDecor (Some (RExplicit ML_PREFIX)) (d_suffix d)) sp
  | VInline items pre im dt d sp => VInline items pre im dt (mkDecor (Some (RExplicit ML_PREFIX)) (d_suffix d)) sp
  end.

Definition mk_inline_items (l : list (bytes * value)) : kvs :=
  map (fun kv => (key_new (fst kv), IValue (snd kv))) l.
Definition mk_tbl_items (l : list (bytes * item)) : kvs :=
  map (fun kv => (key_new (fst kv), snd kv)) l.

(* does a table print anything below itself (so that it is still mentioned when its own header is left
   out)?  The printer (encode.rs visit_table) leaves out the `[header]` of a table marked implicit that has
   no key/value line of its own; Table::new() is not implicit, Table::set_implicit(true) is what
   toml's DocumentFormatter calls on every non-empty table. *)
Fixpoint item_prints (it : item) : bool :=
  match it with
  | INone => false
  | IValue _ => true
  | ITable t => negb (t_implicit t) || tbl_prints t
  | IAot ts _ => match ts with [] => false | _ => true end
  end
with tbl_prints (t : tbl) : bool :=
  match t with
  | Tbl items _ _ _ _ _ => existsb (fun kv => match kv with (_, i0) => item_prints i0 end) items
  end.

(* PS: the admissible leaves, PK: the admissible keys (e.g. "valid UTF-8"; `fun _ => True` for all) *)
Section Built.
  Variable PS : scalar -> Prop.
  Variable PK : bytes -> Prop.

  Inductive BuiltValue : value -> Prop :=
  | BV_scalar s d : PS s -> decor_built d -> BuiltValue (VScalar s None d)
  | BV_array es d : decor_built d -> Forall BuiltValue es ->
      BuiltValue (VArray (map IValue es) REmpty false d None)
  | BV_array_ml es d : decor_built d -> Forall BuiltValue es ->
      BuiltValue (VArray (map (fun e => IValue (ml_elem e)) es) (RExplicit [x0a]) true d None)
  | BV_inline l d : decor_built d -> NoDup (map fst l) -> Forall PK (map fst l) -> Forall BuiltValue (map snd l) ->
      BuiltValue (VInline (mk_inline_items l) REmpty false false d None).

  (* the entries of a constructed table: Table::new() + inserts, optionally set_implicit(true) (`im`);
     a table marked implicit must still print something below itself, or it would disappear from the
     printed document (an array element always gets its `[[header]]`) *)
  Inductive BuiltItem : item -> Prop :=
  | BI_value v : BuiltValue v -> BuiltItem (IValue v)
  | BI_table im l : BuiltEntries l ->
      (im = true -> existsb (fun kv => item_prints (snd kv)) l = true) ->
      BuiltItem (ITable (Tbl (mk_tbl_items l) decor_default im false None None))
  | BI_aot ls : Forall (fun x => BuiltEntries (snd x)) ls ->
      BuiltItem (IAot (map (fun x => Tbl (mk_tbl_items (snd x)) decor_default (fst x) false None None) ls) None)
  with BuiltEntries : list (bytes * item) -> Prop :=
  | BE l : NoDup (map fst l) -> Forall PK (map fst l) -> Forall BuiltItem (map snd l) -> BuiltEntries l.

  (* a constructed root table; `pos` is None, or Some 0 for the root of DocumentMut::new(); the root never
     has a header, so its implicit flag does not matter *)
  Definition BuiltTbl (t : tbl) : Prop :=
    exists l im pos, BuiltEntries l /\ (pos = None \/ pos = Some 0%N) /\
                     t = Tbl (mk_tbl_items l) decor_default im false pos None.
End Built.

(* ---- the abstract tree ----------------------------------------------------------------------- *)
Inductive aval : Set :=
| AScalar (s : scalar)
| AArr (l : list aval)
| AInl (l : list (bytes * aval)).

Inductive anode : Set :=
| AVal (v : aval)
| ATbl (l : list (bytes * anode))
| AAot (l : list (list (bytes * anode))).

Fixpoint abs_value (v : value) : aval :=
  match v with
  | VScalar s _ _ => AScalar s
  | VArray vals _ _ _ _ =>
    AArr (flat_map (fun it => match it with IValue e => [abs_value e] | _ => [] end) vals)
  | VInline items _ _ _ _ _ =>
    AInl (flat_map (fun kv => match kv with (k, IValue e) => [(k_key k, abs_value e)] | _ => [] end) items)
  end.

Fixpoint abs_item (it : item) : list anode :=
  match it with
  | INone => []
  | IValue v => [AVal (abs_value v)]
  | ITable t => [ATbl (abs_tbl t)]
  | IAot ts _ => [AAot (map abs_tbl ts)]
  end
with abs_tbl (t : tbl) : list (bytes * anode) :=
  match t with
  | Tbl items _ _ _ _ _ =>
    flat_map (fun kv => match kv with (k, i0) => map (fun n => (k_key k, n)) (abs_item i0) end) items
  end.

(* what a document can express: in every table the key/value lines come before the sub-table
   headers, so the printed form lists the values of a table first (in their order) and then its
   sub-tables and arrays of tables (in their order); an empty array of tables has no text form
   (no `[[k]]` header is printed for it) and disappears.  `printed_entries` is that normal form,
   applied at every level. *)
Definition val_entries (l : list (bytes * anode)) : list (bytes * anode) :=
  flat_map (fun kv => match snd kv with AVal v => [(fst kv, AVal v)] | _ => [] end) l.
Fixpoint printed_node (n : anode) : list anode :=
  match n with
  | AVal _ => []                       (* values are listed by val_entries *)
  | ATbl l => [ATbl (val_entries l ++ flat_map (fun kv => map (fun r => (fst kv, r)) (printed_node (snd kv))) l)]
  | AAot [] => []
  | AAot ls => [AAot (map (fun l => val_entries l ++ flat_map (fun kv => map (fun r => (fst kv, r)) (printed_node (snd kv))) l) ls)]
  end.
Definition printed_entries (l : list (bytes * anode)) : list (bytes * anode) :=
  val_entries l ++ flat_map (fun kv => map (fun r => (fst kv, r)) (printed_node (snd kv))) l.

(* nesting: the longest header path below a table, the deepest value anywhere in it (the parser's
   recursion limit bounds both: key paths of 80 segments and values nested 80 deep are refused) *)
Fixpoint item_hdepth (it : item) : nat :=
  match it with
  | ITable t => S (tbl_hdepth t)
  | IAot ts _ => S (fold_right (fun t acc => Nat.max (tbl_hdepth t) acc) 0 ts)
  | _ => 0
  end
with tbl_hdepth (t : tbl) : nat :=
  match t with
  | Tbl items _ _ _ _ _ => fold_right (fun kv acc => match kv with (_, i0) => Nat.max (item_hdepth i0) acc end) 0 items
  end.
Fixpoint item_vdepth (it : item) : nat :=
  match it with
  | INone => 0
  | IValue v => value_depth v
  | ITable t => tbl_vdepth t
  | IAot ts _ => fold_right (fun t acc => Nat.max (tbl_vdepth t) acc) 0 ts
  end
with tbl_vdepth (t : tbl) : nat :=
  match t with
  | Tbl items _ _ _ _ _ => fold_right (fun kv acc => match kv with (_, i0) => Nat.max (item_vdepth i0) acc end) 0 items
  end.

(* ---- floats without a stored repr -------------------------------------------------------------
   `Formatted<f64>::default_repr` is `f64::to_toml_value` = std's `{}` text, plus ".0" when the
   value is integral, or nan / -nan / inf / -inf / 0.0 / -0.0 (Model/WriteFloat.v).  std's float
   printing is an oracle (DESIGN.md 4.4); the tree keeps a float as the exact decimal its text
   denotes (Model/Numbers.v: FDec sign m e), and for a constructed float that decimal is
   `m * 10^e` with e < 0 = minus the number of fraction digits of the text.  The text is then a
   function of the decimal: the positional notation, no exponent. *)
Definition float_text (f : fval) : bytes :=
  match f with
  | FNan false => [x6e; x61; x6e]
  | FNan true => [x2d; x6e; x61; x6e]
  | FInf false => [x69; x6e; x66]
  | FInf true => [x2d; x69; x6e; x66]
  | FDec neg m e =>
    let k := Z.to_nat (- e) in
    let ds := write_N m in
    let ds' := repeat x30 (S k - length ds) ++ ds in
    (if neg then [x2d] else []) ++ firstn (length ds' - k) ds' ++ [x2e] ++ skipn (length ds' - k) ds'
  end.

(* give every float that has no stored repr the text `ftext` as an explicit repr: the printer
   (Model/Encode.v, which prints such floats as a marker) then prints the real text *)
Section Render.
  Variable ftext : fval -> bytes.
  Fixpoint render_value (v : value) : value :=
    match v with
    | VScalar (SFloat f) None d => VScalar (SFloat f) (Some (RExplicit (ftext f))) d
    | VScalar s r d => VScalar s r d
    | VArray vals tr c d sp => VArray (map render_item vals) tr c d sp
    | VInline items pre im dt d sp =>
      VInline (map (fun kv => match kv with (k, i0) => (k, render_item i0) end) items) pre im dt d sp
    end
  with render_item (it : item) : item :=
    match it with
    | INone => INone
    | IValue v => IValue (render_value v)
    | ITable t => ITable (render_tbl t)
    | IAot ts sp => IAot (map render_tbl ts) sp
    end
  with render_tbl (t : tbl) : tbl :=
    match t with
    | Tbl items d im dt p sp =>
      Tbl (map (fun kv => match kv with (k, i0) => (k, render_item i0) end) items) d im dt p sp
    end.
End Render.
