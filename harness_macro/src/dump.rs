//! canonical, key-sorted rendering of toml::Table (floats by bits, date-times by field)
use toml::value::{Datetime, Offset};
use toml::{Table, Value};

fn hexs(b: &[u8]) -> String {
    if b.is_empty() {
        return "-".to_owned();
    }
    let mut s = String::with_capacity(b.len() * 2);
    for x in b {
        s.push_str(&format!("{:02x}", x));
    }
    s
}

fn dump_dt(d: &Datetime, out: &mut String) {
    out.push_str("dt(");
    match &d.date {
        Some(x) => out.push_str(&format!("{}-{}-{}", x.year, x.month, x.day)),
        None => out.push_str("none"),
    }
    out.push(';');
    match &d.time {
        Some(t) => out.push_str(&format!("{}:{}:{}.{}", t.hour, t.minute, t.second, t.nanosecond)),
        None => out.push_str("none"),
    }
    out.push(';');
    match &d.offset {
        Some(Offset::Z) => out.push('Z'),
        Some(Offset::Custom { minutes }) => out.push_str(&format!("C{}", minutes)),
        None => out.push_str("none"),
    }
    out.push(')');
}

pub fn dump_value(v: &Value, out: &mut String) {
    match v {
        Value::String(s) => {
            out.push_str("s:");
            out.push_str(&hexs(s.as_bytes()));
        }
        Value::Integer(i) => out.push_str(&format!("i:{}", i)),
        Value::Float(f) => {
            if f.is_nan() {
                out.push_str(if f.is_sign_negative() { "f:-nan" } else { "f:nan" });
            } else if f.is_infinite() {
                out.push_str(if *f < 0.0 { "f:-inf" } else { "f:inf" });
            } else {
                out.push_str(&format!("f:bits:{:016x}", f.to_bits()));
            }
        }
        Value::Boolean(b) => out.push_str(if *b { "b:true" } else { "b:false" }),
        Value::Datetime(d) => dump_dt(d, out),
        Value::Array(a) => {
            out.push('[');
            for (i, e) in a.iter().enumerate() {
                if i > 0 {
                    out.push(',');
                }
                dump_value(e, out);
            }
            out.push(']');
        }
        Value::Table(t) => dump_table_into(t, out),
    }
}

fn dump_table_into(t: &Table, out: &mut String) {
    let mut keys: Vec<&String> = t.keys().collect();
    keys.sort_by(|a, b| a.as_bytes().cmp(b.as_bytes()));
    out.push('{');
    for (i, k) in keys.iter().enumerate() {
        if i > 0 {
            out.push(',');
        }
        out.push_str(&hexs(k.as_bytes()));
        out.push('=');
        dump_value(&t[k.as_str()], out);
    }
    out.push('}');
}

pub fn dump_table(t: &Table) -> String {
    let mut s = String::new();
    dump_table_into(t, &mut s);
    s
}

pub fn dump_parse(text: &str) -> String {
    match text.parse::<Table>() {
        Ok(t) => dump_table(&t),
        Err(_) => "ERR".to_owned(),
    }
}
