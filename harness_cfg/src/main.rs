//! C18: the same battery under every feature configuration.  One line in, one line out; a command the
//! configuration cannot serve answers `skip`.
use std::io::{BufRead, Write};

fn unhex(s: &str) -> Vec<u8> {
    if s == "-" {
        return Vec::new();
    }
    let b = s.as_bytes();
    let v = |c: u8| match c {
        b'0'..=b'9' => c - b'0',
        b'a'..=b'f' => c - b'a' + 10,
        _ => panic!("hex"),
    };
    (0..b.len() / 2).map(|i| v(b[2 * i]) * 16 + v(b[2 * i + 1])).collect()
}
#[allow(dead_code)]
fn hex(b: &[u8]) -> String {
    if b.is_empty() {
        return "-".into();
    }
    b.iter().map(|x| format!("{x:02x}")).collect()
}

#[allow(dead_code)]
fn show_f64(f: f64) -> String {
    if f.is_nan() {
        if f.is_sign_negative() { "f:-nan".into() } else { "f:nan".into() }
    } else {
        format!("f:bits:{:016x}", f.to_bits())
    }
}

#[allow(dead_code)]
mod edit_dump {
    use super::*;
    use toml_edit::{Item, Table, Value};
    pub fn value(v: &Value) -> String {
        match v {
            Value::String(s) => format!("s:{}", hex(s.value().as_bytes())),
            Value::Integer(i) => format!("i:{}", i.value()),
            Value::Float(f) => show_f64(*f.value()),
            Value::Boolean(b) => format!("b:{}", b.value()),
            Value::Datetime(d) => format!("d:{:?}", d.value()).replace(' ', ""),
            Value::Array(a) => format!("[{}]", a.iter().map(value).collect::<Vec<_>>().join(",")),
            Value::InlineTable(t) => format!(
                "{{{}}}",
                t.iter().map(|(k, v)| format!("{}={}", hex(k.as_bytes()), value(v))).collect::<Vec<_>>().join(",")
            ),
        }
    }
    pub fn table(t: &Table) -> String {
        let mut parts = Vec::new();
        for (k, it) in t.iter() {
            let k = hex(k.as_bytes());
            match it {
                Item::None => {}
                Item::Value(v) => parts.push(format!("{k}={}", value(v))),
                Item::Table(s) => parts.push(format!("{k}={}", table(s))),
                Item::ArrayOfTables(a) => {
                    parts.push(format!("{k}=A[{}]", a.iter().map(table).collect::<Vec<_>>().join(",")))
                }
            }
        }
        format!("T{{{}}}", parts.join(","))
    }
}

/// what `into_mut` left behind: keys / items that still carry a span, keys whose stored spelling is not owned text
/// (in EVERY configuration an editable document refers to nothing in the source any more)
#[cfg(feature = "te_parse")]
fn leftovers(t: &toml_edit::Table) -> usize {
    use toml_edit::{Item, Value};
    fn key_left(k: &toml_edit::Key) -> usize {
        (k.span().is_some() as usize) + (k.as_repr().map_or(false, |r| r.as_raw().as_str().is_none()) as usize)
    }
    fn value_left(v: &Value) -> usize {
        let mut n = v.span().is_some() as usize;
        match v {
            Value::Array(a) => n += a.iter().map(value_left).sum::<usize>(),
            Value::InlineTable(t) => {
                for (k, x) in t.iter() {
                    n += t.key(k).map_or(0, key_left) + value_left(x);
                }
            }
            _ => {}
        }
        n
    }
    let mut n = t.span().is_some() as usize;
    for (k, it) in t.iter() {
        n += t.key(k).map_or(0, key_left);
        n += match it {
            Item::None => 0,
            Item::Value(v) => value_left(v),
            Item::Table(x) => leftovers(x),
            Item::ArrayOfTables(a) => (a.span().is_some() as usize) + a.iter().map(leftovers).sum::<usize>(),
        };
    }
    n
}

/// p: toml_edit parse (+ print when the display feature is on)
fn cmd_p(_text: &[u8]) -> String {
    #[cfg(feature = "te_parse")]
    {
        let s = std::str::from_utf8(_text).unwrap();
        match toml_edit::ImDocument::parse(s) {
            Ok(d) => {
                let tree = edit_dump::table(d.as_table());
                let left = leftovers(d.clone().into_mut().as_table());
                #[cfg(feature = "te_display")]
                let printed = hex(d.into_mut().to_string().as_bytes());
                #[cfg(not(feature = "te_display"))]
                let printed = "skip".to_string();
                format!("ok tree={tree} print={printed} mutspans={left}")
            }
            Err(e) => {
                let _ = e.message();
                "err".into()
            }
        }
    }
    #[cfg(not(feature = "te_parse"))]
    {
        "skip".into()
    }
}

/// b: build a document through the API from a tiny script and print it
///    script: `S:<keyhex>:<hex>|I:<keyhex>:<int>|B:<keyhex>:<0|1>|F:<keyhex>:<bits>|A:<keyhex>:<n>|T:<keyhex>` separated by ';'
fn cmd_b(_script: &[u8]) -> String {
    #[cfg(feature = "te_display")]
    {
        use toml_edit::{value, Array, DocumentMut, Item, Table};
        let s = std::str::from_utf8(_script).unwrap();
        let mut doc = DocumentMut::new();
        let mut cur: Option<String> = None;
        for part in s.split(';').filter(|p| !p.is_empty()) {
            let f: Vec<&str> = part.split(':').collect();
            let key = String::from_utf8(unhex(f[1])).unwrap();
            let item: Item = match f[0] {
                "S" => value(String::from_utf8(unhex(f[2])).unwrap()),
                "I" => value(f[2].parse::<i64>().unwrap()),
                "B" => value(f[2] == "1"),
                "F" => value(f64::from_bits(u64::from_str_radix(f[2], 16).unwrap())),
                "A" => {
                    let n: i64 = f[2].parse().unwrap();
                    let mut a = Array::new();
                    for i in 0..n {
                        a.push(i);
                    }
                    value(a)
                }
                "T" => {
                    doc.insert(&key, Item::Table(Table::new()));
                    cur = Some(key);
                    continue;
                }
                _ => panic!("script"),
            };
            match &cur {
                Some(t) => {
                    doc[t.as_str()][key.as_str()] = item;
                }
                None => {
                    doc.insert(&key, item);
                }
            }
        }
        format!("print={}", hex(doc.to_string().as_bytes()))
    }
    #[cfg(not(feature = "te_display"))]
    {
        "skip".into()
    }
}

#[cfg(feature = "t")]
#[allow(dead_code)]
fn toml_dump(v: &toml::Value, sorted: bool) -> String {
    match v {
        toml::Value::String(s) => format!("s:{}", hex(s.as_bytes())),
        toml::Value::Integer(i) => format!("i:{i}"),
        toml::Value::Float(f) => show_f64(*f),
        toml::Value::Boolean(b) => format!("b:{b}"),
        toml::Value::Datetime(d) => format!("d:{d:?}").replace(' ', ""),
        toml::Value::Array(a) => format!("[{}]", a.iter().map(|x| toml_dump(x, sorted)).collect::<Vec<_>>().join(",")),
        toml::Value::Table(t) => {
            let mut parts: Vec<(String, String)> = t.iter().map(|(k, v)| (hex(k.as_bytes()), toml_dump(v, sorted))).collect();
            if sorted {
                parts.sort();
            }
            format!("{{{}}}", parts.iter().map(|(k, v)| format!("{k}={v}")).collect::<Vec<_>>().join(","))
        }
    }
}

/// tp: toml::from_str::<Value>: sorted dump (must be equal everywhere) and iteration-order dump
fn cmd_tp(_text: &[u8]) -> String {
    #[cfg(feature = "t_parse")]
    {
        let s = std::str::from_utf8(_text).unwrap();
        match s.parse::<toml::Table>() {
            Ok(t) => {
                let v = toml::Value::Table(t);
                #[cfg(feature = "t_display")]
                let printed = hex(v.to_string().as_bytes());
                #[cfg(not(feature = "t_display"))]
                let printed = "skip".to_string();
                // the same content inserted in the opposite order must be the same table (==) in every configuration
                fn rev(v: &toml::Value) -> toml::Value {
                    match v {
                        toml::Value::Table(t) => {
                            let mut pairs: Vec<(String, toml::Value)> = t.iter().map(|(k, x)| (k.clone(), rev(x))).collect();
                            pairs.reverse();
                            let mut n = toml::Table::new();
                            for (k, x) in pairs {
                                n.insert(k, x);
                            }
                            toml::Value::Table(n)
                        }
                        toml::Value::Array(a) => toml::Value::Array(a.iter().map(rev).collect()),
                        other => other.clone(),
                    }
                }
                fn has_nan(v: &toml::Value) -> bool {
                    match v {
                        toml::Value::Float(f) => f.is_nan(),
                        toml::Value::Table(t) => t.iter().any(|(_, x)| has_nan(x)),
                        toml::Value::Array(a) => a.iter().any(has_nan),
                        _ => false,
                    }
                }
                let r = rev(&v);
                // NaN != NaN by IEEE 754: `==` is only meaningful for NaN-free values
                let eq = if has_nan(&v) { "skip".to_string() } else { (r == v && v == r && v == v.clone()).to_string() };
                format!("ok sorted={} order={} print={} eq={}", toml_dump(&v, true), toml_dump(&v, false), printed, eq)
            }
            Err(_) => "err".into(),
        }
    }
    #[cfg(not(feature = "t_parse"))]
    {
        "skip".into()
    }
}

fn run(cmd: &str, arg: &[u8]) -> String {
    match cmd {
        "p" => cmd_p(arg),
        "b" => cmd_b(arg),
        "tp" => cmd_tp(arg),
        _ => "unknown-command".into(),
    }
}

fn main() {
    std::panic::set_hook(Box::new(|_| {}));
    let stdin = std::io::stdin();
    let stdout = std::io::stdout();
    let mut out = std::io::BufWriter::new(stdout.lock());
    for line in stdin.lock().lines() {
        let line = line.unwrap();
        let mut it = line.split(' ').filter(|s| !s.is_empty());
        let cmd = it.next().unwrap_or("").to_string();
        let arg = it.next().map(unhex).unwrap_or_default();
        let r = std::panic::catch_unwind(|| run(&cmd, &arg));
        match r {
            Ok(s) => writeln!(out, "{s}").unwrap(),
            Err(_) => writeln!(out, "PANIC").unwrap(),
        }
    }
    out.flush().unwrap();
}
