"""common.py — paths, process helpers, build steps, audit, evidence, verdict plumbing
shared by every property check (python3 stdlib only)."""
import contextlib, fcntl, hashlib, json, os, random, re, subprocess, sys, time

VERIF = os.path.dirname(os.path.dirname(os.path.abspath(__file__)))
REPO = os.environ.get("VERIF_REPO", "/repo")
COQ = os.path.join(VERIF, "coq")
DRIVER_DIR = os.path.join(VERIF, "driver")
def driver_bin(name="core"):
    return os.path.join(DRIVER_DIR, "driver_" + name)


DRIVER = driver_bin("core")
HARNESS_DIR = os.path.join(VERIF, "harness")
BUILD = os.path.join(VERIF, "build")
EVIDENCE = os.path.join(VERIF, "evidence")
REPLAY = os.path.join(VERIF, "replay")
GUARD_CFG = "toml_rs_toml_verif"

FORBIDDEN = re.compile(
    r"\b(Admitted|admit|Axiom|Axioms|Parameter|Parameters|Conjecture|Conjectures|Abort|give_up)\b"
    r"|Unset\s+Guard|bypass_check|type-in-type|impredicative-set|Admit\s+Obligations|Unset\s+Positivity|Unset\s+Universe")
ALLOWED_AXIOMS_FILE = os.path.join(VERIF, "lib", "assumptions_allow.txt")

CPUS = max(1, min(16, os.cpu_count() or 1))


def log(msg):
    print(msg, flush=True)


def sh(cmd, cwd=None, timeout=None, env=None, input_bytes=None):
    e = dict(os.environ)
    e.update({"CARGO_NET_OFFLINE": "true", "LC_ALL": "C.UTF-8"})
    if env:
        e.update(env)
    t0 = time.time()
    try:
        p = subprocess.run(cmd, cwd=cwd, env=e, input=input_bytes, stdout=subprocess.PIPE,
                           stderr=subprocess.STDOUT, timeout=timeout, shell=isinstance(cmd, str))
        return p.returncode, p.stdout.decode("utf-8", "replace"), time.time() - t0
    except subprocess.TimeoutExpired as ex:
        out = ex.stdout.decode("utf-8", "replace") if ex.stdout else ""
        return 124, out + "\n[timeout after %ss]" % timeout, time.time() - t0


@contextlib.contextmanager
def build_lock():
    os.makedirs(BUILD, exist_ok=True)
    f = open(os.path.join(BUILD, ".lock"), "w")
    fcntl.flock(f, fcntl.LOCK_EX)
    try:
        yield
    finally:
        fcntl.flock(f, fcntl.LOCK_UN)
        f.close()


# ---------------------------------------------------------------------------------------
# build steps
# ---------------------------------------------------------------------------------------
class StepResult:
    def __init__(self, ok, detail="", out=""):
        self.ok, self.detail, self.out = ok, detail, out


def gen_consts():
    sys.path.insert(0, os.path.join(VERIF, "lib"))
    import gen_consts as gc
    gc.REPO = REPO
    try:
        text = gc.render(gc.generate())
    except gc.ConstsError as e:
        return StepResult(False, "constants translator: %s" % e)
    except Exception as e:  # source unreadable etc.
        return StepResult(False, "constants translator crashed: %r" % e)
    changed = gc.write_if_changed(os.path.join(COQ, "Gen", "Consts.v"), text)
    return StepResult(True, "rewritten" if changed else "unchanged")


def coq_makefile():
    mk = os.path.join(COQ, "Makefile")
    cp = os.path.join(COQ, "_CoqProject")
    if not os.path.exists(mk) or os.path.getmtime(mk) < os.path.getmtime(cp):
        rc, out, _ = sh(["coq_makefile", "-f", "_CoqProject", "-o", "Makefile"], cwd=COQ, timeout=120)
        if rc != 0:
            return StepResult(False, "coq_makefile failed", out)
    return StepResult(True)


def coq_make(targets, timeout=1500, force=()):
    """make the given .vo targets (full .vo builds).  `force` lists targets whose .vo is
    removed first so that their output (Print Assumptions) is produced on this run."""
    r = coq_makefile()
    if not r.ok:
        return r
    for t in force:
        for ext in (".vo", ".vok", ".vos", ".glob"):
            with contextlib.suppress(FileNotFoundError):
                os.remove(os.path.join(COQ, t[:-3] + ext))
    cmd = ["make", "-j%d" % CPUS] + list(targets)
    rc, out, dt = sh(cmd, cwd=COQ, timeout=timeout)
    if rc != 0:
        m = re.search(r'File "([^"]+)", line (\d+)', out)
        where = "%s:%s" % (m.group(1), m.group(2)) if m else "?"
        return StepResult(False, "coq build failed at %s (%s)" % (where, " ".join(targets)), out)
    return StepResult(True, "built in %.1fs" % dt, out)


def allowed_axioms():
    names = set()
    with contextlib.suppress(FileNotFoundError):
        for line in open(ALLOWED_AXIOMS_FILE):
            line = line.split("#")[0].strip()
            if line:
                names.add(line)
    return names


def audit_sources(files=None):
    """grep the whole development for forbidden vernacular."""
    bad = []
    for root, _, fs in os.walk(COQ):
        for f in fs:
            if not f.endswith(".v"):
                continue
            p = os.path.join(root, f)
            txt = open(p, encoding="utf-8").read()
            # strip comments (non-nested is enough for our sources; nested handled by loop)
            prev = None
            while prev != txt:
                prev = txt
                txt = re.sub(r"\(\*(?:(?!\(\*|\*\)).)*\*\)", " ", txt, flags=re.S)
            for m in FORBIDDEN.finditer(txt):
                bad.append("%s: %s" % (os.path.relpath(p, COQ), m.group(0)))
            # Variable / Hypothesis / Context declare an axiom when they stand outside a Section
            stack = []
            for line in txt.split("\n"):
                st = line.strip()
                m = re.match(r"(Section|Module Type|Module)\s+\w+[^:=]*\.\s*$", st)
                if m:
                    stack.append(m.group(1))
                elif re.match(r"End\s+\w+\s*\.", st) and stack:
                    stack.pop()
                elif "Section" not in stack and re.match(r"(Variable|Variables|Hypothesis|Hypotheses|Context)\b", st):
                    bad.append("%s: %s outside a Section" % (os.path.relpath(p, COQ), st[:60]))
    return bad


def audit_assumptions(make_out, props_file):
    """Parse the output of `Print Assumptions` printed while compiling Props/Cxx.v.
    Returns (n_theorems, n_closed_or_allowed, problems, axioms_used)."""
    src = open(os.path.join(COQ, props_file), encoding="utf-8").read()
    theorems = re.findall(r"^\s*Theorem\s+(\w+)", src, re.M)
    prints = re.findall(r"^\s*Print Assumptions\s+(\w+)\s*\.", src, re.M)
    problems = []
    for t in theorems:
        if t not in prints:
            problems.append("theorem %s has no Print Assumptions" % t)
    # split output into blocks: either "Closed under the global context" or "Axioms:\n ..."
    blocks = re.findall(r"(Closed under the global context|Axioms:\n(?:(?:[^\n]*\n)(?!Closed under|Axioms:|COQC|make))*[^\n]*)", make_out)
    allow = allowed_axioms()
    ok = 0
    used = set()
    for b in blocks:
        if b.startswith("Closed"):
            ok += 1
            continue
        names = re.findall(r"^([A-Za-z_][\w.']*)\s*:", b, re.M)
        names = [n for n in names if n != "Axioms"]
        notallowed = [n for n in names if n not in allow and n.split(".")[-1] not in allow]
        used.update(names)
        if notallowed:
            problems.append("assumptions outside the allow-list: %s" % ", ".join(notallowed))
        else:
            ok += 1
    if len(blocks) != len(prints):
        problems.append("expected %d Print Assumptions blocks, saw %d" % (len(prints), len(blocks)))
    return len(theorems), ok, problems, sorted(used)


def coqchk(props_file, timeout=3000):
    """independent re-check of the compiled Props file and everything it depends on (thorough tier).
    Returns StepResult; ok only if coqchk succeeds and reports no axioms outside the allow-list, no type-in-type,
    no unsafe fixpoints, no assumed positivity."""
    files = [props_file] if isinstance(props_file, str) else list(props_file)
    mods = ["TV." + f[:-2].replace("/", ".") for f in files]
    mod = " ".join(mods)
    rc, out, dt = sh(["coqchk", "-o", "-silent", "-Q", ".", "TV"] + mods, cwd=COQ, timeout=timeout)
    if rc != 0:
        return StepResult(False, "coqchk failed on %s" % mod, out)
    allow = allowed_axioms()
    problems = []
    m = re.search(r"\* Axioms:(.*?)\n\s*\n\* Constants/Inductives relying on type-in-type:(.*?)\n\s*\n\* Constants/Inductives relying on unsafe \(co\)fixpoints:(.*?)\n\s*\n\* Inductives whose positivity is assumed:(.*?)\n", out + "\n", re.S)
    if not m:
        return StepResult(False, "coqchk output not understood", out)
    axioms = [x.strip() for x in m.group(1).split("\n") if x.strip() and x.strip() != "<none>"]
    bad_ax = [x for x in axioms if x not in allow and x.split(".")[-1] not in allow]
    if bad_ax:
        problems.append("axioms outside the allow-list: %s" % ", ".join(bad_ax))
    for i, what in ((2, "type-in-type"), (3, "unsafe fixpoints"), (4, "assumed positivity")):
        if m.group(i).strip() != "<none>":
            problems.append("%s: %s" % (what, m.group(i).strip()[:200]))
    if problems:
        return StepResult(False, "coqchk: " + "; ".join(problems), out)
    return StepResult(True, "coqchk -o ok on %d theorem file(s) and everything they depend on in %.0fs (axioms: %s)" % (len(mods), dt, ", ".join(axioms) or "none"), out)


def build_driver(name="core"):
    r = coq_make(["Extract/Extract_%s.vo" % name])
    if not r.ok:
        return r
    ml = os.path.join(COQ, "model_%s.ml" % name)
    stamp = os.path.join(DRIVER_DIR, ".model_%s.sha" % name)
    h = hashlib.sha256(open(ml, "rb").read() + open(os.path.join(DRIVER_DIR, "main.ml"), "rb").read()).hexdigest()
    if os.path.exists(driver_bin(name)) and os.path.exists(stamp) and open(stamp).read() == h:
        return StepResult(True, "driver up to date")
    rc, out, dt = sh(["sh", "build.sh", name], cwd=DRIVER_DIR, timeout=600)
    if rc != 0 or not os.path.exists(driver_bin(name)):
        return StepResult(False, "driver build failed", out)
    open(stamp, "w").write(h)
    return StepResult(True, "driver built in %.1fs" % dt)


def _tdir(profile, features):
    return "target" if not features else "target-" + "-".join(features)


def harness_bin(profile="release", features=(), bin_name="core"):
    sub = {"release": "release", "dev": "debug"}.get(profile, profile)     # custom profiles build into target/<profile>
    return os.path.join(HARNESS_DIR, _tdir(profile, features), sub, bin_name)


def build_harness(profile="release", features=(), timeout=1500, bin_name="core"):
    lock = os.path.join(HARNESS_DIR, "Cargo.lock")
    src = os.path.join(REPO, "Cargo.lock")
    try:
        if not os.path.exists(lock) or open(lock, "rb").read() != open(src, "rb").read():
            open(lock, "wb").write(open(src, "rb").read())
    except OSError as e:
        return StepResult(False, "cannot copy Cargo.lock: %r" % e)
    cmd = ["cargo", "build", "--offline", "--target-dir", _tdir(profile, features), "--bin", bin_name]
    if profile == "release":
        cmd.append("--release")
    elif profile != "dev":
        cmd += ["--profile", profile]                      # e.g. dbg0 = unoptimised debug build (harness/Cargo.toml)
    if features:
        cmd += ["--features", ",".join(features)]
    rc, out, dt = sh(cmd, cwd=HARNESS_DIR, timeout=timeout,
                     env={"RUSTFLAGS": "--cfg %s" % GUARD_CFG})
    if rc != 0:
        return StepResult(False, "harness build failed (the working tree does not compile?)", out)
    return StepResult(True, "harness built in %.1fs" % dt)


# ---------------------------------------------------------------------------------------
# running cases through model and implementation
# ---------------------------------------------------------------------------------------
def hexarg(b):
    return b.hex() if b else "-"


def case_line(cmd, args):
    return cmd + " " + " ".join(hexarg(a) for a in args)


def run_lines(binary, lines, timeout=1800, shards=None):
    """Feed protocol lines to a binary (sharded over processes); returns list of output lines."""
    if not lines:
        return []
    shards = shards or min(CPUS, max(1, len(lines) // 2000))
    chunks = [lines[i::shards] for i in range(shards)]
    procs = []
    for ch in chunks:
        p = subprocess.Popen([binary], stdin=subprocess.PIPE, stdout=subprocess.PIPE, stderr=subprocess.PIPE)
        procs.append(p)
    # write in threads to avoid deadlock
    import threading
    outs = [None] * shards

    def feed(k):
        data = ("\n".join(chunks[k]) + "\n").encode()
        try:
            o, e = procs[k].communicate(data, timeout=timeout)
        except subprocess.TimeoutExpired:
            procs[k].kill()
            o, e = procs[k].communicate()
            o += b"\nTIMEOUT\n"
        outs[k] = (o.decode("utf-8", "replace").split("\n"), procs[k].returncode, e.decode("utf-8", "replace"))

    ths = [threading.Thread(target=feed, args=(k,)) for k in range(shards)]
    for t in ths:
        t.start()
    for t in ths:
        t.join()
    res = [None] * len(lines)
    for k in range(shards):
        o, rc, err = outs[k]
        n = len(chunks[k])
        for j in range(n):
            idx = k + j * shards
            if j < len(o) and not (j == len(o) - 1 and o[j] == ""):
                res[idx] = o[j]
            else:
                res[idx] = "CRASH rc=%s %s" % (rc, err.strip().replace("\n", " ")[:200])
    return res


# ---------------------------------------------------------------------------------------
# evidence / verdict
# ---------------------------------------------------------------------------------------
def known_findings(prop):
    p = os.path.join(VERIF, "known_findings.json")
    try:
        data = json.load(open(p))
    except FileNotFoundError:
        return []
    return [e for e in data.get("findings", []) if e.get("property") == prop]


def write_evidence(prop, tier, seed, coverage, assumptions, wall_s, violations, level="proof"):
    os.makedirs(EVIDENCE, exist_ok=True)
    ev = {"property_id": prop, "tier": tier, "seed": seed, "level": level, "coverage": coverage,
          "assumptions": assumptions, "wall_s": round(wall_s, 2), "violations": violations}
    tmp = os.path.join(EVIDENCE, "%s.json.tmp" % prop)
    with open(tmp, "w") as f:
        json.dump(ev, f, indent=1, sort_keys=True, default=str)
    os.replace(tmp, os.path.join(EVIDENCE, "%s.json" % prop))


def write_replay(prop, seed, payload):
    os.makedirs(REPLAY, exist_ok=True)
    path = os.path.join(REPLAY, "%s-%s.json" % (prop, seed))
    with open(path, "w") as f:
        json.dump(payload, f, indent=1, default=str)
    return path


TRUSTED_BASE = [
    "Coq 8.16.1 kernel (coqc; vm_compute used in proofs; no native_compute); coqchk -o in the thorough tier",
    "no axioms declared by the development; Print Assumptions under every theorem in Props/ checked against lib/assumptions_allow.txt",
    "lib/gen_consts.py: translator of the Rust constants/tables into coq/Gen/Consts.v (regenerated every run)",
    "Base/Winnow.v: winnow 0.7.6 combinator semantics transcribed by hand (oracle for external code)",
    "extraction: ExtrOcamlBasic only (bool, option, unit, list, prod, sumbool, sumor; andb/orb inlined); OCaml 4.13.1; driver/main.ml hex I/O",
    "correspondence harness: /verif/harness (Rust, linked against /repo working tree), python generators and differ",
    "the Rust control flow is modelled by hand (Model/*.v) and tied to the code by the correspondence runs on generated inputs only",
]
