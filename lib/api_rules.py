"""api_rules.py — the classification behind coq/Model/api_coverage.json (lib/scan_api.py --annotate).

One rule per public function: (class, ops, model, note).  Classes: M modelled+proved, H exercised-by-harness (oracle level),
R read-only-accessor, N not-covered.  `ops` name the operation of lib/props/<prop>.py whose harness code (harness/src/bin/*.rs)
makes the call; `model` the Coq function that transcribes it.  Rules are looked up by (file, target, trait, name), then by
(file, target, trait, "*"); a function without a rule stays unclassified and breaks the obligation `api-inventory`.
"""
M, H, R, N = "modelled+proved", "exercised-by-harness", "read-only-accessor", "not-covered"

TSTEP = "Model/Containers.v tstep (C16_table / C16_inline / C16_inline_tablelike)"
PSTEP = "Model/Containers.v pstep (C16_map_sorted / C16_map_ordered)"
VSTEP = "Model/Containers.v vstep (C16_array / C16_aot)"
DOCK = "C16:doc/"          # the oracle-only kind `doc` of harness/src/bin/c16.rs


def t16(ops, kinds="table"):
    return ", ".join("C16:%s/%s" % (kinds, o) for o in ops.split())


RULES = {}


def rule(file, target, trait, names, cls, ops="", model="", note=""):
    for n in names.split():
        RULES[(file, target, trait, n)] = (cls, ops, model, note)


E = "crates/toml_edit/src/"
T = "crates/toml/src/"

# ------------------------------------------------------------------------------------------------ toml_edit::Table
f = E + "table.rs"
rule(f, "Table", "", "new", M, "C06:build T, C08:instab, C16:table", "Model/Build.v tbl_of, Model/Edit.v tbl_new", "constructor of every built table")
rule(f, "Table", "", "into_inline_table", M, "C08:mkval, C16:doc/intov", "Model/Edit.v tbl_into_inline (make_value)", "reached through Item::make_value / into_value")
rule(f, "Table", "", "get_values", R, "C16:table/gv, C16:table print=", "Model/Encode.v table_values", "what Display for Table and the document printer walk")
rule(f, "Table", "", "fmt", M, "C08:fmt", "Model/Edit.v op_fmt", "")
rule(f, "Table", "", "sort_values", M, "C08:sort, C16:table/sort", "Model/Edit.v tbl_sort_values; " + TSTEP, "")
rule(f, "Table", "", "sort_values_by", M, "C08:sortby, C16:table/sortby", "Model/Edit.v tbl_sort_by; " + TSTEP, "comparator vocabulary kdesc / rank")
rule(f, "Table", "", "set_implicit set_position", H, DOCK + "simp, " + DOCK + "spos", "", "raw field setters; oracle: printed text keeps the data (class C16-raw-flag-setters-move-content where not)")
rule(f, "Table", "", "set_dotted", H, DOCK + "sdot", "", "through TableLike::set_dotted")
rule(f, "Table", "", "is_implicit is_dotted", R, "C08 fragments (flags of every header), C16:doc view=", "Model/Tree.v t_implicit / t_dotted", "")
rule(f, "Table", "", "position", R, "C04 fuzz walk only", "Model/Tree.v t_position", "value is observed only through the order of the printed headers")
rule(f, "Table", "", "decor_mut", H, DOCK + "dec, " + DOCK + "dclr", "", "formatting setter (white space / comment texts)")
rule(f, "Table", "", "decor", R, "C08 fragments", "Model/Tree.v t_decor", "")
rule(f, "Table", "", "key", M, "C16:table/key, C08 fragments", TSTEP, "")
rule(f, "Table", "", "key_mut", H, DOCK + "kpre, " + DOCK + "kfmt", "", "through TableLike::key_mut")
rule(f, "Table", "", "key_decor_mut key_decor", H, DOCK + "kdecm, " + DOCK + "kdec", "", "deprecated accessors, through TableLike")
rule(f, "Table", "", "span", R, "C14 spans harness (harness/src/spans.rs)", "Model/Tree.v t_span", "")
rule(f, "Table", "", "iter iter_mut len is_empty clear entry get get_mut get_key_value get_key_value_mut contains_key contains_table "
     "contains_value contains_array_of_tables insert insert_formatted remove remove_entry retain", M,
     "C16:table/<iter iterm len emp clr ent|eoi|eins|erm get getm gkv gkvm ck ct cv ca ins insf rm rme ret>, C08:ins|rm", TSTEP + "; Model/Edit.v op_insert / op_remove", "")
rule(f, "Table", "", "entry_format", H, "C16:table/entf", "", "oracle-only call of kind table")
rule(f, "Table", "Display", "fmt", M, "C16:table print=, C06:val", "Model/Containers.v tobserve (print); Model/Encode.v", "")
rule(f, "Table", "Extend", "extend", M, "C16:table/ext", TSTEP, "")
rule(f, "Table", "FromIterator", "from_iter", M, "C16:table/from", TSTEP, "")
rule(f, "Table", "IntoIterator", "into_iter", M, "C16:table/into", TSTEP, "")
rule(f, "&Table", "IntoIterator", "into_iter", H, "C16:table/intor", "", "= iter()")
rule(f, "trait TableLike", "TableLike", "*", R, "", "", "trait declaration: see the two impls (default methods len / is_empty: C16:inline_tl/len|emp)")
rule(f, "trait TableLike", "TableLike", "len is_empty", M, "C16:inline_tl/len|emp", TSTEP, "default methods over iter()")
rule(f, "Table", "TableLike", "iter iter_mut clear entry get get_mut get_key_value get_key_value_mut contains_key insert remove sort_values key", H,
     "C16:table_tl/<iter iterm clr ent|eoi|eins|erm get getm gkv gkvm ck ins rm sort key> (a standard Table through `dyn TableLike`)", "",
     "one-line delegation to the inherent method (modelled there); judged against the reference ordered map")
rule(f, "Table", "TableLike", "entry_format get_values fmt set_dotted is_dotted key_mut key_decor_mut key_decor", H,
     "C16:table_tl/gv|fmt|dot, " + DOCK + "tlef|sdot|kpre|kdecm|kdec|kfmt on a standard table", "", "one-line delegation to the inherent method")
rule(f, "Entry", "", "or_insert", M, "C16:table/eoi, C16:inline_tl/eoi", TSTEP, "")
rule(f, "Entry", "", "or_insert_with key", H, "C16:table/eoiw|ekey, C16:doc/tlef", "", "")
rule(f, "OccupiedEntry", "", "get insert remove", M, "C16:table/ent|eins|erm", TSTEP, "")
rule(f, "OccupiedEntry", "", "key key_mut get_mut into_mut", H, "C16:table/emut", "", "")
rule(f, "VacantEntry", "", "insert", M, "C16:table/eins", TSTEP, "")
rule(f, "VacantEntry", "", "key", H, "C16:table/emut", "", "")

# ------------------------------------------------------------------------------------------------ toml_edit::InlineTable
f = E + "inline_table.rs"
rule(f, "InlineTable", "", "new", M, "C06:build I, C16:inline", "Model/Build.v inline_insert_api", "")
rule(f, "InlineTable", "", "into_table", M, "C08:intotab", "Model/Edit.v into_table_slot", "through Item::into_table")
rule(f, "InlineTable", "", "get_values", R, "C16:inline/gv, every print of an inline table", "Model/Encode.v inline_values", "")
rule(f, "InlineTable", "", "fmt", M, "C08:fmt", "Model/Edit.v op_fmt", "")
rule(f, "InlineTable", "", "sort_values", M, "C08:sort, C16:inline/sort", "Model/Edit.v inline_sort_values; " + TSTEP, "")
rule(f, "InlineTable", "", "sort_values_by", M, "C08:sortby, C16:inline/sortby", "Model/Edit.v inline_sort_by; " + TSTEP, "")
rule(f, "InlineTable", "", "set_dotted", H, DOCK + "sdot", "", "through TableLike::set_dotted")
rule(f, "InlineTable", "", "is_dotted", R, "C08 fragments, C16:doc view=", "Model/Tree.v VInline dotted", "")
rule(f, "InlineTable", "", "decor_mut", H, DOCK + "dec|dclr (through Value::decor_mut)", "", "formatting setter")
rule(f, "InlineTable", "", "decor preamble", R, "C08 fragments", "Model/Tree.v VInline decor / preamble", "")
rule(f, "InlineTable", "", "set_preamble", H, DOCK + "pre", "", "formatting setter")
rule(f, "InlineTable", "", "key", M, "C16:inline/key", TSTEP, "")
rule(f, "InlineTable", "", "key_mut", H, DOCK + "kpre|kfmt", "", "through TableLike::key_mut")
rule(f, "InlineTable", "", "key_decor_mut key_decor", H, DOCK + "kdecm|kdec", "", "deprecated accessors, through TableLike")
rule(f, "InlineTable", "", "span", R, "C14 spans harness", "Model/Tree.v VInline span", "")
rule(f, "InlineTable", "", "iter iter_mut len is_empty clear entry get get_mut get_key_value get_key_value_mut contains_key get_or_insert "
     "insert insert_formatted remove remove_entry retain", M,
     "C16:inline/<iter iterm len emp clr ent|eoi|eins|erm get getm gkv gkvm ck goi ins insf rm rme ret>, C08:ins|rm", TSTEP + "; Model/Edit.v", "")
rule(f, "InlineTable", "", "entry_format", H, "C16:inline/entf", "", "oracle-only call of kind inline")
rule(f, "InlineTable", "Display", "fmt", M, "C16:inline print=, C06:val", "Model/Containers.v tobserve (print); Model/Encode.v", "")
rule(f, "InlineTable", "Extend", "extend", M, "C16:inline/ext", TSTEP, "")
rule(f, "InlineTable", "FromIterator", "from_iter", M, "C16:inline/from, C06:build I mode c", TSTEP + "; Model/Build.v inline_from_iter", "")
rule(f, "InlineTable", "IntoIterator", "into_iter", M, "C16:inline/into", TSTEP, "")
rule(f, "&InlineTable", "IntoIterator", "into_iter", H, "C16:inline/intor", "", "= iter()")
rule(f, "InlineTable", "TableLike", "iter iter_mut clear entry get get_mut get_key_value get_key_value_mut contains_key insert remove "
     "sort_values key", M, "C16:inline_tl/<iter iterm clr ent|eoi|eins|erm get getm gkv gkvm ck ins rm sort key>", TSTEP + " (kind KInlineTL)",
     "insert with a non-value item: C16:doc/tlins (Item::None panics: class C16-tablelike-insert-none-panics)")
rule(f, "InlineTable", "TableLike", "entry_format get_values fmt set_dotted is_dotted key_mut key_decor_mut key_decor", H,
     "C16:inline_tl/gv|fmt|dot, " + DOCK + "tlef|sdot|kpre|kdecm|kdec|kfmt on an inline table", "", "delegates to the inherent method; entry / entry_format hand out the TABLE entry type: "
     "a non-value item can be stored (classes C06-table-in-inline, C16-inline-read-panics-on-non-value)")
rule(f, "InlineEntry", "", "or_insert", M, "C16:inline/eoi", TSTEP, "")
rule(f, "InlineEntry", "", "or_insert_with key", H, "C16:inline/eoiw|ekey", "", "")
rule(f, "InlineOccupiedEntry", "", "get insert remove", M, "C16:inline/ent|eins|erm", TSTEP, "")
rule(f, "InlineOccupiedEntry", "", "key key_mut get_mut into_mut", H, "C16:inline/emut", "", "")
rule(f, "InlineVacantEntry", "", "insert", M, "C16:inline/eins", TSTEP, "")
rule(f, "InlineVacantEntry", "", "key", H, "C16:inline/emut", "", "")

# ------------------------------------------------------------------------------------------------ toml_edit::Array
f = E + "array.rs"
rule(f, "Array", "", "new", M, "C06:build A mode p, C16:array", "Model/Build.v array_new", "")
rule(f, "Array", "", "fmt", M, "C08:fmt, C16:doc/afmt", "Model/Edit.v op_fmt", "")
rule(f, "Array", "", "set_trailing_comma set_trailing", H, DOCK + "atr", "", "formatting setters")
rule(f, "Array", "", "trailing_comma trailing decor", R, "C08 fragments", "Model/Tree.v VArray fields", "")
rule(f, "Array", "", "decor_mut", H, DOCK + "dec|dclr (through Value::decor_mut)", "", "formatting setter")
rule(f, "Array", "", "span", R, "C14 spans harness", "Model/Tree.v VArray span", "")
rule(f, "Array", "", "iter iter_mut len is_empty clear get get_mut push push_formatted insert insert_formatted replace replace_formatted "
     "remove retain sort_by sort_by_key", M,
     "C16:array/<iter iterm len emp clr get getm push pushf ins insf rep repf rm ret sortby sortkey>, C08:push|ains|arep|arm",
     VSTEP + "; Model/Edit.v op_arr_*", "sort_by over elements of mixed kinds: C16:doc/asort (oracle level)")
rule(f, "Array", "Display", "fmt", M, "C06:val (Display of the lone Array)", "Model/Encode.v encode_array", "")
rule(f, "Array", "Extend", "extend", M, "C16:array/ext", VSTEP, "")
rule(f, "Array", "FromIterator", "from_iter", M, "C16:array/from, C06:build A mode c, C08:push payload A", VSTEP + "; Model/Build.v array_from_iter", "")
rule(f, "Array", "IntoIterator", "into_iter", M, "C16:array/into", VSTEP, "")
rule(f, "&Array", "IntoIterator", "into_iter", H, "C16:array/intor", "", "= iter()")

# ------------------------------------------------------------------------------------------------ toml_edit::ArrayOfTables
f = E + "array_of_tables.rs"
rule(f, "ArrayOfTables", "", "new", M, "C06:build O, C08:insaot, C16:aot", "Model/Build.v aot_new", "")
rule(f, "ArrayOfTables", "", "into_array", M, "C08:mkval on an array of tables, C16:doc/intov", "Model/Edit.v make_value (IAot)", "")
rule(f, "ArrayOfTables", "", "span", R, "C14 spans harness", "Model/Tree.v IAot span", "")
rule(f, "ArrayOfTables", "", "iter iter_mut len is_empty clear get get_mut push remove retain", M,
     "C16:aot/<iter iterm len emp clr get getm push rm ret>, C08:tpush|trm", VSTEP + "; Model/Edit.v op_aot_push / op_aot_remove",
     "retain / iter_mut / get_mut on tables of different shapes: C16:doc/aotret|aotset (oracle level)")
rule(f, "ArrayOfTables", "Extend", "extend", M, "C16:aot/ext", VSTEP, "")
rule(f, "ArrayOfTables", "FromIterator", "from_iter", M, "C16:aot/from", VSTEP, "")
rule(f, "ArrayOfTables", "IntoIterator", "into_iter", M, "C16:aot/into", VSTEP, "")
rule(f, "&ArrayOfTables", "IntoIterator", "into_iter", H, "C16:aot/intor", "", "= iter()")
rule(f, "ArrayOfTables", "Display", "fmt", H, "C16:aot/disp, C16:doc/disp", "", "prints the array of inline tables it converts to")

# ------------------------------------------------------------------------------------------------ toml_edit::Item
f = E + "item.rs"
rule(f, "Item", "", "or_insert", M, "C16:table/ioi, C16:inline/ioi, C16:inline_tl/ioi, C16:doc/oi", TSTEP, "")
rule(f, "Item", "", "type_name", R, "C16:doc (result of every conversion call)", "", "")
rule(f, "Item", "", "get get_mut", M, "C16:array/iget, C16:aot/iget, C16:doc path walk", VSTEP + " (iget); Model/Edit.v at_path", "")
rule(f, "Item", "", "as_value as_table as_array_of_tables as_value_mut as_table_mut as_array_of_tables_mut as_array as_array_mut as_inline_table "
     "as_inline_table_mut as_table_like as_table_like_mut as_integer as_float as_bool as_str as_datetime", R,
     "typed accessors every harness walks the tree with (harness/src/tree.rs, bin/c08.rs view, bin/c16.rs)", "Model/Edit.v at_path (typed steps)", "projection only")
rule(f, "Item", "", "is_value is_table is_array_of_tables is_none is_integer is_float is_bool is_str is_datetime is_array is_inline_table is_table_like", R,
     "C16 show_item / pred, C04 fuzz walk", "", "= as_*().is_some()")
rule(f, "Item", "", "into_value", M, "C08:mkval (make_value = into_value stored back), C16:doc/intov, C16:doc/tlins", "Model/Edit.v make_value", "")
rule(f, "Item", "", "make_value", M, "C08:mkval, C16:doc/mkval", "Model/Edit.v make_value", "")
rule(f, "Item", "", "into_table", M, "C08:intotab, C16:doc/intot", "Model/Edit.v into_table_slot", "")
rule(f, "Item", "", "into_array_of_tables", M, "C08:intoaot, C16:doc/intoa", "Model/Edit.v into_aot_slot", "")
rule(f, "Item", "", "span", R, "C14 spans harness", "", "")
rule(f, "Item", "FromStr", "from_str", H, DOCK + "pitem", "", "= Value::from_str wrapped in Item::Value")
rule(f, "Item", "From", "from", H, DOCK + "icl (From<&Item>), payloads T1 / A1 / i<z> (From<Table>, From<ArrayOfTables>, From<V: Into<Value>>)", "", "wrappers")
rule(f, "Item", "Display", "fmt", H, DOCK + "disp", "", "dispatches to Display of Value / Table / ArrayOfTables")
rule(f, "<free>", "", "value", M, "C08:ins, C16:table/ins payload i<z>", "Model/Edit.v build_value; Model/Build.v value_from", "Item::Value(v.into())")
rule(f, "<free>", "", "table array", H, DOCK + "payloads T / A", "", "Item::Table(Table::new()) / Item::ArrayOfTables(ArrayOfTables::new())")

# ------------------------------------------------------------------------------------------------ toml_edit::Value
f = E + "value.rs"
rule(f, "Value", "", "type_name", R, "C16:doc/asort (the comparator's key)", "", "")
rule(f, "Value", "", "as_str is_str as_integer is_integer as_float is_float as_bool is_bool as_datetime is_datetime as_array as_array_mut is_array "
     "as_inline_table as_inline_table_mut is_inline_table", R, "typed accessors of the harness dumps (harness/src/tree.rs show_value) and path walks", "", "projection only")
rule(f, "Value", "", "decor_mut", H, DOCK + "dec|dclr", "", "formatting setter; dispatches to Formatted / Array / InlineTable::decor_mut")
rule(f, "Value", "", "decorated", H, DOCK + "deco", "", "formatting setter")
rule(f, "Value", "", "decor", R, "C08 fragments", "Model/Tree.v value decor", "")
rule(f, "Value", "", "span", R, "C14 spans harness", "", "")
rule(f, "Value", "FromStr", "from_str", M, "C06:val (read back), C01/C02 value front end", "Model/Parse.v value parser (C01front2 / C02front2)", "")
rule(f, "Value", "From", "from", M, "C06:build value scripts (str, i64, f64, bool, Datetime, Date, Time, Array, InlineTable), C08:ins payloads", "Model/Build.v value_from",
     "From<&Value>, From<&String> / From<String> / From<InternalString> / From<&InternalString>: C16:doc payload Y (all must build the same string value)")
rule(f, "Value", "FromIterator", "from_iter", M, "C08:ins payload A / M (Array::from_iter / InlineTable::from_iter wrapped)", "Model/Build.v array_from_iter / inline_from_iter",
     "Value::from_iter itself = Value::Array(Array::from_iter(..)) / Value::InlineTable(..): wrapper")
rule(f, "Value", "Display", "fmt", M, "C06:val", "Model/Encode.v encode_value", "")

# ------------------------------------------------------------------------------------------------ toml_edit::Key / KeyMut
f = E + "key.rs"
rule(f, "Key", "", "new", M, "C06:key, C06:build, C16:table/insf", "Model/Build.v key_new", "")
rule(f, "Key", "", "parse", H, DOCK + "insk", "", "the key parser itself: C01/C02 (Model/Parse.v key)")
rule(f, "Key", "", "with_leaf_decor with_dotted_decor", H, DOCK + "insk", "", "formatting setters")
rule(f, "Key", "", "with_decor", N, "", "", "deprecated alias of with_leaf_decor")
rule(f, "Key", "", "as_mut", R, "", "", "wraps &mut Key into KeyMut (what iter_mut / key_mut hand out: C16:table/iterm)")
rule(f, "Key", "", "get as_repr default_repr display_repr decor leaf_decor dotted_decor", R, "C08 fragments (key spelling and decor of every entry), C06:key", "Model/Tree.v key fields; Model/Write.v key_repr", "")
rule(f, "Key", "", "leaf_decor_mut dotted_decor_mut", H, DOCK + "insk", "", "formatting setters on an owned Key")
rule(f, "Key", "", "decor_mut", N, "", "", "deprecated alias of leaf_decor_mut")
rule(f, "Key", "", "span", R, "C14 spans harness", "", "")
rule(f, "Key", "", "fmt", H, DOCK + "insk (variant f)", "", "back to the default spelling")
rule(f, "Key", "Display", "fmt", M, "C06:key", "Model/Write.v key_repr (C10)", "")
rule(f, "Key", "FromStr", "from_str", M, "C06:key", "Model/Parse.v simple key", "")
rule(f, "Key", "From", "from", M, "C16:table/ext|from (From<String>), C16:doc payload T1 (every From impl of Key must name the same key)", "Model/Build.v key_new", "Key::new")
rule(f, "InternalString", "From", "from", N, "", "", "internal type (not exported)")
rule(f, "KeyMut", "", "get as_repr default_repr display_repr decor leaf_decor dotted_decor", R, "C16:table/iterm|gkvm (get), C16:doc/kfmt (display_repr, default_repr)", "", "")
rule(f, "KeyMut", "", "leaf_decor_mut dotted_decor_mut", H, DOCK + "kpre", "", "formatting setters (dotted decor: written back unchanged)")
rule(f, "KeyMut", "", "decor_mut", N, "", "", "deprecated alias of leaf_decor_mut")
rule(f, "KeyMut", "", "fmt", H, DOCK + "kfmt", "", "")
rule(f, "KeyMut", "Display", "fmt", H, DOCK + "kfmt", "", "Display of the wrapped key")

# ------------------------------------------------------------------------------------------------ documents
f = E + "document.rs"
rule(f, "ImDocument", "", "parse", M, "C01 / C03 / C14 (core harness: doc, rt, spans)", "Model/Parse.v parse_document", "")
rule(f, "ImDocument", "", "new", N, "", "", "empty span-keeping document: nothing to observe")
rule(f, "ImDocument", "", "as_item as_table iter trailing raw", R, "C14 spans harness, C04 fuzz walk", "Model/Document.v doc_root / doc_trailing", "")
rule(f, "ImDocument", "", "into_mut", M, "C03 (print_doc), C14", "Model/Encode.v tbl_despan (C03 / C14spans)", "")
rule(f, "ImDocument", "FromStr", "from_str", M, "C01", "Model/Parse.v parse_document", "")
rule(f, "DocumentMut", "", "new", M, "C06:build mode n", "Model/Build.v doc_root_new", "")
rule(f, "DocumentMut", "", "as_item as_table iter trailing", R, "every harness dump", "Model/Document.v", "")
rule(f, "DocumentMut", "", "as_table_mut", M, "C06:build, C08 (root of every path)", "Model/Edit.v apply", "")
rule(f, "DocumentMut", "", "as_item_mut", H, DOCK + "root, path walk", "", "replacing the root by a non-table: to_string() panics (class C16-root-not-a-table-print-panics)")
rule(f, "DocumentMut", "", "set_trailing", H, DOCK + "trail", "", "formatting setter")
rule(f, "DocumentMut", "FromStr", "from_str", M, "C01, C08 (every case)", "Model/Parse.v parse_document + tbl_despan", "")
rule(f, "DocumentMut", "From", "from", M, "C06:build mode f", "Model/Build.v eval_doc", "")

f = E + "index.rs"
rule(f, "trait Index", "Index", "*", R, "", "", "sealed trait: see the impls")
rule(f, "usize", "Index", "*", M, "C16:array/idx|iget|iset, C16:aot/idx|iget|iset, C08 paths", VSTEP + "; Model/Edit.v at_path (SIdx)", "")
rule(f, "str", "Index", "*", M, "C16:table/idx|idxm|iset, C16:inline/idxm|iset, C08:iset", TSTEP + "; Model/Edit.v iset", "auto-vivification of index_mut included")
rule(f, "String", "Index", "*", N, "", "", "delegates to the impl for str")
rule(f, "&T", "Index", "*", M, "every `item[\"k\"]` of the harnesses (I = &str)", TSTEP, "delegates to the impl for T")
rule(f, "Item", "Index", "index", M, "C16:array/idx, C16:aot/idx", VSTEP, "")
rule(f, "Item", "IndexMut", "index_mut", M, "C16:inline/idxm|iset|ioi, C16:inline_tl/idxm|iset|ioi, C16:array/iset, C16:aot/iset, C08:iset", TSTEP + "; Model/Edit.v iset", "")
rule(f, "Table", "Index", "index", M, "C16:table/idx", TSTEP, "")
rule(f, "Table", "IndexMut", "index_mut", M, "C16:table/idxm|iset|ioi", TSTEP, "")
rule(f, "InlineTable", "Index", "index", M, "C16:inline/idx", TSTEP, "")
rule(f, "InlineTable", "IndexMut", "index_mut", H, "C16:inline/idxmi", "", "panics on a missing key (documented); the Item-level IndexMut is the modelled route")
rule(f, "DocumentMut", "Index", "index", N, "", "", "delegates to Table's Index on the root (covered there)")
rule(f, "DocumentMut", "IndexMut", "index_mut", M, "C08:iset (doc[k1][k2].. = x)", "Model/Edit.v iset", "")

f = E + "repr.rs"
rule(f, "Formatted", "", "new", M, "every Value::from of a scalar (C06:build, C08:ins)", "Model/Build.v value_from", "")
rule(f, "Formatted", "", "value as_repr default_repr display_repr decor", R, "harness dumps (value), C08 fragments (as_repr, decor), C16:doc/vfmt (display_repr)", "Model/Tree.v VScalar fields; Model/Write.v", "")
rule(f, "Formatted", "", "into_value", N, "", "", "consumes the wrapper and returns the payload: nothing to print")
rule(f, "Formatted", "", "span", R, "C14 spans harness", "", "")
rule(f, "Formatted", "", "decor_mut", H, DOCK + "dec|dclr (through Value::decor_mut)", "", "formatting setter")
rule(f, "Formatted", "", "fmt", H, DOCK + "vfmt", "", "back to the default spelling")
rule(f, "Formatted", "Display", "fmt", M, "C06:val, C10 / C11 (strings, numbers)", "Model/Encode.v encode_value", "")
rule(f, "Repr", "", "as_raw span", R, "C08 fragments, C14", "", "")
rule(f, "Decor", "", "new clear set_prefix set_suffix", H, DOCK + "dec|dclr|kpre|kdecm|insk", "", "formatting setters (texts handed in must be white space / comments: not validated by the API)")
rule(f, "Decor", "", "prefix suffix", R, "C08 fragments, C16:doc/kdec", "Model/Tree.v decor", "")

# ------------------------------------------------------------------------------------------------ toml::map::Map
f = T + "map.rs"
rule(f, "Map", "", "new", M, "C16:map_sorted, C16:map_ordered", PSTEP, "")
rule(f, "Map", "", "with_capacity", H, "C16:map_*/cap", "", "both cfg variants (the harness is built once per configuration)")
rule(f, "Map", "", "clear get contains_key get_mut get_key_value insert remove retain entry len is_empty iter iter_mut keys values", M,
     "C16:map_sorted|map_ordered/<clr get ck getm gkv ins rm ret ent|eoi|eins|erm len emp iter iterm keys vals>", PSTEP, "both configurations (BTreeMap / IndexMap)")
rule(f, "Map", "Index", "index", M, "C16:map_*/idx", PSTEP, "")
rule(f, "Map", "IndexMut", "index_mut", M, "C16:map_*/idxm|iset", PSTEP, "")
rule(f, "Map", "FromIterator", "from_iter", M, "C16:map_*/from", PSTEP, "")
rule(f, "Map", "Extend", "extend", M, "C16:map_*/ext", PSTEP, "")
rule(f, "Map", "IntoIterator", "into_iter", M, "C16:map_*/into", PSTEP, "")
rule(f, "&Map", "IntoIterator", "into_iter", H, "C16:map_*/intor", "", "")
rule(f, "&mut Map", "IntoIterator", "into_iter", H, "C16:map_*/intom", "", "")
rule(f, "Entry", "", "or_insert", M, "C16:map_*/eoi", PSTEP, "")
rule(f, "Entry", "", "key or_insert_with", H, "C16:map_*/ekey|eoiw", "", "")
rule(f, "VacantEntry", "", "insert", M, "C16:map_*/eins", PSTEP, "")
rule(f, "VacantEntry", "", "key", H, "C16:map_*/emut", "", "")
rule(f, "OccupiedEntry", "", "get insert remove", M, "C16:map_*/ent|eins|erm", PSTEP, "")
rule(f, "OccupiedEntry", "", "key get_mut into_mut", H, "C16:map_*/emut", "", "")

f = T + "table.rs"
rule(f, "Table", "", "try_from try_into", H, "C13:tryfrom, C13 routes (serde harness)", "Model/SerdeRoutes.v (C13)", "serde routes: judged by C13, not by the container properties")
rule(f, "Table", "Display", "fmt", M, "C06:toml T (td)", "Model/TomlDisplay.v (C06toml)", "")
rule(f, "Table", "FromStr", "from_str", M, "C06:toml T (td read back)", "Model/FrontEnds.v (C01front2)", "")

f = T + "value.rs"
rule(f, "Value", "", "try_from try_into", H, "C13:tryfrom, C13 routes (serde harness)", "Model/SerdeRoutes.v (C13)", "serde routes: judged by C13")
rule(f, "Value", "", "get as_table", R, "C16:map_*/vget, C06:toml X", "", "projection")
rule(f, "Value", "", "get_mut as_table_mut", H, "C16:map_*/vset", "", "projection to &mut")
rule(f, "Value", "", "as_integer is_integer as_float is_float as_bool is_bool as_str is_str as_datetime is_datetime as_array is_array is_table", R,
     "harness dumps of toml::Value (harness/src/tree.rs erased_toml, bin/c16.rs show_tvalue / pred_tvalue)", "", "projection only")
rule(f, "Value", "", "as_array_mut", H, "C16:map_*/varr", "", "projection to &mut Vec<Value>")
rule(f, "Value", "", "same_type type_str", N, "", "", "read-only, not printed by any harness")
rule(f, "Value", "Index", "index", R, "C16:map_*/vset|varr (reads the assigned entry back), C06:toml X", "", "")
rule(f, "Value", "IndexMut", "index_mut", H, "C16:map_*/vset|varr", "", "`value[\"k\"] = x` / `value[0] = x` on an existing entry (a missing one panics: documented)")
rule(f, "Value", "From", "from", H, "C16:map_* payloads (From<i64>, From<BTreeMap>, From<Vec>), C16:map_*/vget (From<&str>, From<HashMap>)", "", "the other instances of the `impl_into_value!` macro (one scanner entry `From<$T>`: i8..u32, f32, f64, bool, Datetime, String, Map): same one-line wrappers, only i64 called")
rule(f, "trait Index", "Index", "*", R, "", "", "sealed trait: see the impls")
rule(f, "usize", "Index", "*", H, "C16:map_*/varr", "", "toml::Value array index")
rule(f, "str", "Index", "index", R, "C16:map_*/vget|vset", "", "")
rule(f, "str", "Index", "index_mut", H, "C16:map_*/vset", "", "")
rule(f, "String", "Index", "*", N, "", "", "delegates to the impl for str")
rule(f, "&T", "Index", "*", R, "C16:map_*/vget|vset (I = &str)", "", "delegates to the impl for T")
rule(f, "Value", "Display", "fmt", M, "C06:toml V (vd)", "Model/TomlDisplay.v (C06toml)", "")
rule(f, "Value", "FromStr", "from_str", M, "C06:toml (read back), C13", "Model/FrontEnds.v", "")


def trait_base(tr):
    return tr.split("<")[0].split("::")[-1] if tr else ""


def annotate(e):
    """-> dict(ops, model, class, note) or None"""
    k = (e["file"], e["target"], trait_base(e["trait"]))
    r = RULES.get(k + (e["name"],)) or RULES.get(k + ("*",))
    if r is None:
        return None
    cls, ops, model, note = r
    if cls == N and not note:
        note = "gap"
    if not note:
        note = {M: "model and implementation compared on every case line", H: "judged by the python reference / round-trip oracle only",
                R: "plain getter"}[cls]
    return {"class": cls, "ops": ops, "model": model, "note": note}
