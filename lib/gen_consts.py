#!/usr/bin/env python3
"""gen_consts.py — translate the constants and tables of the Rust sources into Gallina.

Reads /repo's *current working tree* and writes coq/Gen/Consts.v.  Every item is located
by a narrow pattern; an item that cannot be found (renamed, restructured) raises
ConstsError, which the check reports as a broken tie.  The translator is part of the
trusted base (DESIGN.md section 8).
"""
import os, re, sys

REPO = os.environ.get("VERIF_REPO", "/repo")


class ConstsError(Exception):
    pass


def read(rel):
    with open(os.path.join(REPO, rel), encoding="utf-8") as f:
        return f.read()


def strip_comments(src):
    """remove `// ...` and `/* ... */` comments wherever they stand (also after code on the same line and inside a
    multi-line constant), keeping line breaks; string, byte-string, raw-string and char literals are skipped over,
    a `'` that starts a lifetime is not taken for a char literal"""
    out = []
    i, n = 0, len(src)
    while i < n:
        c = src[i]
        if src.startswith("//", i):
            j = src.find("\n", i)
            i = n if j < 0 else j
        elif src.startswith("/*", i):
            depth, j = 1, i + 2
            while j < n and depth:
                if src.startswith("/*", j):
                    depth += 1; j += 2
                elif src.startswith("*/", j):
                    depth -= 1; j += 2
                else:
                    j += 1
            out.append(" " + "\n" * src.count("\n", i, j))
            i = j
        elif c == '"' or (c in "br" and re.match(r'b?r#*"|b"', src[i:i + 8])):
            m = re.match(r'b?r(#*)"', src[i:i + 40])
            if m:                                   # raw string: ends at `"` followed by the same number of #
                end = src.find('"' + m.group(1), i + len(m.group(0)))
                j = n if end < 0 else end + 1 + len(m.group(1))
            else:
                j = i + (2 if c == "b" else 1)
                while j < n and src[j] != '"':
                    j += 2 if src[j] == "\\" else 1
                j += 1
            out.append(src[i:j]); i = j
        elif c == "'":
            m = re.match(r"'(?:\\x[0-9a-fA-F]{2}|\\u\{[0-9a-fA-F_]+\}|\\.|[^'\\\n])'", src[i:i + 16])
            if m:
                out.append(m.group(0)); i += len(m.group(0))
            else:                                   # a lifetime / loop label
                out.append(c); i += 1
        else:
            out.append(c); i += 1
    return "".join(out)


def flex(pattern):
    """a pattern written with single spaces, made indifferent to layout: a space between two word characters
    stands for `\\s+`, any other space for `\\s*` (values, operators and their order are matched literally)"""
    out = []
    for i, ch in enumerate(pattern):
        if ch != " ":
            out.append(ch); continue
        a = pattern[i - 1] if i else ""
        b = pattern[i + 1] if i + 1 < len(pattern) else ""
        out.append(r"\s+" if (a.isalnum() or a == "_") and (b.isalnum() or b == "_") else r"\s*")
    return "".join(out)


# ---- tiny evaluator for constant expressions -------------------------------------------
TOK = re.compile(r"""
    (?P<bstr>b"(?:\\.|[^"\\])*") |
    (?P<str>"(?:\\.|[^"\\])*") |
    (?P<bchar>b'(?:\\x[0-9a-fA-F]{2}|\\.|[^'\\])') |
    (?P<char>'(?:\\x[0-9a-fA-F]{2}|\\u\{[0-9a-fA-F]+\}|\\.|[^'\\])') |
    (?P<num>0x[0-9a-fA-F_]+|[0-9][0-9_]*) |
    (?P<rng>\.\.=) |
    (?P<id>[A-Za-z_][A-Za-z0-9_:]*) |
    (?P<p>[()\[\],&*-])
""", re.X)

ESC = {"n": 10, "r": 13, "t": 9, "\\": 92, "'": 39, '"': 34, "0": 0}


def unescape_bytes(body):
    out = []
    i = 0
    while i < len(body):
        c = body[i]
        if c == "\\":
            n = body[i + 1]
            if n == "x":
                out.append(int(body[i + 2:i + 4], 16)); i += 4
            elif n == "u":
                j = body.index("}", i)
                out.extend(chr(int(body[i + 3:j], 16)).encode("utf-8")); i = j + 1
            elif n in ESC:
                out.append(ESC[n]); i += 2
            else:
                raise ConstsError("unknown escape \\%s" % n)
        else:
            out.extend(c.encode("utf-8")); i += 1
    return out


def tokenize(s):
    toks = []
    i = 0
    while i < len(s):
        if s[i].isspace():
            i += 1; continue
        m = TOK.match(s, i)
        if not m:
            raise ConstsError("cannot tokenize constant expression at: %r" % s[i:i + 30])
        toks.append((m.lastgroup, m.group(0)))
        i = m.end()
    return toks


class Eval:
    """values: ('n', int) | ('cls', [(lo,hi)...]) | ('bytes', [int...]) | ('tuple', [values])"""

    def __init__(self, env):
        self.env = env

    def parse(self, s):
        self.t = tokenize(s); self.i = 0
        v = self.expr()
        if self.i != len(self.t):
            raise ConstsError("trailing tokens in constant expression %r" % s)
        return v

    def peek(self):
        return self.t[self.i] if self.i < len(self.t) else (None, None)

    def take(self):
        x = self.t[self.i]; self.i += 1; return x

    def atom(self):
        k, v = self.take()
        if k == "p" and v == "&":
            return self.atom()
        if k == "p" and v == "-":
            a = self.atom()
            return ("n", -a[1])
        if k == "bchar":
            b = unescape_bytes(v[2:-1]); return ("n", b[0])
        if k == "char":
            b = unescape_bytes(v[1:-1]); return ("n", int.from_bytes(bytes(b), "big") if len(b) == 1 else ord(bytes(b).decode()))
        if k == "num":
            return ("n", int(v.replace("_", ""), 0))
        if k == "bstr":
            return ("bytes", unescape_bytes(v[2:-1]))
        if k == "str":
            return ("bytes", unescape_bytes(v[1:-1]))
        if k == "id":
            name = v.split("::")[-1]
            if name not in self.env:
                raise ConstsError("unknown identifier %s in constant expression" % v)
            return self.env[name]
        if k == "p" and v in "([":
            close = ")" if v == "(" else "]"
            items = []
            while self.peek()[1] != close:
                items.append(self.expr())
                if self.peek()[1] == ",":
                    self.take()
            self.take()
            if v == "(" and len(items) == 1:
                return items[0]
            return ("tuple", items)
        raise ConstsError("unexpected token %r" % v)

    def expr(self):
        a = self.atom()
        while self.peek()[1] == "*":
            self.take(); b = self.atom(); a = ("n", a[1] * b[1])
        if self.peek()[0] == "rng":
            self.take()
            b = self.atom()
            while self.peek()[1] == "*":
                self.take(); c = self.atom(); b = ("n", b[1] * c[1])
            return ("cls", [(a[1], b[1])])
        return a


def as_class(v):
    if v[0] == "n":
        return [(v[1], v[1])]
    if v[0] == "cls":
        return list(v[1])
    if v[0] == "tuple":
        out = []
        for x in v[1]:
            out.extend(as_class(x))
        return out
    raise ConstsError("not a byte class: %r" % (v,))


def find_const(src, name, what):
    m = re.search(r'(?:pub(?:\(crate\))?\s+)?(?:const|static)\s+%s\s*:\s*[^=;]*?=\s*(.*?);' % re.escape(name), src, re.S)
    if not m:
        raise ConstsError("constant %s not found in %s" % (name, what))
    return m.group(1)


def fn_body(src, name, what):
    m = re.search(r'fn\s+%s\s*(?:<[^>]*>)?\s*\(' % re.escape(name), src)
    if not m:
        raise ConstsError("function %s not found in %s" % (name, what))
    i = src.index("{", m.end())
    depth = 0
    j = i
    while j < len(src):
        c = src[j]
        if c == "{":
            depth += 1
        elif c == "}":
            depth -= 1
            if depth == 0:
                return src[i:j + 1]
        j += 1
    raise ConstsError("unbalanced braces in fn %s of %s" % (name, what))


def need(pattern, src, what, flags=re.S):
    """search `pattern` (written with single spaces, see flex) in `src`"""
    m = re.search(flex(pattern), src, flags)
    if not m:
        raise ConstsError("pattern for %s not found" % what)
    return m


# ---- Gallina printers ---------------------------------------------------------------
def g_n(n):
    return "%d%%N" % n


def g_z(n):
    return "(%d)%%Z" % n


def g_class(c):
    return "[" + "; ".join("(%d, %d)" % p for p in c) + "]%N"


def g_byte(n):
    return "x%02x" % n


def g_bytes(bs):
    return "[" + "; ".join(g_byte(b) for b in bs) + "]"


def generate():
    defs = []   # (name, type, body, origin)

    def D(name, ty, body, origin):
        defs.append((name, ty, body, origin))

    P = "crates/toml_edit/src/parser/"
    env = {"u8": None}

    # ---- trivia.rs
    s = strip_comments(read(P + "trivia.rs")); what = P + "trivia.rs"
    ev = Eval(env)
    for nm in ["WSCHAR", "NON_ASCII", "NON_EOL"]:
        env[nm] = ev.parse(find_const(s, nm, what))
        D(nm, "bclass", g_class(as_class(env[nm])), what)
    for nm in ["COMMENT_START_SYMBOL", "LF", "CR"]:
        env[nm] = ev.parse(find_const(s, nm, what))
        D(nm, "byte", g_byte(env[nm][1]), what)

    # ---- numbers.rs
    s = strip_comments(read(P + "numbers.rs")); what = P + "numbers.rs"
    nenv = dict(env); ev = Eval(nenv)
    for nm in ["DIGIT", "DIGIT1_9", "DIGIT0_7", "DIGIT0_1", "HEXDIG"]:
        nenv[nm] = ev.parse(find_const(s, nm, what))
        D(nm, "bclass", g_class(as_class(nenv[nm])), what)
    for nm in ["TRUE", "FALSE", "HEX_PREFIX", "OCT_PREFIX", "BIN_PREFIX", "INF", "NAN"]:
        v = ev.parse(find_const(s, nm, what))
        D(nm, "bytes", g_bytes(v[1]), what)
    env["HEXDIG"] = nenv["HEXDIG"]
    # float overflow guard: which infinities are refused after parsing a decimal float
    fb = fn_body(s, "float", what)
    m = need(r'\.verify\( \|f: &f64\| (.*?)\) ,', fb, "float verify closure")
    guard = re.sub(r'\s+', ' ', m.group(1).strip())
    if guard == "*f != f64::INFINITY":
        D("FLOAT_REJECT_POS_INF", "bool", "true", what); D("FLOAT_REJECT_NEG_INF", "bool", "false", what)
    elif guard in ("f.is_finite()", "!f.is_infinite()", "*f != f64::INFINITY && *f != f64::NEG_INFINITY",
                   "f.is_finite() || f.is_nan()"):
        D("FLOAT_REJECT_POS_INF", "bool", "true", what); D("FLOAT_REJECT_NEG_INF", "bool", "true", what)
    elif guard == "*f != f64::NEG_INFINITY":
        D("FLOAT_REJECT_POS_INF", "bool", "false", what); D("FLOAT_REJECT_NEG_INF", "bool", "true", what)
    else:
        raise ConstsError("float overflow guard not recognised: %r" % guard)

    # ---- strings.rs
    s = strip_comments(read(P + "strings.rs")); what = P + "strings.rs"
    ev = Eval(env)
    for nm in ["QUOTATION_MARK", "ESCAPE", "APOSTROPHE"]:
        env[nm] = ev.parse(find_const(s, nm, what))
        D(nm, "byte", g_byte(env[nm][1]), what)
    for nm in ["BASIC_UNESCAPED", "MLB_UNESCAPED", "LITERAL_CHAR", "MLL_CHAR"]:
        env[nm] = ev.parse(find_const(s, nm, what))
        D(nm, "bclass", g_class(as_class(env[nm])), what)
    for nm in ["ML_BASIC_STRING_DELIM", "ML_LITERAL_STRING_DELIM"]:
        v = ev.parse(find_const(s, nm, what))
        D(nm, "bytes", g_bytes(v[1]), what)
    # escape_seq_char arms: b'x' => empty.value('y') ; b'u' => hexescape::<4> ; b'U' => hexescape::<8>
    fb = fn_body(s, "escape_seq_char", what)
    simple = []
    for m in re.finditer(r"(b'(?:\\.|[^'\\])')\s*=>\s*empty\s*\.value\(\s*('(?:\\u\{[0-9a-fA-F]+\}|\\.|[^'\\])')\s*\)", fb):
        k = ev.parse(m.group(1))[1]
        v = ev.parse(m.group(2))[1]
        simple.append((k, v))
    if not simple:
        raise ConstsError("escape_seq_char: no simple escape arms found")
    hexes = []
    for m in re.finditer(r"(b'(?:\\.|[^'\\])')\s*=>\s*cut_err\(\s*hexescape::<\s*(\d+)\s*>\s*\)", fb):
        hexes.append((ev.parse(m.group(1))[1], int(m.group(2))))
    if not hexes:
        raise ConstsError("escape_seq_char: no hexescape arms found")
    arms = len(re.findall(r"=>", fb))
    if arms != len(simple) + len(hexes) + 1:
        raise ConstsError("escape_seq_char: %d arms, recognised %d" % (arms, len(simple) + len(hexes) + 1))
    D("ESCAPE_SIMPLE", "list (byte * N)", "[" + "; ".join("(%s, %s)" % (g_byte(k), g_n(v)) for k, v in simple) + "]", what)
    D("ESCAPE_HEX", "list (byte * nat)", "[" + "; ".join("(%s, %d)" % (g_byte(k), n) for k, n in hexes) + "]", what)

    # ---- key.rs
    s = strip_comments(read(P + "key.rs")); what = P + "key.rs"
    v = ev.parse(find_const(s, "UNQUOTED_CHAR", what)); D("UNQUOTED_CHAR", "bclass", g_class(as_class(v)), what)
    v = ev.parse(find_const(s, "DOT_SEP", what)); D("DOT_SEP", "byte", g_byte(v[1]), what)

    # ---- array.rs, inline_table.rs, table.rs
    for f, names in [("array.rs", ["ARRAY_OPEN", "ARRAY_CLOSE", "ARRAY_SEP"]),
                     ("inline_table.rs", ["INLINE_TABLE_OPEN", "INLINE_TABLE_CLOSE", "INLINE_TABLE_SEP", "KEYVAL_SEP"]),
                     ("table.rs", ["STD_TABLE_OPEN", "STD_TABLE_CLOSE"])]:
        s = strip_comments(read(P + f)); what = P + f
        for nm in names:
            v = ev.parse(find_const(s, nm, what)); D(nm, "byte", g_byte(v[1]), what)
    s = strip_comments(read(P + "table.rs")); what = P + "table.rs"
    for nm in ["ARRAY_TABLE_OPEN", "ARRAY_TABLE_CLOSE"]:
        v = ev.parse(find_const(s, nm, what)); D(nm, "bytes", g_bytes(v[1]), what)

    # ---- value.rs dispatch sets
    s = strip_comments(read(P + "value.rs")); what = P + "value.rs"
    m = need(r"((?:b'(?:\\.|[^'\\])'(?:\s*\.\.=\s*b'(?:\\.|[^'\\])')?\s*\|?\s*)+)=>\s*\{\s*alt\(\s*\(\s*date_time\b", fn_body(s, "value", what),
             "value dispatch number arm")
    cls = []
    for part in m.group(1).split("|"):
        part = part.strip()
        if part:
            cls.extend(as_class(ev.parse(part)))
    D("VALUE_NUMBER_START", "bclass", g_class(cls), what)

    # ---- mod.rs
    s = strip_comments(read(P + "mod.rs")); what = P + "mod.rs"
    v = ev.parse(find_const(s, "LIMIT", what)); D("LIMIT", "nat", "%d" % v[1], what)
    en = fn_body(s, "enter", what)
    need(r"self\.current \+= 1 ; if LIMIT <= self\.current", en, "RecursionCheck::enter shape")
    cd = fn_body(s, "check_depth", what)
    need(r"if LIMIT <= _depth", cd, "RecursionCheck::check_depth shape")

    # ---- datetime.rs (document grammar)
    s = strip_comments(read(P + "datetime.rs")); what = P + "datetime.rs"
    denv = dict(env); ev2 = Eval(denv)
    v = ev2.parse(find_const(s, "TIME_DELIM", what)); D("TIME_DELIM", "bclass", g_class(as_class(v)), what)
    v = ev2.parse(find_const(s, "DIGIT", what)); D("DT_DIGIT", "bclass", g_class(as_class(v)), what)
    for fn, nm in [("date_month", "MONTH"), ("date_mday", "MDAY"), ("time_hour", "HOUR"),
                   ("time_minute", "MINUTE"), ("time_second", "SECOND")]:
        fb = fn_body(s, fn, what)
        m = need(r"unsigned_digits::< (\d+) , (\d+) >", fb, fn + " digits")
        if (m.group(1), m.group(2)) != ("2", "2"):
            raise ConstsError("%s no longer reads exactly 2 digits" % fn)
        m = need(r"\( (\d+) \.\.= (\d+) \) \.contains\( &d \)", fb, fn + " range")
        D("DT_%s_MIN" % nm, "N", g_n(int(m.group(1))), what)
        D("DT_%s_MAX" % nm, "N", g_n(int(m.group(2))), what)
    fb = fn_body(s, "date_fullyear", what)
    m = need(r"unsigned_digits::< (\d+) , (\d+) >", fb, "date_fullyear digits")
    if (m.group(1), m.group(2)) != ("4", "4"):
        raise ConstsError("date_fullyear no longer reads exactly 4 digits")
    fb = fn_body(s, "full_date_", what)
    D("DT_MAXDAYS", "list (N * bool * N)", parse_maxdays(fb, "month"), what)
    need_leap_rule(s, fb, "full_date_ leap rule", what)
    need(r"if max_days_in_month < day \{", fb, "full_date_ day check")
    fb = fn_body(s, "time_offset", what)
    m = need(r"\.verify\( \|minutes\| \( \( (-?\d+) \* (\d+) \) \.\.= \( (\d+) \* (\d+) \) \) \.contains\( minutes \) \)", fb, "time_offset range")
    D("DT_OFFSET_MIN", "Z", g_z(int(m.group(1)) * int(m.group(2))), what)
    D("DT_OFFSET_MAX", "Z", g_z(int(m.group(3)) * int(m.group(4))), what)
    need(r"one_of\( \( b'Z' , b'z' \) \) \.value\( Offset::Z \)", fb, "time_offset Z arm")
    need(r"one_of\( \( b'\+' , b'-' \) \)", fb, "time_offset sign")
    fb = fn_body(s, "time_secfrac", what)
    msc = need(r"static SCALE : \[ u32 ; (\d+) \] = \[(.*?)\] ;", fb, "SCALE")
    sc = ev2.parse("[" + msc.group(2) + "]")
    if len(sc[1]) != int(msc.group(1)):
        raise ConstsError("SCALE: declared length %s, %d elements read" % (msc.group(1), len(sc[1])))
    D("DT_SCALE", "list N", "[" + "; ".join(g_n(x[1]) for x in sc[1]) + "]", what)

    # ---- toml_datetime FromStr
    what = "crates/toml_datetime/src/datetime.rs"
    s = strip_comments(read(what))
    i0 = s.index("impl FromStr for Datetime")
    fb = fn_body(s[i0:], "from_str", what)
    D("SD_MIN_LEN", "nat", need(r"if date\.len\(\) < (\d+) \{", fb, "from_str min len").group(1), what)
    m = need(r"if date\.month < (\d+) \|\| date\.month > (\d+) \{", fb, "from_str month check")
    D("SD_MONTH_MIN", "N", g_n(int(m.group(1))), what); D("SD_MONTH_MAX", "N", g_n(int(m.group(2))), what)
    m = need(r"if date\.day < (\d+) \|\| date\.day > max_days_in_month \{", fb, "from_str day check")
    D("SD_DAY_MIN", "N", g_n(int(m.group(1))), what)
    D("SD_MAXDAYS", "list (N * bool * N)", parse_maxdays(fb, "date.month"), what)
    need_leap_rule(s, fb, "from_str leap rule", what)
    for fld, nm in [("hour", "HOUR"), ("minute", "MINUTE"), ("second", "SECOND"), ("nanosecond", "NANO")]:
        m = need(r"if time\.%s > ([\d_]+) \{" % fld, fb, "from_str %s check" % fld)
        D("SD_%s_MAX" % nm, "N", g_n(int(m.group(1).replace("_", ""))), what)
    m = re.search(flex(r"if !\( \( (-?\d+) \* (\d+) \) \.\.= \( (\d+) \* (\d+) \) \) \.contains\( &total_minutes \) \{"), fb)
    if m:
        D("SD_OFFSET_MIN", "Z", g_z(int(m.group(1)) * int(m.group(2))), what)
        D("SD_OFFSET_MAX", "Z", g_z(int(m.group(3)) * int(m.group(4))), what)
    else:
        raise ConstsError("from_str offset total-minutes check not found")
    # optional per-field offset checks (absent in the pinned tree; present after the repair)
    m = re.search(flex(r"if hours > (\d+) \|\| minutes > (\d+) \{"), fb)
    if m:
        D("SD_OFFSET_HOUR_MAX", "N", g_n(int(m.group(1))), what); D("SD_OFFSET_MINUTE_MAX", "N", g_n(int(m.group(2))), what)
    else:
        D("SD_OFFSET_HOUR_MAX", "N", g_n(99), what); D("SD_OFFSET_MINUTE_MAX", "N", g_n(99), what)
    m = need(r"if i (<=?) (\d+) \{ let p = 10_u32 \.pow\( (\d+) - i as u32 \) ;", fb, "from_str fraction scaling")
    D("SD_FRAC_DIGITS", "nat", str(int(m.group(2)) + (1 if m.group(1) == "<=" else 0)), what)
    D("SD_FRAC_TOP_EXP", "nat", m.group(3), what)
    need(r"if chars \.clone\(\) \.nth\( 2 \) == Some\( ':' \)", fb, "from_str time-only test")
    need(r"next == Some\('T'\) \|\| next == Some\('t'\) \|\| next == Some\('[ ]'\)", fb, "from_str delimiter test")
    need(r"next == Some\('Z'\) \|\| next == Some\('z'\)", fb, "from_str Z test")

    # ---- default decor (free formatting constants)
    for f, names in [("crates/toml_edit/src/table.rs", ["DEFAULT_ROOT_DECOR", "DEFAULT_KEY_DECOR", "DEFAULT_TABLE_DECOR", "DEFAULT_KEY_PATH_DECOR"]),
                     ("crates/toml_edit/src/value.rs", ["DEFAULT_VALUE_DECOR", "DEFAULT_TRAILING_VALUE_DECOR", "DEFAULT_LEADING_VALUE_DECOR"]),
                     ("crates/toml_edit/src/inline_table.rs", ["DEFAULT_INLINE_KEY_DECOR"])]:
        s = strip_comments(read(f))
        for nm in names:
            v = ev.parse(find_const(s, nm, f))
            D(nm, "bytes * bytes", "(%s, %s)" % (g_bytes(v[1][0][1]), g_bytes(v[1][1][1])), f)

    # ---- toml_datetime tunnel names
    what = "crates/toml_datetime/src/datetime.rs"
    s = strip_comments(read(what))
    for nm in ["FIELD", "NAME"]:
        v = ev.parse(find_const(s, nm, what)); D("DATETIME_" + nm, "bytes", g_bytes(v[1]), what)

    return defs


def need_leap_rule(src, fb, what, origin):
    """the Gregorian rule `(y % 4 == 0) && ((y % 100 != 0) || (y % 400 == 0))` (y any place expression), either written in
    the function body `fb` as the value of `is_leap_year`, or in a helper function that `is_leap_year` is computed by and
    whose whole body it is"""
    rule = flex(r"\( ([\w.]+) % 4 == 0 \) && \( \( \1 % 100 != 0 \) \|\| \( \1 % 400 == 0 \) \)")
    if re.search(flex(r"let is_leap_year = ") + rule + r"\s*;", fb, re.S):
        return
    m = re.search(flex(r"let is_leap_year = (\w+)\( [\w.]+ \) ;"), fb, re.S)
    if m:
        hb = fn_body(src, m.group(1), origin)
        if re.fullmatch(r"\{\s*" + rule + r"\s*\}", hb, re.S):
            return
    raise ConstsError("pattern for %s not found" % what)


def parse_maxdays(fb, scrut):
    """`match month { 2 if is_leap_year => 29, 2 => 28, 4 | 6 | 9 | 11 => 30, _ => 31 }`
    -> list of (month, needs_leap, days) with month 0 = wildcard, in arm order."""
    m = need(r"let max_days_in_month = match %s \{(.*?)\} ;" % re.escape(scrut), fb, "max_days_in_month match")
    arms = []
    for arm in m.group(1).split(","):
        arm = arm.strip()
        if not arm:
            continue
        am = re.match(r"^(.*?)\s*=>\s*(\d+)$", arm, re.S)
        if not am:
            raise ConstsError("max_days arm not understood: %r" % arm)
        pat, days = am.group(1).strip(), int(am.group(2))
        leap = False
        gm = re.match(r"^(.*?)\s+if\s+is_leap_year$", pat, re.S)
        if gm:
            leap = True; pat = gm.group(1).strip()
        if pat == "_":
            arms.append((0, leap, days))
        else:
            for mm in pat.split("|"):
                arms.append((int(mm.strip()), leap, days))
    return "[" + "; ".join("(%s, %s, %s)" % (g_n(a), "true" if l else "false", g_n(d)) for a, l, d in arms) + "]"


HEADER = """(* GENERATED by lib/gen_consts.py from the Rust sources of /repo — do not edit.
   Regenerated on every run of ./check; the theorems are re-checked against it. *)
From TV Require Import Base.Prelude.
"""


def render(defs):
    out = [HEADER]
    for name, ty, body, origin in defs:
        out.append("(* %s *)" % origin)
        out.append("Definition %s : %s := %s." % (name, ty, body))
    return "\n".join(out) + "\n"


def write_if_changed(path, text):
    try:
        with open(path, encoding="utf-8") as f:
            if f.read() == text:
                return False
    except FileNotFoundError:
        pass
    os.makedirs(os.path.dirname(os.path.abspath(path)), exist_ok=True)   # coq/Gen/ holds only the generated file, so a clone lacks it
    tmp = path + ".tmp.%d" % os.getpid()
    with open(tmp, "w", encoding="utf-8") as f:
        f.write(text)
    os.replace(tmp, path)
    return True


def main():
    out = sys.argv[1] if len(sys.argv) > 1 else os.path.join(os.path.dirname(__file__), "..", "coq", "Gen", "Consts.v")
    try:
        text = render(generate())
    except ConstsError as e:
        print("CONSTS-ERROR: %s" % e)
        sys.exit(2)
    changed = write_if_changed(out, text)
    print("consts: %s (%s)" % (out, "rewritten" if changed else "unchanged"))


if __name__ == "__main__":
    main()
