#!/usr/bin/env python3
"""seed_replay_all.py — replay EVERY kept seeded change against the final checks on the current /repo HEAD, in a lab.

  seed_replay_all.py <lane> <n_lanes> [--only-caught]     e.g. three shells: `seed_replay_all.py 0 3`, `1 3`, `2 3` with VERIF_LAB=b1|b2|b3

For every /verif/seeded/<id>/ (sharded over lanes by index) the checks listed in meta.json `checks` that caught it before are run
again (lib/lab.py try); the outcome goes into meta.json `final_replay` = {property: {exit, caught, no_failing_input_found, line}}
together with the /repo commit and the /verif commit it was run on.  A change that no listed check catches any more is printed as
LOST (a regression of the machinery)."""
import json, os, re, subprocess, sys

VERIF = os.path.dirname(os.path.dirname(os.path.abspath(__file__)))
LAB = os.environ.get("VERIF_LAB", "main")


def sh(cmd, cwd=None):
    return subprocess.run(cmd, shell=True, cwd=cwd, stdout=subprocess.PIPE, stderr=subprocess.STDOUT, text=True).stdout


def main():
    lane, n = int(sys.argv[1]), int(sys.argv[2])
    ids = sorted(d for d in os.listdir(os.path.join(VERIF, "seeded")) if os.path.isdir(os.path.join(VERIF, "seeded", d)))
    repo_head = sh("git -C /repo rev-parse --short HEAD").strip()
    verif_head = sh("git -C %s rev-parse --short HEAD" % VERIF).strip()
    sh("python3 lib/lab.py sync %s" % LAB, cwd=VERIF)
    for i, sid in enumerate(ids):
        if i % n != lane:
            continue
        d = os.path.join(VERIF, "seeded", sid)
        meta = json.load(open(os.path.join(d, "meta.json")))
        props = [p for p, r in sorted(meta.get("checks", {}).items()) if r.get("caught")] or sorted(meta.get("checks", {}))
        if not props:
            print("SKIP %s (no checks recorded)" % sid); continue
        out = sh("python3 lib/lab.py try %s %s --name %s" % (os.path.join(d, "patch.diff"), " ".join(props), LAB), cwd=VERIF)
        res = {}
        for line in out.splitlines():
            m = re.match(r"(C\d\d) exit=(\d+) (.*)", line)
            if m:
                caught = m.group(2) == "1" and "VIOLATION" in m.group(3)
                segs = [s for s in m.group(3).split("|") if "VIOLATION" in s]
                res[m.group(1)] = {"exit": int(m.group(2)), "caught": caught,
                                   "no_failing_input_found": bool(segs) and all("no-failing-input-found" in s for s in segs),
                                   "line": m.group(3)[-300:]}
        if "patch does not apply" in out:
            res = {"error": "patch does not apply"}
        meta["final_replay"] = {"repo": repo_head, "verif": verif_head, "results": res}
        json.dump(meta, open(os.path.join(d, "meta.json"), "w"), indent=1)
        ok = any(r.get("caught") for r in res.values() if isinstance(r, dict))
        print("%s %s %s" % ("CAUGHT" if ok else "LOST  ", sid, " ".join("%s:%s%s" % (p, "caught" if r.get("caught") else "missed", "(nfi)" if r.get("no_failing_input_found") else "") for p, r in res.items() if isinstance(r, dict))))
        sys.stdout.flush()


if __name__ == "__main__":
    main()
