"""gen_toml.py — abstract-first generation of TOML documents.

A document is first drawn as a list of abstract statements
    ('kv', path, value) | ('hdr', path) | ('aot', path)
(valid by construction from a random tree, or perturbed), judged by the reference
interpreter `ref_eval` (the claims semantics of DESIGN.md 3.2, three-valued), and then
*rendered* with random lexical choices (key quoting, string kinds and escapes, number
bases/underscores, date-time spellings, whitespace/comments in every decor slot, CRLF,
BOM, missing final newline, trailing commas).

Abstract values:
  ('s', bytes) ('i', int) ('f', text) ('b', bool) ('d', (date|None, time|None, off|None))
  ('a', [values]) ('t', [(path, value), ...])          -- inline table with dotted paths
  date = (y, m, d); time = (h, mi, s, ns); off = 'Z' | minutes(int)
"""
import struct

# ---------------------------------------------------------------------------------------------
# reference interpreter (claims semantics)
# ---------------------------------------------------------------------------------------------
class Invalid(Exception):
    pass


class Undecided(Exception):
    pass


class Tab:
    __slots__ = ("items", "flags", "owner")

    def __init__(self, flags, owner=None):
        self.items = []          # ordered [key, node]
        self.flags = set(flags)  # 'root' 'super' 'header' 'dotted' 'elem' 'inline'
        self.owner = owner

    def get(self, k):
        for kk, n in self.items:
            if kk == k:
                return n
        return None

    def put(self, k, n):
        self.items.append([k, n])

    def move_to_end(self, k):
        for i, (kk, n) in enumerate(self.items):
            if kk == k:
                self.items.append(self.items.pop(i))
                return


class Aot:
    __slots__ = ("elems",)

    def __init__(self):
        self.elems = []


class Val:
    __slots__ = ("v",)

    def __init__(self, v):
        self.v = v


def _inline_to_tab(pairs):
    """an inline table value: its own closed world with the same rules, no headers"""
    root = Tab({"inline"})
    sec = object()
    for path, v in pairs:
        _insert_kv(root, path, v, sec, inline=True)
    return root


def _check_value(v):
    if v[0] == "a":
        for e in v[1]:
            _check_value(e)
    elif v[0] == "t":
        _inline_to_tab(v[1])


def _insert_kv(section, path, v, sec_id, inline=False):
    t = section
    for k in path[:-1]:
        ch = t.get(k)
        if ch is None:
            n = Tab({"dotted"}, sec_id)
            t.put(k, n)
            t = n
        elif isinstance(ch, Val):
            raise Invalid("dotted key extends a value")
        elif isinstance(ch, Aot):
            raise Invalid("dotted key reaches an array of tables")
        else:
            if "header" in ch.flags or "elem" in ch.flags or "root" in ch.flags:
                raise Invalid("dotted key reopens an explicitly defined table")
            if "dotted" in ch.flags:
                if ch.owner is not sec_id:
                    raise Invalid("dotted key reopens a dotted table of another section")
                t = ch
            elif "super" in ch.flags:
                raise Undecided("U1: dotted key runs into a header-implicit super-table")
            else:
                raise Invalid("dotted key reopens a table")
    k = path[-1]
    if t.get(k) is not None:
        raise Invalid("duplicate key")
    _check_value(v)
    t.put(k, Val(v))


def ref_eval(stmts):
    """returns ('valid', root Tab) | ('invalid', why) | ('undecided', why)"""
    root = Tab({"root"})
    cur = root
    sec_id = object()
    try:
        for st in stmts:
            if st[0] == "kv":
                _insert_kv(cur, st[1], st[2], sec_id)
                continue
            path = st[1]
            t = root
            for k in path[:-1]:
                ch = t.get(k)
                if ch is None:
                    n = Tab({"super"})
                    t.put(k, n)
                    t = n
                elif isinstance(ch, Val):
                    raise Invalid("header path goes through a value")
                elif isinstance(ch, Aot):
                    t = ch.elems[-1]
                else:
                    t = ch
            k = path[-1]
            ch = t.get(k)
            sec_id = object()
            if st[0] == "hdr":
                if ch is None:
                    n = Tab({"header"})
                    t.put(k, n)
                    cur = n
                elif isinstance(ch, Tab) and ch.flags == {"super"}:
                    ch.flags = {"header"}
                    t.move_to_end(k)
                    cur = ch
                else:
                    raise Invalid("table header redefines an existing table, value or array")
            else:
                if ch is None:
                    a = Aot()
                    t.put(k, a)
                    n = Tab({"elem"})
                    a.elems.append(n)
                    cur = n
                elif isinstance(ch, Aot):
                    n = Tab({"elem"})
                    ch.elems.append(n)
                    cur = n
                else:
                    raise Invalid("array-of-tables header collides with a table or value")
    except Invalid as e:
        return ("invalid", str(e))
    except Undecided as e:
        return ("undecided", str(e))
    return ("valid", root)


# ---- canonical dump (same format as Extract/Show.v and harness/src/tree.rs) -----------------
def hexs(b):
    return b.hex() if b else "-"


def f64_bits_text(text):
    t = text.replace("_", "")
    low = t.lower().lstrip("+-")
    neg = t.startswith("-")
    if low == "nan":
        return "f:-nan" if neg else "f:nan"
    if low == "inf":
        return "f:-inf" if neg else "f:inf"
    x = float(t)
    if x in (float("inf"), float("-inf")):
        return "f:-inf" if x < 0 else "f:inf"
    return "f:bits:%016x" % struct.unpack("<Q", struct.pack("<d", x))[0]


def dump_dt(d):
    date, time, off = d
    ds = "%d-%d-%d" % date if date else "none"
    ts = "%d:%d:%d.%d" % time if time else "none"
    os_ = "none" if off is None else ("Z" if off == "Z" else "C%d" % off)
    return "dt(%s;%s;%s)" % (ds, ts, os_)


def dump_value(v):
    k = v[0]
    if k == "s":
        return "s:" + hexs(v[1])
    if k == "i":
        return "i:%d" % v[1]
    if k == "f":
        return f64_bits_text(v[1])
    if k == "b":
        return "b:true" if v[1] else "b:false"
    if k == "d":
        return dump_dt(v[1])
    if k == "a":
        return "[" + ",".join(dump_value(e) for e in v[1]) + "]"
    if k == "t":
        return dump_inline_tab(_inline_to_tab(v[1]))
    raise ValueError(k)


def dump_inline_tab(t):
    parts = []
    for k, n in t.items:
        if isinstance(n, Val):
            parts.append(hexs(k) + "=" + dump_value(n.v))
        else:
            parts.append(hexs(k) + "=" + dump_inline_tab(n))
    return "{" + ",".join(parts) + "}"


def dump_tab(t):
    parts = []
    for k, n in t.items:
        if isinstance(n, Val):
            parts.append(hexs(k) + "=" + dump_value(n.v))
        elif isinstance(n, Aot):
            parts.append(hexs(k) + "=A[" + ",".join(dump_tab(e) for e in n.elems) + "]")
        else:
            parts.append(hexs(k) + "=" + dump_tab(n))
    return "T{" + ",".join(parts) + "}"


def float_overflows(text):
    t = text.replace("_", "").lower().lstrip("+-")
    if t in ("nan", "inf"):
        return False
    return float(t) == float("inf")


def value_within_limits(v, limit, depth=0):
    k = v[0]
    if k == "i":
        return -2 ** 63 <= v[1] < 2 ** 63
    if k == "f":
        return not float_overflows(v[1])
    if k == "a":
        return depth + 1 < limit and all(value_within_limits(e, limit, depth + 1) for e in v[1])
    if k == "t":
        return depth + 1 < limit and all(len(p) < limit and value_within_limits(e, limit, depth + 1) for p, e in v[1])
    return True


def within_limits(stmts, limit=80):
    for st in stmts:
        if len(st[1]) >= limit:
            return False
        if st[0] == "kv" and not value_within_limits(st[2], limit):
            return False
    return True


# ---------------------------------------------------------------------------------------------
# random abstract documents
# ---------------------------------------------------------------------------------------------
KEY_POOL = [b"a", b"b", b"c", b"key", b"k-1", b"_x", b"1", b"true", b"inf", b"1979-05-27", b"", b"a b", b"a.b",
            "é".encode(), b"\"q\"", b"'s'", b"t\tb", b"x\\y", b"new\nline", "日本".encode(), b"#h", b"=", b"[t]"]
STR_POOL = [b"", b"hello", b"with space", b"\"quoted\"", b"it's", b"back\\slash", b"tab\there", b"line1\nline2",
            b"\nleading newline", b"crlf\r\nhere", b"\x00nul", b"\x1f\x7f ctl", "é ü 日本 😀".encode(), b"'''", b'"""',
            b"''", b'""', b"#not comment", b"a=b", b"[x]", b"trailing\\", b"\x08\x0c", b"  ", b"e\x1bsc", b"q\"\"\"\"q",
            b"s''''s", b"\\u0041", b"\r", b"\\\n  cont"]


class TreeGen:
    def __init__(self, rng, small_keys=False, max_depth=3):
        self.rng = rng
        self.small = small_keys
        self.max_depth = max_depth

    def key(self):
        r = self.rng
        if self.small:
            return r.choice([b"a", b"b", b"c"])
        if r.random() < 0.7:
            return r.choice(KEY_POOL[:8])
        if r.random() < 0.6:
            return r.choice(KEY_POOL)
        n = r.randrange(1, 6)
        return bytes(r.choice(b"abcxyz_-019") for _ in range(n))

    def string(self):
        r = self.rng
        x = r.random()
        if x < 0.5:
            return r.choice(STR_POOL)
        if x < 0.8:
            n = r.randrange(0, 12)
            return bytes(r.choice(b"ab \"'\\\n\t#=[]{}.,_-0") for _ in range(n))
        n = r.randrange(0, 8)
        out = []
        for _ in range(n):
            c = r.choice([r.randrange(0x20, 0x7f), r.randrange(0, 0x20), 0x7f, r.randrange(0x80, 0x800),
                          r.randrange(0x800, 0xd800), r.randrange(0xe000, 0x10000), r.randrange(0x10000, 0x110000)])
            out.append(chr(c))
        return "".join(out).encode("utf-8")

    def integer(self):
        r = self.rng
        return r.choice([0, 1, -1, 42, 2 ** 63 - 1, -2 ** 63, 255, 1000000, -17, r.randrange(-2 ** 63, 2 ** 63),
                         r.randrange(-1000, 1000), 2 ** r.randrange(0, 63)])

    def float_text(self):
        r = self.rng
        x = r.random()
        if x < 0.15:
            return r.choice(["inf", "+inf", "-inf", "nan", "+nan", "-nan"])
        if x < 0.4:
            return r.choice(["0.0", "-0.0", "+0.0", "1.0", "3.14", "-0.01", "5e+22", "1e06", "-2E-2", "6.626e-34",
                             "224_617.445_991_228", "1e308", "1.7976931348623157e308", "4.9e-324", "1e-400", "0e0",
                             "-0e-0", "9_007_199_254_740_993.0", "0.1", "1.0e0", "1.5E3"])
        ip = str(r.choice([0, 1, 7, 10, 123, 99999, r.randrange(0, 10 ** r.randrange(1, 18))]))
        if len(ip) > 3 and r.random() < 0.3:
            k = r.randrange(1, len(ip))
            ip = ip[:k] + "_" + ip[k:]
        s = r.choice(["", "+", "-"]) + ip
        form = r.randrange(3)
        frac = "." + "".join(r.choice("0123456789") for _ in range(r.randrange(1, 8)))
        ex = r.choice("eE") + r.choice(["", "+", "-"]) + str(r.choice([0, 1, 5, 22, 300, 307, r.randrange(0, 330)]))
        if form == 0:
            return s + frac
        if form == 1:
            return s + ex
        return s + frac + ex

    def datetime(self):
        r = self.rng
        y = r.choice([0, 1979, 2000, 2024, 9999, r.randrange(10000)])
        m = r.randrange(1, 13)
        mdays = [31, 29 if (y % 4 == 0 and (y % 100 != 0 or y % 400 == 0)) else 28, 31, 30, 31, 30, 31, 31, 30, 31, 30, 31][m - 1]
        d = r.choice([1, mdays, r.randrange(1, mdays + 1)])
        t = (r.choice([0, 23, r.randrange(24)]), r.choice([0, 59, r.randrange(60)]), r.choice([0, 59, 60, r.randrange(61)]),
             r.choice([0, 0, 500000000, 999999999, 1, r.randrange(10 ** 9), r.randrange(1000) * 10 ** 6]))
        off = r.choice(["Z", 0, -420, 60, 1439, -1439, r.randrange(-1439, 1440)])
        shape = r.randrange(4)
        if shape == 0:
            return ((y, m, d), t, off)
        if shape == 1:
            return ((y, m, d), t, None)
        if shape == 2:
            return ((y, m, d), None, None)
        return (None, t, None)

    def scalar(self):
        r = self.rng
        k = r.randrange(6)
        if k == 0:
            return ("s", self.string())
        if k == 1:
            return ("i", self.integer())
        if k == 2:
            return ("f", self.float_text())
        if k == 3:
            return ("b", r.random() < 0.5)
        if k == 4:
            return ("d", self.datetime())
        return ("s", self.string())

    def value(self, depth=0):
        r = self.rng
        if depth >= self.max_depth or r.random() < 0.65:
            return self.scalar()
        if r.random() < 0.55:
            return ("a", [self.value(depth + 1) for _ in range(r.choice([0, 1, 2, 3, 3, 5]))])
        return ("t", self.inline_pairs(depth + 1))

    def inline_pairs(self, depth):
        """valid by construction: prefix-free dotted paths over distinct keys"""
        r = self.rng
        pairs = []
        used = set()      # full paths and all prefixes that are dotted tables
        leafs = set()
        for _ in range(r.choice([0, 1, 2, 3, 4])):
            n = r.choice([1, 1, 1, 2, 3])
            path = tuple(self.key() for _ in range(n))
            ok = True
            for i in range(1, n + 1):
                if path[:i] in leafs:
                    ok = False
            if path in used:
                ok = False
            if not ok:
                continue
            for i in range(1, n):
                used.add(path[:i])
            used.add(path)
            leafs.add(path)
            pairs.append((list(path), self.value(depth)))
        return pairs

    @staticmethod
    def group_pairs(pairs):
        """reorder (path, value) pairs so that pairs sharing a dotted prefix are adjacent (recursively)"""
        order, groups = [], {}
        for p, v in pairs:
            k = p[0]
            if k not in groups:
                groups[k] = []
                order.append(k)
            groups[k].append((p, v))
        out = []
        for k in order:
            g = groups[k]
            singles = [(p, v) for p, v in g if len(p) == 1]
            deeper = [(p[1:], v) for p, v in g if len(p) > 1]
            out.extend(singles)
            for p, v in TreeGen.group_pairs(deeper) if deeper else []:
                out.append(([k] + p, v))
        return out

    def group_value(self, v):
        if v[0] == "a":
            return ("a", [self.group_value(e) for e in v[1]])
        if v[0] == "t":
            return ("t", self.group_pairs([(p, self.group_value(e)) for p, e in v[1]]))
        return v

    # a random tree: dict-like ordered [(key, node)], node = ('v', value) | ('T', tree) | ('A', [tree...])
    def tree(self, depth=0, allow_aot=True):
        r = self.rng
        n = r.choice([0, 1, 2, 3, 4]) if depth else r.choice([1, 2, 3, 4, 6])
        out, keys = [], set()
        for _ in range(n):
            k = self.key()
            if k in keys:
                continue
            keys.add(k)
            x = r.random()
            if depth >= self.max_depth or x < 0.55:
                out.append((k, ("v", self.value())))
            elif x < 0.85 or not allow_aot:
                out.append((k, ("T", self.tree(depth + 1, allow_aot))))
            else:
                out.append((k, ("A", [self.tree(depth + 1, allow_aot) for _ in range(r.choice([1, 2, 3]))])))
        return out

    def has_aot(self, tree):
        for _, n in tree:
            if n[0] == "A" or (n[0] == "T" and self.has_aot(n[1])):
                return True
        return False

    def leaves(self, tree, prefix):
        for k, n in tree:
            if n[0] == "v":
                yield prefix + [k], n[1]
            elif n[0] == "T":
                yield from self.leaves(n[1], prefix + [k])

    def tree_to_inline(self, tree):
        pairs = []
        for k, n in tree:
            if n[0] == "v":
                pairs.append(([k], n[1]))
            else:
                if self.rng.random() < 0.5 and list(self.leaves(n[1], [])):
                    for p, v in self.leaves(n[1], [k]):
                        pairs.append((p, v))
                else:
                    pairs.append(([k], ("t", self.tree_to_inline(n[1]))))
        return pairs

    def statements(self, tree):
        """linearise a tree into a valid statement list with random layout choices"""
        r = self.rng
        out = []

        def section(tree, path, in_dotted=False):
            deferred = []
            for k, n in tree:
                if n[0] == "v":
                    out.append(("kv", [k], n[1]))
                elif n[0] == "T":
                    sub = n[1]
                    noaot = not self.has_aot(sub)
                    x = r.random()
                    lv = list(self.leaves(sub, [k])) if noaot else []
                    if noaot and lv and x < 0.3 and self._all_leaves(sub):
                        for p, v in lv:
                            out.append(("kv", p, v))
                    elif noaot and x < 0.5:
                        out.append(("kv", [k], ("t", self.tree_to_inline(sub))))
                    else:
                        deferred.append((k, n))
                else:
                    deferred.append((k, n))
            return deferred

        def emit_deferred(deferred, path):
            if r.random() < 0.3:
                r.shuffle(deferred)
            for k, n in deferred:
                p = path + [k]
                if n[0] == "T":
                    sub = n[1]
                    subs_only = sub and all(c[1][0] != "v" for c in sub)
                    if subs_only and r.random() < 0.35:
                        # sub-tables first (their headers create the super-table implicitly),
                        # then possibly the super-table's own header afterwards
                        mark = len(out)
                        d2 = section(sub, p)
                        if len(out) == mark:          # section() emitted no line of its own
                            emit_deferred(d2, p)
                            if len(out) > mark and r.random() < 0.5:
                                out.append(("hdr", p))
                            elif len(out) == mark:
                                out.append(("hdr", p))
                            continue
                        # section() chose dotted/inline forms: they need the header in front
                        out.insert(mark, ("hdr", p))
                        emit_deferred(d2, p)
                        continue
                    out.append(("hdr", p))
                    d2 = section(sub, p)
                    emit_deferred(d2, p)
                else:
                    for elem in n[1]:
                        out.append(("aot", p))
                        d2 = section(elem, p)
                        emit_deferred(d2, p)

        d = section(tree, [])
        emit_deferred(d, [])
        return out

    def _all_leaves(self, tree):
        """every sub-table has at least one leaf below it (else dotted expansion would lose it)"""
        for k, n in tree:
            if n[0] == "T":
                if not n[1] or not self._all_leaves(n[1]):
                    return False
            elif n[0] == "A":
                return False
        return True

    def perturb(self, stmts):
        """one definition-rule breach (usually): duplicate / reorder / retarget a statement"""
        r = self.rng
        s = list(stmts)
        if not s:
            return [("kv", [b"a"], ("i", 1)), ("kv", [b"a"], ("i", 2))]
        op = r.randrange(6)
        i = r.randrange(len(s))
        if op == 0:
            s.insert(r.randrange(i, len(s)) + 1, s[i])
        elif op == 1:
            j = r.randrange(len(s))
            s[i], s[j] = s[j], s[i]
        elif op == 2:
            st = s[i]
            s.insert(i + 1, ("hdr" if st[0] != "hdr" else "aot", st[1]) if st[0] != "kv" else ("hdr", st[1]))
        elif op == 3:
            st = s[i]
            s.append(("kv", st[1] + [self.key()], ("i", 1)))
        elif op == 4:
            st = s[i]
            if len(st[1]) > 1:
                s.append((r.choice(["hdr", "aot"]), st[1][:-1]))
            else:
                s.append(("kv", st[1], ("b", True)))
        else:
            st = s[i]
            s.insert(r.randrange(len(s) + 1), (r.choice(["hdr", "aot"]), st[1]))
        return s


# ---------------------------------------------------------------------------------------------
# rendering
# ---------------------------------------------------------------------------------------------
BARE = set(b"ABCDEFGHIJKLMNOPQRSTUVWXYZabcdefghijklmnopqrstuvwxyz0123456789-_")


class Renderer:
    """plain=True renders the canonical, minimal spelling (used when exactness matters);
    otherwise every lexical choice is random.  `markers` puts a distinct comment/whitespace
    marker in every decor slot so that misplacement shows (C03)."""

    def __init__(self, rng, plain=False, crlf_p=0.1, comment_p=0.25, ws_p=0.3, consistent=False):
        self.rng = rng
        self.plain = plain
        # consistent: every key is always spelled the same way and key paths carry no blanks
        # around dots / inside header brackets (the condition under which C03 promises exactness)
        self.consistent = consistent
        self.key_memo = {}
        self.crlf_p = crlf_p
        self.comment_p = comment_p
        self.ws_p = ws_p
        self.n_marker = 0
        self.nl_style = None

    # -- trivia
    def ws(self, default=b""):
        r = self.rng
        if self.plain or r.random() > self.ws_p:
            return default
        return r.choice([b"", b" ", b"  ", b"\t", b" \t "])

    def nl(self):
        r = self.rng
        if self.plain:
            return b"\n"
        if self.nl_style is None:
            self.nl_style = r.random()
        if self.nl_style < 0.8:
            return b"\n"
        return b"\r\n" if r.random() < 0.6 else b"\n"

    def comment(self):
        r = self.rng
        self.n_marker += 1
        body = r.choice([b" c%d" % self.n_marker, b"", b"# double", " é ünï".encode(), b"\ttab", b" [not.a.table]",
                         b" k = 1", b" \"unterminated", b" '''"])
        return b"#" + body

    def opt_comment(self):
        if self.plain or self.rng.random() > self.comment_p:
            return b""
        return self.ws() + self.comment()

    def blank_lines(self):
        r = self.rng
        if self.plain:
            return b""
        out = b""
        while r.random() < 0.2:
            if r.random() < 0.5:
                out += self.ws() + self.nl()
            else:
                out += self.ws() + self.comment() + self.nl()
        return out

    def wcn(self):
        """ws-comment-newline filler allowed inside arrays"""
        r = self.rng
        if self.plain:
            return b""
        out = self.ws()
        while r.random() < 0.15:
            out += (self.comment() if r.random() < 0.5 else b"") + self.nl() + self.ws()
        return out

    # -- keys
    def key(self, k):
        if self.consistent:
            if k not in self.key_memo:
                self.key_memo[k] = self._key(k)
            return self.key_memo[k]
        return self._key(k)

    def _key(self, k):
        r = self.rng
        bare_ok = len(k) > 0 and all(c in BARE for c in k)
        lit_ok = b"'" not in k and all((c >= 0x20 and c != 0x7f) or c == 9 for c in k)
        choices = []
        if bare_ok:
            choices += ["bare"] * (6 if not self.plain else 100)
        if lit_ok and not self.plain:
            choices.append("lit")
        if not self.plain or not bare_ok:
            choices.append("basic")
        c = r.choice(choices)
        if c == "bare":
            return k
        if c == "lit":
            return b"'" + k + b"'"
        return self.basic_string(k)

    def key_path(self, path, lead=b"", trail=b""):
        parts = []
        for i, k in enumerate(path):
            pre = (b"" if self.consistent else self.ws()) if i > 0 else lead
            suf = (b"" if self.consistent else self.ws()) if i + 1 < len(path) else trail
            parts.append(pre + self.key(k) + suf)
        return b".".join(parts)

    # -- strings
    def esc_char(self, ch, ml):
        r = self.rng
        o = ord(ch)
        simple = {8: b"\\b", 9: b"\\t", 10: b"\\n", 12: b"\\f", 13: b"\\r", 34: b'\\"', 92: b"\\\\"}
        must = o < 0x20 or o == 0x7f or o == 34 or o == 92
        if o == 9:
            must = False
        if ml and o == 10:
            must = False
        if ml and o == 34:
            must = None  # handled by caller (quote runs)
        if must or (not self.plain and r.random() < 0.08):
            if o in simple and r.random() < 0.7:
                return simple[o]
            if o <= 0xffff and r.random() < 0.6:
                return b"\\u%04X" % o if r.random() < 0.5 else b"\\u%04x" % o
            return b"\\U%08X" % o
        return ch.encode("utf-8")

    def basic_string(self, s):
        txt = s.decode("utf-8")
        return b'"' + b"".join(self.esc_char(c, False) for c in txt) + b'"'

    def ml_basic_string(self, s):
        r = self.rng
        txt = s.decode("utf-8")
        out = []
        run = 0
        for i, c in enumerate(txt):
            if c == '"':
                run += 1
                if run >= 3 or r.random() < 0.2:
                    out.append(b'\\"')
                    run = 0
                else:
                    out.append(b'"')
                continue
            run = 0
            if c == "\n" and r.random() < 0.3 and not self.plain:
                out.append(b"\r\n")
                continue
            if c == "\r":
                out.append(b"\\r")
                continue
            out.append(self.esc_char(c, True))
            # line-ending backslash: trims following whitespace/newlines; only safe when the
            # next decoded char is not whitespace/newline
            if not self.plain and r.random() < 0.05 and i + 1 < len(txt) and txt[i + 1] not in " \t\n\r":
                out.append(b"\\" + r.choice([b"\n", b"  \n", b"\r\n", b"\n\n  \t", b" \t\n  \n"]))
        body = b"".join(out)
        lead = b""
        if txt.startswith("\n") or (not self.plain and r.random() < 0.3):
            lead = r.choice([b"\n", b"\r\n"]) if not self.plain else b"\n"
        return b'"""' + lead + body + b'"""'

    def literal_ok(self, s):
        return b"'" not in s and all((c >= 0x20 and c != 0x7f) or c == 9 for c in s)

    def ml_literal_ok(self, s):
        return b"'''" not in s and all((c >= 0x20 and c != 0x7f) or c in (9, 10) for c in s) and b"\r" not in s

    def ml_literal_string(self, s):
        r = self.rng
        body = s
        if not self.plain and r.random() < 0.3:
            body = body.replace(b"\n", b"\r\n")
        lead = b""
        if s.startswith(b"\n") or (not self.plain and r.random() < 0.3):
            lead = r.choice([b"\n", b"\r\n"]) if not self.plain else b"\n"
        return b"'''" + lead + body + b"'''"

    def string(self, s):
        r = self.rng
        choices = ["basic"] * 3 + ["mlb"]
        if self.literal_ok(s):
            choices += ["lit"] * 2
        if self.ml_literal_ok(s):
            choices.append("mll")
        if self.plain:
            choices = ["basic"]
        c = r.choice(choices)
        if c == "basic":
            return self.basic_string(s)
        if c == "mlb":
            return self.ml_basic_string(s)
        if c == "lit":
            return b"'" + s + b"'"
        return self.ml_literal_string(s)

    # -- numbers
    def underscores(self, digits):
        r = self.rng
        if self.plain or len(digits) < 2 or r.random() < 0.7:
            return digits
        out = digits[0]
        for ch in digits[1:]:
            if r.random() < 0.3:
                out += "_"
            out += ch
        return out

    def integer(self, z):
        r = self.rng
        if self.plain:
            return str(z).encode()
        base = r.choice([10, 10, 10, 16, 8, 2]) if z >= 0 else 10
        if base == 10:
            sign = "-" if z < 0 else r.choice(["", "", "+"])
            return (sign + self.underscores(str(abs(z)))).encode()
        if base == 16:
            d = "%x" % z
            d = "".join(c.upper() if r.random() < 0.5 else c for c in d)
            if r.random() < 0.2:
                d = "0" * r.randrange(1, 3) + d
            return ("0x" + self.underscores(d)).encode()
        if base == 8:
            return ("0o" + self.underscores("%o" % z)).encode()
        return ("0b" + self.underscores("{0:b}".format(z))).encode()

    def datetime(self, d):
        r = self.rng
        date, time, off = d
        out = ""
        if date:
            out += "%04d-%02d-%02d" % date
        if time:
            if date:
                out += "T" if self.plain else r.choice(["T", "T", "t", " "])
            h, mi, s, ns = time
            out += "%02d:%02d:%02d" % (h, mi, s)
            if ns:
                frac = ("%09d" % ns).rstrip("0")
                if not self.plain and r.random() < 0.3:
                    frac += "0" * r.randrange(0, 4)
                if not self.plain and len(frac) >= 9 and r.random() < 0.3:
                    frac = ("%09d" % ns) + "".join(r.choice("0123456789") for _ in range(r.randrange(1, 6)))
                out += "." + frac
            elif not self.plain and r.random() < 0.1:
                out += "." + "0" * r.randrange(1, 12)
        if off is not None:
            if off == "Z":
                out += "Z" if self.plain else r.choice(["Z", "z"])
            else:
                sign = "-" if off < 0 else "+"
                if off == 0 and not self.plain and r.random() < 0.5:
                    sign = "-"
                out += "%s%02d:%02d" % (sign, abs(off) // 60, abs(off) % 60)
        return out.encode()

    # -- values
    def value(self, v):
        k = v[0]
        if k == "s":
            return self.string(v[1])
        if k == "i":
            return self.integer(v[1])
        if k == "f":
            return v[1].encode()
        if k == "b":
            return b"true" if v[1] else b"false"
        if k == "d":
            return self.datetime(v[1])
        if k == "a":
            return self.array(v[1])
        if k == "t":
            return self.inline(v[1])
        raise ValueError(k)

    def array(self, vals):
        r = self.rng
        if not vals:
            return b"[" + self.wcn() + b"]"
        parts = [self.wcn() + self.value(e) + self.wcn() for e in vals]
        body = b",".join(parts) if not self.plain else b", ".join(self.value(e) for e in vals)
        if not self.plain and r.random() < 0.3:
            body += b"," + self.wcn()
        return b"[" + body + b"]"

    def inline(self, pairs):
        if not pairs:
            return b"{" + self.ws() + b"}"
        parts = []
        for p, v in pairs:
            parts.append(self.key_path(p, self.ws(b" "), self.ws(b" ")) + b"=" + self.ws(b" ") + self.value(v) + self.ws(b" "))
        if self.plain:
            return b"{ " + b", ".join(b".".join(self.key(k) for k in p) + b" = " + self.value(v) for p, v in pairs) + b" }"
        return b"{" + b",".join(parts) + b"}"

    # -- statements and documents
    def statement(self, st):
        if st[0] == "kv":
            if self.plain:
                return b".".join(self.key(k) for k in st[1]) + b" = " + self.value(st[2])
            return self.ws() + self.key_path(st[1], b"", self.ws(b" ")) + b"=" + self.ws(b" ") + self.value(st[2]) + self.opt_comment() + self.ws()
        o, c = (b"[", b"]") if st[0] == "hdr" else (b"[[", b"]]")
        if self.plain:
            return o + b".".join(self.key(k) for k in st[1]) + c
        if self.consistent:
            return self.ws() + o + self.key_path(st[1]) + c + self.opt_comment() + self.ws()
        return self.ws() + o + self.key_path(st[1], self.ws(), self.ws()) + c + self.opt_comment() + self.ws()

    def document(self, stmts, final_newline=None, bom=None):
        r = self.rng
        out = b""
        if bom is None:
            bom = (not self.plain) and r.random() < 0.05
        if bom:
            out += b"\xef\xbb\xbf"
        out += self.blank_lines()
        for i, st in enumerate(stmts):
            out += self.statement(st)
            last = i + 1 == len(stmts)
            if last:
                fn = final_newline if final_newline is not None else (self.plain or r.random() < 0.85)
                if fn:
                    out += self.nl() + self.blank_lines()
                    if not self.plain and r.random() < 0.1:
                        out += self.ws() + (self.comment() if r.random() < 0.5 else b"")
            else:
                out += self.nl() + self.blank_lines()
        return out


# ---------------------------------------------------------------------------------------------
# mutation of texts
# ---------------------------------------------------------------------------------------------
TOKENS = [b"[", b"]", b"[[", b"]]", b"{", b"}", b",", b".", b"=", b"\"", b"'", b"\"\"\"", b"'''", b"#", b"\n", b"\r\n", b"\r",
          b" ", b"\t", b"_", b"-", b"+", b"0", b"1", b"9", b"e", b"E", b"x", b"0x", b"0o", b"0b", b"inf", b"nan", b"true",
          b"false", b"T", b"Z", b":", b"\\", b"\\u", b"\\U", b"\\n", b"\x00", b"\x7f", b"\x1f", "é".encode(), b"\xef\xbb\xbf",
          b"a", b"a.b", b"1979-05-27", b"07:32:00", b"\\\n", b"\"\"", b"''"]


def mutate(rng, text, n=1):
    s = bytearray(text)
    for _ in range(n):
        op = rng.randrange(6)
        i = rng.randrange(len(s) + 1)
        if op == 0:
            s[i:i] = rng.choice(TOKENS)
        elif op == 1 and i < len(s):
            del s[i:i + rng.choice([1, 1, 1, 2, 3])]
        elif op == 2 and i < len(s):
            s[i:i + 1] = rng.choice(TOKENS)
        elif op == 3 and i < len(s):
            j = rng.randrange(i, min(len(s), i + 8) + 1)
            s[i:i] = s[i:j]
        elif op == 4:
            s = s[:i]
        elif i < len(s):
            s[i] = rng.randrange(256) if rng.random() < 0.3 else rng.choice(b" \t\n\r\"'\\#=.[]{},_-+:0aTZ")
    return bytes(s)


def utf8_ok(b):
    try:
        b.decode("utf-8")
        return True
    except UnicodeDecodeError:
        return False
