#!/usr/bin/env python3
"""seed_confirm.py — confirm a seeded change delivered by an independent sub-agent and file it under /verif/seeded.

  seed_confirm.py <worktree> <out-subdir> <name> --dst <path in repo for the demo file> --cmd "<demo command>"
                  [--props C16,C18] [--skip-suite]

Runs, inside the scratch worktree (never /repo):
  1. demo WITHOUT the patch  -> must pass (exit 0)
  2. patch applied, demo     -> must fail (exit != 0)
  3. patch applied, whole existing suite `cargo test --workspace --no-fail-fast --offline` -> must pass
then restores the worktree, copies patch.diff + demo + the agent's meta.json to /verif/seeded/<name>/ and writes
`confirmed` into its meta.json (what was run, exit codes, test counts).  Finally (unless --props is empty) runs the named
checks against the patch in the lab (lib/lab.py) and records which of them report a violation.
"""
import argparse, json, os, re, shutil, subprocess, sys

VERIF = os.path.dirname(os.path.dirname(os.path.abspath(__file__)))


def sh(cmd, cwd=None, timeout=3600):
    env = dict(os.environ, CARGO_NET_OFFLINE="true")
    p = subprocess.run(cmd, shell=True, cwd=cwd, env=env, stdout=subprocess.PIPE, stderr=subprocess.STDOUT, text=True, timeout=timeout)
    return p.returncode, p.stdout


LAB = os.environ.get("VERIF_LAB", "main")


def run_checks(dst, props, meta):
    rc, out = sh("python3 lib/lab.py sync %s >/dev/null && python3 lib/lab.py try %s %s --name %s" % (LAB, os.path.join(dst, "patch.diff"), " ".join(props), LAB), cwd=VERIF, timeout=7200)
    for line in out.splitlines():
        m = re.match(r"(C\d\d) exit=(\d+) (.*)", line)
        if m:
            meta["checks"][m.group(1)] = {"exit": int(m.group(2)), "caught": m.group(2) == "1" and "VIOLATION" in m.group(3),
                                          "no_failing_input_found": all("no-failing-input-found" in seg for seg in m.group(3).split("|") if "VIOLATION" in seg) and "VIOLATION" in m.group(3),
                                          "line": m.group(3)[-400:]}
            print(m.group(1), "caught" if meta["checks"][m.group(1)]["caught"] else "MISSED", m.group(3)[-160:])


def recheck(name, props):
    dst = os.path.join(VERIF, "seeded", name)
    meta = json.load(open(os.path.join(dst, "meta.json")))
    run_checks(dst, props, meta)
    json.dump(meta, open(os.path.join(dst, "meta.json"), "w"), indent=1)
    return 0


def main():
    if len(sys.argv) > 1 and sys.argv[1] == "--recheck":
        return recheck(sys.argv[2], sys.argv[3].split(","))
    ap = argparse.ArgumentParser()
    ap.add_argument("worktree"); ap.add_argument("sub"); ap.add_argument("name")
    ap.add_argument("--dst", required=True); ap.add_argument("--cmd", required=True)
    ap.add_argument("--props", default=""); ap.add_argument("--skip-suite", action="store_true")
    a = ap.parse_args()
    wt, src = a.worktree, os.path.join(a.worktree, "out", a.sub)
    patch = os.path.join(src, "patch.diff")
    demo_files = [f for f in os.listdir(os.path.join(src, "demo")) if f != "RUN.txt"]
    sh("git checkout -- . && git clean -fdq crates", cwd=wt)
    dsts = []
    for f in demo_files:
        d = os.path.join(wt, a.dst) if len(demo_files) == 1 else os.path.join(wt, os.path.dirname(a.dst), f)
        os.makedirs(os.path.dirname(d), exist_ok=True)
        shutil.copy(os.path.join(src, "demo", f), d); dsts.append(d)
    rec = {"demo_cmd": a.cmd, "demo_placed_at": a.dst}
    rc0, out0 = sh(a.cmd, cwd=wt)
    rec["demo_without_patch_exit"] = rc0
    rc, out = sh("git apply %s" % patch, cwd=wt)
    if rc != 0:
        print("patch does not apply:", out); return 2
    rc1, out1 = sh(a.cmd, cwd=wt)
    rec["demo_with_patch_exit"] = rc1
    rec["demo_with_patch_tail"] = "\n".join(out1.strip().splitlines()[-8:])[-1200:]
    if not a.skip_suite:
        for d in dsts:
            os.remove(d)            # the suite is the EXISTING one
        rc2, out2 = sh("cargo test --workspace --no-fail-fast --offline 2>&1", cwd=wt)
        out2 = re.sub(r"\x1b\[[0-9;]*m", "", out2)
        res = re.findall(r"test result: (\w+)\. (\d+) passed; (\d+) failed", out2)
        rec["suite_with_patch_exit"] = rc2
        rec["suite_with_patch_passed"] = sum(int(p) for _, p, _ in res)
        rec["suite_with_patch_failed"] = sum(int(f) for _, _, f in res)
    sh("git checkout -- . && git clean -fdq crates", cwd=wt)
    ok = rc0 == 0 and rc1 != 0 and (a.skip_suite or (rec["suite_with_patch_exit"] == 0 and rec["suite_with_patch_failed"] == 0))
    rec["confirmed"] = ok
    print(json.dumps(rec, indent=1))
    if not ok:
        print("NOT CONFIRMED"); return 1
    dst = os.path.join(VERIF, "seeded", a.name)
    os.makedirs(os.path.join(dst, "demo"), exist_ok=True)
    shutil.copy(patch, os.path.join(dst, "patch.diff"))
    for f in os.listdir(os.path.join(src, "demo")):
        shutil.copy(os.path.join(src, "demo", f), os.path.join(dst, "demo", f))
    meta = {}
    try:
        meta = json.load(open(os.path.join(src, "meta.json")))
    except Exception as e:
        meta = {"agent_meta_unreadable": repr(e)}
    meta = {"breaks_property": meta.get("property"), "summary": meta.get("summary"), "needs": meta.get("needs"),
            "agent_report": {k: v for k, v in meta.items() if k not in ("property", "summary", "needs")},
            "confirmed_by_coordinator": rec, "checks": {}}
    if a.props:
        run_checks(dst, a.props.split(","), meta)
    json.dump(meta, open(os.path.join(dst, "meta.json"), "w"), indent=1)
    print("filed under", dst)
    return 0


if __name__ == "__main__":
    sys.exit(main())
