#!/usr/bin/env python3
"""print the DESIGN.md 0.7 table from /verif/seeded/*/meta.json"""
import json, glob, os
rows = []
for d in sorted(glob.glob(os.path.join(os.path.dirname(os.path.dirname(os.path.abspath(__file__))), "seeded", "*"))):
    try:
        m = json.load(open(os.path.join(d, "meta.json")))
    except Exception:
        continue
    caught = []
    missed = []
    # the closing replay against the final checks on the final /repo HEAD (lib/seed_replay_all.py) is what counts; the checks
    # recorded when the change was filed only add which neighbouring checks were tried and do not see it
    final = (m.get("final_replay") or {}).get("results") or {}
    merged = dict(m.get("checks", {}))
    merged.update({k: v for k, v in final.items() if isinstance(v, dict)})
    for k, v in sorted(merged.items()):
        if v.get("caught"):
            caught.append(k + (" (broken obligation / divergence only: no-failing-input-found)" if v.get("no_failing_input_found") else ""))
        else:
            missed.append(k)
    note = m.get("note", "")
    rows.append("| `%s` | %s | %s | %s | %s |" % (os.path.basename(d), m.get("breaks_property"), (m.get("summary") or "").replace("|", "/")[:260],
                                             (m.get("needs") or "").replace("|", "/")[:260],
                                             "caught by " + ", ".join(caught) if caught else "NOT caught") + ("" if not missed else " — not by " + ", ".join(missed)) + (" — " + note if note else ""))
print("| seeded change (directory under /verif/seeded) | property | what was changed | what it needs to manifest | result |")
print("|---|---|---|---|---|")
for r in rows:
    print(r)
