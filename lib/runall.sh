#!/bin/sh
# run every registered quick check once on the current tree; print one line per property (exit code + summary / VIOLATION)
cd "$(dirname "$0")/.."
rc=0
for p in $(python3 -c "import json;print(' '.join(c['property_id'] for c in json.load(open('MANIFEST.json'))['checks']))"); do
  out=$(VERIF_SEED=${VERIF_SEED:-1} ./check $p 2>&1); e=$?
  echo "$p exit=$e $(echo "$out" | grep -E "^$p:|^VIOLATION" | tr '\n' ' ' | cut -c1-220)"
  echo "$out" | grep "witness no longer fails" | cut -c1-160 | sed 's/^/   STALE-WITNESS: /'
  [ $e -ne 0 ] && rc=1
done
exit $rc
