"""floatnorm.py — canonicalise the model's exact-decimal floats (`f:dec:<m>e<e>`) to IEEE-754
binary64 bit patterns with Python's correctly rounded float() (an independent strtod),
so they can be compared with the implementation's `f:bits:<hex>`."""
import re, struct

DEC = re.compile(r"f:dec:(-?)(\d+)e(-?\d+)")


def _bits(m):
    neg, mant, exp = m.group(1), m.group(2), int(m.group(3))
    # avoid building gigantic literals: clamp the exponent where the result is decided anyway
    digits = len(mant.lstrip("0")) or 1
    if mant.strip("0") == "":
        x = 0.0
    elif exp + digits > 400:
        x = float("inf")
    elif exp + digits < -400:
        x = 0.0
    else:
        x = float(mant + "e" + str(exp))
    if neg:
        x = -x
    if x != x:
        return "f:nan"
    if x in (float("inf"), float("-inf")):
        return "f:inf" if x > 0 else "f:-inf"
    return "f:bits:%016x" % struct.unpack("<Q", struct.pack("<d", x))[0]


def norm(line):
    if line is None or "f:dec:" not in line:
        return line
    return DEC.sub(_bits, line)
