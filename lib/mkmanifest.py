#!/usr/bin/env python3
"""regenerate MANIFEST.json from the table below (run from /verif)."""
import json, os, subprocess

NOTE = ("Trusted: Coq 8.16.1 kernel; lib/gen_consts.py (constants translator); Base/Winnow.v (winnow combinator semantics, transcribed); "
        "extraction with ExtrOcamlBasic only + OCaml 4.13.1 + driver/main.ml; the Rust harness, python generators and differ. The Rust control "
        "flow is modelled by hand (coq/Model) and tied to /repo's working tree by regenerated constants and by the correspondence runs on "
        "generated inputs; the theorems are about the model.")

CLAIMED = {
 "C01": ("proof", "6/C01", "Theorems (Props/C01.v, Props/C02tokens.v): every byte class, token and range constant of the CURRENT source equals the ABNF's (256-case sweeps inside Coq, re-run against the regenerated constants); token-level grammar lemmas; whole-document equivalence is partial and rests on the correspondence: extracted model vs implementation verdicts on byte x position sweeps (25 contexts x all ASCII bytes + multi-byte), abstract-first documents judged by the reference interpreter, the toml-test corpus, mutations and truncations; all front ends compared.", "L0 constant proofs + token lemmas + differential correspondence with reference verdicts"),
 "C02": ("proof", "6/C02", "Theorems: escape table and fraction scaling of the current source denote the specified values; token-level value lemmas (Props/C02tokens.v); date-time fields by C12. Whole-document C02_tree is partial: decoded trees are compared with an independent reference decoding of the generator's abstract document (and with the model), per-spelling tables for every escape/trim/base/fraction form, toml::Value front end compared.", "token value lemmas + reference-decoder differential check"),
 "C03": ("proof", "6/C03", "Theorems in Props/C03.v (CR stripping laws; printing lemmas as they grow); exactness `print = normalize(text)` (parser-independent six-state normaliser) checked on consistently spelled documents, and validity / same data / comments kept / fixed point on all; model print compared byte-for-byte with the implementation. Partial: the whole-document exactness theorem is not yet proved.", "print/normalise differential check with model correspondence; partial proof"),
 "C05": ("proof", "6/C05", "Theorems in Props/C05.v (limit enforcement of check_recursion/check_depth for the generated LIMIT; depth bounds as Proofs/Depth*.v grow); every single construct around the limit and all products of two/three constructs run in a child process on a 2 MiB thread in release and debug builds: never a crash, accepted depth <= 4*LIMIT, below-limit singles accepted; verdict, depth and error kind compared with the model.", "depth-bound lemmas + product-grid stack probe"),
 "C12": ("proof", "6/C12", "Fully proved (Proofs/DatetimeEq.v, 1450 lines, closed under the global context): the standalone parser and the document grammar agree on EVERY byte string, parsed values are in range, printing any in-range value reads back through both parsers, fractions beyond 9 digits are truncated. Tie: all range constants regenerated from both sources; ~50k (quick) strings through model and implementation.", "full agreement theorem + differential correspondence"),
}

def main():
    props = [json.loads(l) for l in open("properties.jsonl")]
    repo_fix = subprocess.run(["git", "-C", "/repo", "log", "--format=%h %s"], capture_output=True, text=True).stdout.strip().split("\n")
    m = {"version": 1, "setup_cmd": "./check --setup",
         "hooks": {"guard": "toml_rs_toml_verif",
                   "enable": "RUSTFLAGS=\"--cfg toml_rs_toml_verif\" is set by lib/common.py when it builds /verif/harness against /repo's working tree; no observation needs a hook (everything is reachable through public API), so no source commit carries the guard",
                   "baseline_off_cmd": "cd /repo && cargo test --workspace --no-fail-fast --offline",
                   "source_commits": [], "add_only": True},
         "engines": [
             {"name": "coq-model", "path": "/verif/coq", "serves_properties": sorted(CLAIMED), "kind_free_text": "Coq 8.16 development: Base (bytes, UTF-8, mini-winnow), Gen (constants regenerated from the Rust sources on every run), Spec, Model (hand transcription of the code), Proofs, Props (theorems only), Extract (OCaml extraction of the executable model)"},
             {"name": "correspondence", "path": "/verif/harness", "serves_properties": sorted(CLAIMED), "kind_free_text": "Rust harness binaries linked against /repo's working tree + extracted OCaml drivers, same line protocol, outputs diffed; the property's own oracle is evaluated on the implementation; python generators in /verif/lib"}],
         "checks": [], "notes": "See DESIGN.md. Genuine defects repaired by `fix:` commits in /repo are listed in known_findings.json (kind=fixed): " + "; ".join(l for l in repo_fix if " fix:" in l),
         "not_applicable": []}
    for p in props:
        i = p["id"]
        if i in CLAIMED:
            cat, ref, text, tech = CLAIMED[i]
            m["checks"].append({"property_id": i, "quick_cmd": "./check %s --tier quick" % i, "thorough_cmd": "./check %s --tier thorough" % i,
                                "evidence_file": "/verif/evidence/%s.json" % i, "replay_cmd_template": "./check %s --replay {path}" % i,
                                "engine": "coq-model", "level_claimed": {"category": cat, "text": text, "design_ref": "DESIGN.md " + ref},
                                "level_note": NOTE, "technique": "machine-checked proof in Coq: " + tech})
        else:
            m["not_applicable"].append({"property_id": i, "reason": "slice under construction (model, theorems and harness are being built; not yet registered)"})
    json.dump(m, open("MANIFEST.json", "w"), indent=1)

if __name__ == "__main__":
    main()
