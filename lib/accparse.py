"""accparse.py — reader and oracle for the `acc` observation (core harness / Model/Accessors.v acc_doc):
every node of a parsed document as the public read API shows it (type_name, is_x flags, as_x payloads,
Item::get by key / index, Array::get, InlineTable::get, doc["k"]).

judge(line, expected_dump) returns None when
  * the flags of every node are exclusive and agree with its type name and payload,
  * the Item-level duplicates of the Value downcasts (Item::as_integer ...) agree with the value's own,
  * every lookup (`@tn`) hands out the node iteration handed out, and one past the end is None,
  * the tree rebuilt from the as_x payloads alone equals the reference decoding of the text
    (same dump format as `doc`'s tree= field),
otherwise a reason."""
import re

VAL_KINDS = ["string", "integer", "float", "boolean", "datetime", "array", "inline_table"]
PFX = {"string": "s:", "integer": "i:", "float": "f:", "boolean": "b:", "datetime": "dt("}


class Bad(Exception):
    pass


class P:
    def __init__(self, s):
        self.s = s; self.i = 0

    def peek(self, n=1):
        return self.s[self.i:self.i + n]

    def eat(self, lit):
        if not self.s.startswith(lit, self.i):
            raise Bad("expected %r at %d: %r" % (lit, self.i, self.s[self.i:self.i + 30]))
        self.i += len(lit)

    def rx(self, pat):
        m = re.compile(pat).match(self.s, self.i)
        if not m:
            raise Bad("expected /%s/ at %d: %r" % (pat, self.i, self.s[self.i:self.i + 30]))
        self.i = m.end()
        return m.group(0)

    def tn(self):
        return self.rx(r"[A-Za-z_]+")

    def payload_item(self):
        if self.peek(3) == "dt(":
            return self.rx(r"dt\([^)]*\)")
        if self.peek(2) == "s:":
            return self.rx(r"s:(-|[0-9a-f]+)")
        if self.peek(2) == "i:":
            return self.rx(r"i:-?[0-9]+")
        if self.peek(2) == "f:":
            return self.rx(r"f:(bits:[0-9a-f]{16}|-?nan|-?inf)")
        if self.peek(2) == "b:":
            return self.rx(r"b:(true|false)")
        if self.peek(2) == "n:":
            return self.rx(r"n:[0-9]+")
        if self.peek(2) == "l:":
            return self.rx(r"l:[0-9]+:[0-9]+e?")
        raise Bad("payload at %d: %r" % (self.i, self.s[self.i:self.i + 30]))

    def head(self):
        tn = self.tn(); self.eat("/")
        flags = self.rx(r"[01]+"); self.eat("/")
        if self.peek() == "-":   # '-' alone = no payload (no payload form starts with it)
            self.i += 1
            return tn, flags, []
        pl = [self.payload_item()]
        while self.peek() == "+":
            self.i += 1
            pl.append(self.payload_item())
        return tn, flags, pl

    def value(self):
        tn, flags, pl = self.head()
        if len(flags) != 7:
            raise Bad("value flags %r" % flags)
        if flags.count("1") != 1 or flags.index("1") != (VAL_KINDS.index(tn) if tn in VAL_KINDS else -1):
            raise Bad("value %s: is_x flags %s are not exactly the flag of its type" % (tn, flags))
        dump = None
        if tn in PFX:
            if len(pl) != 1 or not pl[0].startswith(PFX[tn]):
                raise Bad("value %s: as_x payload %r" % (tn, pl))
            dump = pl[0]
        elems = None
        if self.peek() == "[":
            self.i += 1
            elems = []
            while self.peek() != "]":
                if elems:
                    self.eat(",")
                t, d = self.value(); self.eat("@"); g = self.tn()
                if g != t:
                    raise Bad("Array::get hands out a %s where iteration gave a %s" % (g, t))
                elems.append(d)
            self.i += 1
            dump = "[%s]" % ",".join(elems)
        entries = None
        if self.peek() == "{":
            self.i += 1
            entries = []
            while self.peek() != "}":
                if entries:
                    self.eat(",")
                k = self.rx(r"-|[0-9a-f]+"); self.eat("=")
                t, d = self.value(); self.eat("@"); g = self.tn()
                if g != t:
                    raise Bad("InlineTable::get hands out a %s where iteration gave a %s" % (g, t))
                entries.append("%s=%s" % (k, d))
            self.i += 1
            dump = "{%s}" % ",".join(entries)
        if tn == "array":
            if elems is None or pl != ["n:%d" % len(elems)]:
                raise Bad("array: as_array / len %r with %r elements" % (pl, None if elems is None else len(elems)))
        elif elems is not None:
            raise Bad("%s hands out an array" % tn)
        if tn == "inline_table":
            if entries is None or pl:
                raise Bad("inline table: payload %r" % pl)
        elif entries is not None:
            raise Bad("%s hands out an inline table" % tn)
        self.last_value = (tn, flags, pl)
        return tn, dump

    def item(self):
        """returns (type name, dump) ; dump of an array of tables is A[..]"""
        tn, flags, pl = self.head()
        if len(flags) != 12:
            raise Bad("item flags %r" % flags)
        kind4 = flags[:4]
        if kind4.count("1") != 1:
            raise Bad("item %s: is_none/is_value/is_table/is_array_of_tables = %s" % (tn, kind4))
        dump = None
        if self.peek(2) == "V(":
            self.i += 2
            vt, dump = self.value(); self.eat(")")
            vtn, vflags, vpl = self.last_value
            if kind4 != "0100" or tn != vt:
                raise Bad("item %s holds value %s with kind flags %s" % (tn, vt, kind4))
            tl = [x for x in pl if x.startswith("l:")]
            pl = [x for x in pl if not x.startswith("l:")]
            if vt == "inline_table":
                n = dump.count("=") if False else len(split_top(dump[1:-1]))
                want = "l:%d:%d%s" % (n, n, "e" if n == 0 else "")
                if tl != [want]:
                    raise Bad("inline table with %d entries: TableLike::len / InlineTable::len / is_empty = %r" % (n, tl))
            elif tl:
                raise Bad("%s has a table-like length %r" % (vt, tl))
            if flags[5:] != vflags or pl != vpl:
                raise Bad("Item downcasts (%s %r) differ from the value's own (%s %r)" % (flags[5:], pl, vflags, vpl))
            if (flags[4] == "1") != (vt == "inline_table"):
                raise Bad("is_table_like = %s on a %s" % (flags[4], vt))
        elif self.peek(2) == "T{":
            self.i += 2
            if kind4 != "0010" or tn != "table" or flags[4] != "1" or flags[5:] != "0000000" or len(pl) != 1 or not pl[0].startswith("l:"):
                raise Bad("table head %s %s %r" % (tn, flags, pl))
            table_l = pl[0]
            entries = []
            while self.peek() != "}":
                if entries:
                    self.eat(",")
                k = self.rx(r"-|[0-9a-f]+"); self.eat("=")
                t, d = self.item(); self.eat("@"); g = self.tn()
                if g != t:
                    raise Bad("Item::get(key) hands out a %s where iteration gave a %s" % (g, t))
                entries.append("%s=%s" % (k, d))
            self.i += 1
            n = len(entries)
            if table_l != "l:%d:%d%s" % (n, n, "e" if n == 0 else ""):
                raise Bad("table with %d entries: TableLike::len / Table::len / is_empty = %s" % (n, table_l))
            dump = "T{%s}" % ",".join(entries)
        elif self.peek(2) == "A[":
            self.i += 2
            if kind4 != "0001" or tn != "array_of_tables" or flags[4:] != "00000000" or pl:
                raise Bad("array-of-tables head %s %s %r" % (tn, flags, pl))
            elems = []
            while self.peek() != "]":
                if elems:
                    self.eat(",")
                t, d = self.item(); self.eat("@"); g = self.tn()
                if t != "table" or g != "table":
                    raise Bad("array-of-tables element is a %s, Item::get(i) a %s" % (t, g))
                elems.append(d)
            self.i += 1
            if self.tn() != "NONE":
                raise Bad("Item::get(len) of an array of tables is not None")
            dump = "A[%s]" % ",".join(elems)
        else:
            raise Bad("item %s without content at %d" % (tn, self.i))
        return tn, dump


def judge(line, expect):
    if not line.startswith("ok acc="):
        return "valid document rejected"
    try:
        body, idx = line[len("ok acc="):].split(" idx=")
        p = P(body)
        tn, dump = p.item()
        if p.i != len(body):
            raise Bad("trailing %r" % body[p.i:p.i + 30])
        if tn != "table":
            raise Bad("root is a %s" % tn)
        if dump != expect:
            return "the tree read through as_x accessors differs from the reference decoding"
        # doc["k"] and Item::get(i) on root arrays
        roots = []
        r = P(body); r.head(); r.eat("T{")
        while r.peek() != "}":
            if roots:
                r.eat(",")
            r.rx(r"-|[0-9a-f]+"); r.eat("=")
            t, d = r.item(); r.eat("@"); r.tn()
            roots.append((t, d))
        got = [] if idx == "-" else idx.split("+")
        if len(got) != len(roots):
            raise Bad("doc[k] asked for %d root keys, %d present" % (len(got), len(roots)))
        for g, (t, d) in zip(got, roots):
            gt, gi = g.split(":", 1)
            if gt != t:
                raise Bad("doc[k] hands out a %s where iteration gave a %s" % (gt, t))
            if t == "array":
                want = [elem_tn(e) for e in split_top(d[1:-1])] + ["NONE"]
                if gi.split(",") != want:
                    raise Bad("Item::get(i) on an array: %s, elements are %s" % (gi, ",".join(want)))
            elif gi != "-":
                raise Bad("Item::get(i) on a %s: %s" % (t, gi))
    except Bad as e:
        return str(e)
    return None


def split_top(s):
    out, depth, cur = [], 0, ""
    for ch in s:
        if ch in "[{(":
            depth += 1
        elif ch in "]})":
            depth -= 1
        if ch == "," and depth == 0:
            out.append(cur); cur = ""
        else:
            cur += ch
    if cur:
        out.append(cur)
    return out


def elem_tn(d):
    if d.startswith("s:"): return "string"
    if d.startswith("i:"): return "integer"
    if d.startswith("f:"): return "float"
    if d.startswith("b:"): return "boolean"
    if d.startswith("dt("): return "datetime"
    if d.startswith("["): return "array"
    if d.startswith("{"): return "inline_table"
    return "?"


# ---- accv: toml::Value through its read API (Model/AccessorsToml.v acc_tv) ---------------------------
TV_KINDS = ["string", "integer", "float", "boolean", "datetime", "array", "table"]


def _dump_node(s, i):
    """parse the `doc` tree dump at i; returns (normal form with every table erased to {sorted k=v}, next index)"""
    if s.startswith("T{", i) or s[i] == "{":
        i += 2 if s[i] == "T" else 1
        ents = []
        while s[i] != "}":
            if ents:
                assert s[i] == ","; i += 1
            j = s.index("=", i); k = s[i:j]
            v, i = _dump_node(s, j + 1)
            ents.append((k, v))
        return "{%s}" % ",".join("%s=%s" % kv for kv in sorted(ents)), i + 1
    if s.startswith("A[", i) or s[i] == "[":
        i += 2 if s[i] == "A" else 1
        els = []
        while s[i] != "]":
            if els:
                assert s[i] == ","; i += 1
            v, i = _dump_node(s, i)
            els.append(v)
        return "[%s]" % ",".join(els), i + 1
    j = i
    while j < len(s) and s[j] not in ",]}":
        j += 1
    tok = s[i:j]
    if tok.startswith("f:"):
        tok = "f:?"
    return tok, j


def erase(dump):
    return _dump_node(dump, 0)[0]


def _tv(p):
    tn = p.tn(); p.eat("/")
    flags = p.rx(r"[01]{7}"); p.eat("/")
    same = p.rx(r"[01]{7}"); p.eat("/")
    pl = []
    if p.peek() == "-":
        p.i += 1
    else:
        while True:
            if p.peek(3) == "f:?":
                p.i += 3; pl.append("f:?")
            elif p.peek(2) == "m:":
                pl.append(p.rx(r"m:[0-9]+"))
            else:
                pl.append(p.payload_item())
            if p.peek() != "+":
                break
            p.i += 1
    if tn not in TV_KINDS or flags.count("1") != 1 or flags.index("1") != TV_KINDS.index(tn):
        raise Bad("toml::Value %s: is_x flags %s" % (tn, flags))
    if same != flags:
        raise Bad("toml::Value %s: same_type against the seven kinds gives %s" % (tn, same))
    if tn == "array":
        p.eat("[")
        els = []
        while p.peek() != "]":
            if els:
                p.eat(",")
            t, d = _tv(p); p.eat("@"); g = p.tn()
            if g != t:
                raise Bad("Value::get(i) hands out a %s where iteration gave a %s" % (g, t))
            els.append(d)
        p.i += 1
        if p.tn() != "NONE":
            raise Bad("Value::get(len) of an array is not None")
        if pl != ["n:%d" % len(els)]:
            raise Bad("array payload %r with %d elements" % (pl, len(els)))
        return tn, "[%s]" % ",".join(els)
    if tn == "table":
        p.eat("{")
        ents = []
        while p.peek() != "}":
            if ents:
                p.eat(",")
            k = p.rx(r"-|[0-9a-f]+"); p.eat("=")
            t, d = _tv(p); p.eat("@"); g = p.tn()
            if g != t:
                raise Bad("Value::get(key) hands out a %s where iteration gave a %s" % (g, t))
            ents.append((k, d))
        p.i += 1
        p.eat("r=")
        back = p.rx(r"[-0-9a-f+]*")
        p.eat("x=")
        alt = p.rx(r"[-0-9a-f+]*")
        keys = [k for k, _ in ents]
        want_back = "+".join(reversed(keys)) if keys else "-"
        a, lo, hi = [], 0, len(keys) - 1
        while lo <= hi:
            a.append(keys[lo]); lo += 1
            if lo <= hi:
                a.append(keys[hi]); hi -= 1
        want_alt = "+".join(a) if a else "-"
        if back != want_back:
            raise Bad("a Map read from the back gives %s, forwards %s" % (back, "+".join(keys)))
        if alt != want_alt:
            raise Bad("a Map read alternately from both ends gives %s, expected %s" % (alt, want_alt))
        if pl != ["m:%d" % len(ents)]:
            raise Bad("table payload %r with %d entries" % (pl, len(ents)))
        return tn, "{%s}" % ",".join("%s=%s" % kv for kv in sorted(ents))
    want = {"string": "s:", "integer": "i:", "float": "f:", "boolean": "b:", "datetime": "dt("}[tn]
    if len(pl) != 1 or not pl[0].startswith(want):
        raise Bad("toml::Value %s: as_x payload %r" % (tn, pl))
    return tn, pl[0]


def judge_tv(line, expect):
    if not line.startswith("ok accv="):
        return "valid document rejected by toml::from_str::<Value>"
    try:
        body = line[len("ok accv="):]
        p = P(body)
        tn, d = _tv(p)
        if p.i != len(body):
            raise Bad("trailing %r" % body[p.i:p.i + 30])
        if tn != "table":
            raise Bad("root is a %s" % tn)
        if d != erase(expect):
            return "the toml::Value read through as_x accessors differs from the reference decoding"
    except Bad as e:
        return str(e)
    return None
