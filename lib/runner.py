"""runner.py — the verdict logic common to all property checks (DESIGN.md 2.3).

A property module provides:
  PROP, TITLE
  COQ_PROPS      "Props/C12.v"     (the file holding only Theorem/exact/Print Assumptions)
  HARNESS        dict(profile=..., features=...) optional
  gen_cases(rng, tier)  -> list of Case(cmd, args, meta)
  oracle(case, impl_line) -> None | reason      (the property itself, judged on the IMPLEMENTATION)
  nontrivial(case, impl_line) -> bool
  compare(case, model_line, impl_line) -> None | reason   (optional; default: equal lines)
  known_class(case, impl_line) -> finding id | None       (optional)
  search(rng, ctx) -> list of extra Cases                 (optional; model-guided search)
  shrink(case, fails) -> case                             (optional)
  THEOREMS       short description list for evidence
"""
import collections, json, os, random, sys, time

from common import *
import floatnorm


class Case:
    __slots__ = ("cmd", "args", "meta")

    def __init__(self, cmd, args, meta=None):
        self.cmd, self.args, self.meta = cmd, [bytes(a) for a in args], meta or {}

    def line(self):
        return case_line(self.cmd, self.args)

    def to_json(self):
        return {"cmd": self.cmd, "args_hex": [hexarg(a) for a in self.args],
                "args_text": [a.decode("utf-8", "replace") for a in self.args], "meta": self.meta}

    @staticmethod
    def from_json(j):
        return Case(j["cmd"], [bytes.fromhex(a) if a != "-" else b"" for a in j["args_hex"]], j.get("meta"))


def default_compare(case, model_line, impl_line):
    if floatnorm.norm(model_line) == impl_line:
        return None
    return "model and implementation differ"


def theorem_names(P):
    """the names of the theorems in the Props files this check compiles and audits (read off the files on this run)"""
    import re as _re
    out = {}
    for f in [P.COQ_PROPS] + list(getattr(P, "COQ_PROPS_EXTRA", [])):
        try:
            text = open(os.path.join(COQ, f), encoding="utf-8").read()
        except OSError:
            continue
        out[f] = _re.findall(r"^Theorem\s+([A-Za-z0-9_']+)", text, _re.M)
    return out


def is_crash(line):
    return line is None or line.startswith("PANIC") or line.startswith("CRASH") or line == "TIMEOUT"


def evaluate(P, cases, harness, driver, want_model=True):
    lines = [c.line() for c in cases]
    impl = run_lines(harness, lines)
    model = run_lines(driver, lines) if (want_model and driver) else [None] * len(lines)
    return impl, model


def run_check(P, tier, seed, replay=None):
    t0 = time.time()
    rng = random.Random(seed)
    prop = P.PROP
    evid = getattr(P, "EVIDENCE_ID", prop)     # file names of evidence / replay / regression corpus (parts of one property differ here)
    part = getattr(P, "PART", None)            # known_findings entries may name the part (module) that can replay them
    broken = []          # (kind, detail, log)
    notes = []
    hp = getattr(P, "HARNESS", {})
    profile, features = hp.get("profile", "release"), tuple(hp.get("features", ()))
    bin_name = hp.get("bin", "core")
    driver_name = getattr(P, "DRIVER_NAME", "core")
    vo = P.COQ_PROPS[:-2] + ".vo"
    n_thm = n_ok = 0
    axioms_used = []
    with build_lock():
        r = gen_consts()
        if not r.ok:
            broken.append(("consts", r.detail, ""))
        # first bring every dependency up to date, then rebuild the Props file alone so that the captured output holds
        # exactly its own Print Assumptions blocks (a dependency that is itself a Props file would add its blocks)
        r = coq_make([vo])
        if r.ok:
            r = coq_make([vo], force=[vo])
        if not r.ok:
            broken.append(("proof", r.detail, r.out[-4000:]))
        else:
            n_thm, n_ok, probs, axioms_used = audit_assumptions(r.out, P.COQ_PROPS)
            for p_ in probs:
                broken.append(("assumptions", p_, ""))
        # further theorem files of the same property (each built and audited separately, one make call per file so that
        # the Print Assumptions blocks can be attributed)
        for extra_props in getattr(P, "COQ_PROPS_EXTRA", []):
            evo = extra_props[:-2] + ".vo"
            re_ = coq_make([evo])
            if re_.ok:
                re_ = coq_make([evo], force=[evo])
            if not re_.ok:
                broken.append(("proof", re_.detail, re_.out[-4000:]))
                r = re_
                continue
            t_, k_, probs, ax_ = audit_assumptions(re_.out, extra_props)
            n_thm += t_; n_ok += k_
            axioms_used = sorted(set(axioms_used) | set(ax_))
            for p_ in probs:
                broken.append(("assumptions", "%s: %s" % (extra_props, p_), ""))
        chk_note = None
        if tier == "thorough" and r.ok:
            rc_ = coqchk([P.COQ_PROPS] + list(getattr(P, "COQ_PROPS_EXTRA", [])))
            chk_note = rc_.detail
            if not rc_.ok:
                broken.append(("coqchk", rc_.detail, rc_.out[-3000:]))
        bad = audit_sources()
        for b in bad:
            broken.append(("forbidden-vernacular", b, ""))
        rd = build_driver(driver_name)
        driver = driver_bin(driver_name) if rd.ok else None
        if not rd.ok:
            broken.append(("model-build", rd.detail, rd.out[-4000:]))
        rh = build_harness(profile, features, bin_name=bin_name)
        if not rh.ok:
            broken.append(("harness-build", rh.detail, rh.out[-4000:]))
        extra_bins = {}
        for name, (pf, ft) in getattr(P, "EXTRA_HARNESS", {}).items():
            rx = build_harness(pf, tuple(ft), bin_name=bin_name)
            if not rx.ok:
                broken.append(("harness-build", rx.detail + " [%s]" % name, rx.out[-4000:]))
            extra_bins[name] = harness_bin(pf, tuple(ft), bin_name)
    harness = harness_bin(profile, features, bin_name)
    P.BINS = dict(extra_bins, main=harness)
    # property-specific ties that are regenerated / re-evaluated on every run (the panic-site inventory, the Coq vs python
    # normaliser cross-check, ...): a failing one is a broken obligation
    P.DRIVER_BIN = driver
    for kind_, detail_ in getattr(P, "obligations", lambda: [])():
        broken.append((kind_, detail_, ""))

    if not rh.ok:
        # nothing can be observed on the implementation
        path = write_replay(evid, seed, {"property": prop, "broken": [b[:2] for b in broken], "log": broken[-1][2]})
        write_evidence(evid, tier, seed, {"obligations": max(n_thm, 1), "discharged": n_ok, "checker_cmd": "make " + vo,
                                          "trusted_base": TRUSTED_BASE, "evaluations": 0, "distinct_nontrivial": 0,
                                          "explanation": "harness did not build"}, [], time.time() - t0, 1)
        log("VIOLATION property=%s replay=%s no-failing-input-found" % (prop, path))
        return 1

    if replay:
        data = json.load(open(replay))
        cases = [Case.from_json(j) for j in data.get("cases", [])]
        impl, model = evaluate(P, cases, harness, driver)
        bad = 0
        for c, il, ml in zip(cases, impl, model):
            why = P.oracle(c, il) if not is_crash(il) else "crash: %s" % il
            log("replay %s\n  impl : %s\n  model: %s\n  oracle: %s" % (c.to_json()["args_text"], il, ml, why or "ok"))
            bad += 1 if why else 0
        if data.get("broken"):
            log("replay: broken obligations recorded: %s" % data["broken"])
        return 1 if bad else 0

    # ---- generate and run ----------------------------------------------------------------
    cases = list(P.gen_cases(rng, tier))
    # regression corpus first
    corp = os.path.join(VERIF, "corpus", "regressions", evid + ".jsonl")
    if os.path.exists(corp):
        pre = [Case.from_json(json.loads(l)) for l in open(corp) if l.strip()]
        cases = pre + cases
    impl, model = evaluate(P, cases, harness, driver)
    compare = getattr(P, "compare", default_compare)
    _module_class = getattr(P, "known_class", lambda c, l: None)
    _listed = {e["id"] for e in known_findings(prop) if e.get("kind") == "known"}

    def known_class(c, l):
        # a classifier may only excuse what the COMMITTED known_findings.json lists for this property: a class name the file
        # does not carry excuses nothing (the case is reported like any other violation)
        k = _module_class(c, l)
        return k if k in _listed else None
    failures, divergences, known_seen = [], [], collections.Counter()
    distinct = set()
    hist = collections.Counter()
    for c, il, ml in zip(cases, impl, model):
        if is_crash(il):
            why = "implementation crashed: %s" % il
        else:
            why = P.oracle(c, il)
        if why:
            k = known_class(c, il)
            if k:
                known_seen[k] += 1
            else:
                failures.append((c, il, ml, why))
        if driver and ml is not None:
            d = compare(c, ml, il)
            if d and not (why and known_class(c, il)):
                divergences.append((c, il, ml, d))
        if not is_crash(il) and P.nontrivial(c, il):
            distinct.add(c.line())
        hist[c.meta.get("kind", c.cmd)] += 1

    # ---- additional builds of the harness (debug+overflow checks, other features): same oracle ----
    for name in getattr(P, "EXTRA_ORACLE", []):
        xb = extra_bins.get(name)
        if not xb or not os.path.exists(xb):
            continue
        sel = [c for c in cases if getattr(P, "extra_select", lambda c, n: True)(c, name)]
        xi = run_lines(xb, [c.line() for c in sel])
        for c, il in zip(sel, xi):
            why = "implementation crashed [%s build]: %s" % (name, il) if is_crash(il) else P.oracle(c, il)
            if why:
                k = known_class(c, il)
                if k:
                    known_seen[k] += 1
                else:
                    failures.append((Case(c.cmd, c.args, dict(c.meta, build=name)), il, None, "[%s build] %s" % (name, why)))
        hist["extra:" + name] += len(sel)

    # ---- known findings: replay witnesses -------------------------------------------------
    kf_lines = []
    for e in known_findings(prop):
        if e.get("kind") != "known":
            continue
        if e.get("part") != part:
            continue               # replayed (and printed) by the part of the check that owns its witness
        wc = [Case.from_json(j) for j in e.get("witness_cases", [])]
        if wc:
            wbin = extra_bins.get(e.get("witness_build"), harness) if e.get("witness_build") else harness
            wi, _ = evaluate(P, wc, wbin, None, want_model=False)
            still = any((is_crash(l) or P.oracle(c, l)) for c, l in zip(wc, wi))
        else:
            still = True
        kf_lines.append("KNOWN-FINDING: property=%s %s %s%s" % (prop, e["id"], e["what"],
                                                                "" if still else " (witness no longer fails)"))

    violation = None
    found_by = None
    if failures:
        c, il, ml, why = failures[0]
        if hasattr(P, "shrink"):
            c, il, why = P.shrink(c, il, why, lambda cs: evaluate(P, cs, harness, None, want_model=False)[0])
        violation = {"property": prop, "reason": why, "cases": [c.to_json()], "impl": il, "model": ml,
                     "n_failures": len(failures), "broken": [b[:2] for b in broken]}
        found_by = "oracle"
    elif broken or divergences:
        # something the property is shown by no longer checks: search for a failing input
        ctx = {"broken": broken, "divergences": divergences, "harness": harness, "driver": driver}
        extra = []
        # the diverging cases themselves and their neighbourhood first
        if hasattr(P, "search"):
            extra = list(P.search(random.Random(seed + 1), ctx))
        found = None
        if extra:
            ei, _ = evaluate(P, extra, harness, None, want_model=False)
            for c, il in zip(extra, ei):
                why = "implementation crashed: %s" % il if is_crash(il) else P.oracle(c, il)
                if why and not known_class(c, il):
                    found = (c, il, why)
                    break
        if found:
            c, il, why = found
            if hasattr(P, "shrink"):
                c, il, why = P.shrink(c, il, why, lambda cs: evaluate(P, cs, harness, None, want_model=False)[0])
            violation = {"property": prop, "reason": why, "cases": [c.to_json()], "impl": il,
                         "broken": [b[:2] for b in broken], "found_by": "search after broken obligation"}
            found_by = "search"
        else:
            what = []
            for k, d, lg in broken:
                what.append({"kind": k, "detail": d, "log_tail": lg[-1500:]})
            div = [{"case": c.to_json(), "impl": il, "model": ml, "why": d} for c, il, ml, d in divergences[:5]]
            violation = {"property": prop, "no_failing_input_found": True,
                         "no_longer_checks": what or [{"kind": "correspondence", "detail": "model and implementation disagree on %d generated cases" % len(divergences)}],
                         "theorems": getattr(P, "THEOREMS", []),
                         "first_divergences": div, "cases": [d["case"] for d in div],
                         "searched_cases": len(extra)}
            found_by = "none"

    # ---- evidence -------------------------------------------------------------------------
    samples = [c.to_json()["args_text"] + [il] for c, il in list(zip(cases, impl))[:3]]
    step = max(1, len(cases) // 5)
    samples += [cases[i].to_json()["args_text"] + [impl[i]] for i in range(0, len(cases), step)][:5]
    cov = {
        "obligations": max(n_thm, 1), "discharged": n_ok if not [b for b in broken if b[0] in ("proof", "assumptions", "forbidden-vernacular", "consts")] else 0,
        "checker_cmd": "cd coq && make -j%d %s  (Props file recompiled on every run; Print Assumptions audited)" % (CPUS, vo),
        "trusted_base": TRUSTED_BASE + getattr(P, "TRUSTED_EXTRA", []),
        "theorems": getattr(P, "THEOREMS", []),
        "theorem_names": theorem_names(P),
        "axioms_used": axioms_used,
        "coqchk": chk_note if tier == "thorough" else "not run in the quick tier",
        "evaluations": len(cases), "distinct_nontrivial": len(distinct),
        "rule": getattr(P, "RULE", ""),
        "samples": samples,
        "traces_validated_against_impl": sum(1 for m in model if m is not None),
        "model_impl_divergences": len(divergences),
        "oracle_failures": len(failures),
        "case_kinds": dict(hist),
        "known_findings_seen": dict(known_seen),
        "broken_obligations": [b[:2] for b in broken],
    }
    if hasattr(P, "extra_coverage"):
        cov.update(P.extra_coverage(cases, impl, model))
    write_evidence(evid, tier, seed, cov, getattr(P, "ASSUMPTIONS", []), time.time() - t0, 1 if violation else 0)

    for l in kf_lines:
        log(l)
    log("%s: %d cases, %d distinct non-trivial, %d theorems (%d closed), %d divergences, %d oracle failures, %.1fs"
        % (prop, len(cases), len(distinct), n_thm, n_ok, len(divergences), len(failures), time.time() - t0))
    if violation:
        path = write_replay(evid, seed, violation)
        if found_by == "none":
            log("VIOLATION property=%s replay=%s no-failing-input-found" % (prop, path))
        else:
            log("VIOLATION property=%s replay=%s" % (prop, path))
        return 1
    return 0
