#!/usr/bin/env python3
"""lab.py — run the registered checks against a candidate change to toml-rs/toml WITHOUT touching /repo.

A "lab" is a scratch worktree of /repo plus a copy of /verif whose harness crates point at that worktree
(VERIF_REPO is honoured by lib/common.py and lib/gen_consts.py).  It exists so that seeded changes can be
evaluated while other work (which rebuilds the harness against /repo) goes on; the final confirmation of a
kept change is still done the documented way (git -C /repo apply; ./check; git -C /repo checkout -- .).

  lab.py sync [name]                 create / refresh the lab from /verif's working tree and /repo's HEAD
  lab.py try <patch> <Cxx>... [--name n] [--tier quick]
                                     apply the patch in the lab worktree, run the checks, undo; prints one line per check
  lab.py drop [name]                 remove the lab (worktree + copy + build output)
"""
import os, subprocess, sys, shutil

ROOT = "/root/lab"


def sh(cmd, **kw):
    return subprocess.run(cmd, shell=isinstance(cmd, str), stdout=subprocess.PIPE, stderr=subprocess.STDOUT, text=True, **kw)


def paths(name):
    base = os.path.join(ROOT, name)
    return base, os.path.join(base, "repo"), os.path.join(base, "verif")


def sync(name):
    base, repo, verif = paths(name)
    os.makedirs(base, exist_ok=True)
    if not os.path.isdir(repo):
        r = sh(["git", "-C", "/repo", "worktree", "add", "--detach", repo, "HEAD"])
        if r.returncode != 0:
            print(r.stdout); sys.exit(1)
    else:
        sh(["git", "-C", repo, "checkout", "--detach", "-q", sh(["git", "-C", "/repo", "rev-parse", "HEAD"]).stdout.strip()])
        sh(["git", "-C", repo, "checkout", "--", "."])
    os.makedirs(verif, exist_ok=True)
    r = sh(["rsync", "-a", "--delete", "--exclude", ".git", "--exclude", "harness/target*", "--exclude", "harness_cfg/target*",
            "--exclude", "harness_macro/target*", "--exclude", "replay/*", "--exclude", "evidence/*", "--exclude", "build/.lock",
            "/verif/", verif + "/"])
    if r.returncode != 0:
        print(r.stdout); sys.exit(1)
    for d in ("harness", "harness_cfg", "harness_macro"):
        f = os.path.join(verif, d, "Cargo.toml")
        if os.path.exists(f):
            s = open(f).read().replace('"/repo/crates', '"%s/crates' % repo)
            open(f, "w").write(s)
    os.makedirs(os.path.join(verif, "evidence"), exist_ok=True)
    os.makedirs(os.path.join(verif, "replay"), exist_ok=True)
    print("lab %s ready: %s" % (name, base))


def try_(name, patch, props, tier):
    base, repo, verif = paths(name)
    sh(["git", "-C", repo, "checkout", "--", "."])
    sh(["git", "-C", repo, "clean", "-fdq", "crates"])
    r = sh(["git", "-C", repo, "apply", os.path.abspath(patch)])
    if r.returncode != 0:
        print("patch does not apply:", r.stdout); return 2
    env = dict(os.environ, VERIF_REPO=repo, VERIF_TIER=tier)
    rc_all = 0
    for p in props:
        r = sh(["./check", p, "--tier", tier], cwd=verif, env=env)
        out_lines = r.stdout.splitlines()
        lines = [l for l in out_lines if l.startswith("VIOLATION") or l.startswith(p + ":")]
        nk = sum(1 for l in out_lines if l.startswith("KNOWN-FINDING"))
        print("%s exit=%d %s | known-findings=%d" % (p, r.returncode, " | ".join(lines)[:900], nk))
        if r.returncode not in (0, 1):
            print(r.stdout[-2000:])
        rc_all |= r.returncode
    sh(["git", "-C", repo, "checkout", "--", "."])
    sh(["git", "-C", repo, "clean", "-fdq", "crates"])
    return rc_all


def drop(name):
    base, repo, verif = paths(name)
    sh(["git", "-C", "/repo", "worktree", "remove", "--force", repo])
    shutil.rmtree(base, ignore_errors=True)
    sh(["git", "-C", "/repo", "worktree", "prune"])


def main(a):
    name = "main"
    if "--name" in a:
        i = a.index("--name"); name = a[i + 1]; del a[i:i + 2]
    tier = "quick"
    if "--tier" in a:
        i = a.index("--tier"); tier = a[i + 1]; del a[i:i + 2]
    if not a:
        print(__doc__); return 2
    if a[0] == "sync":
        sync(a[1] if len(a) > 1 else name); return 0
    if a[0] == "drop":
        drop(a[1] if len(a) > 1 else name); return 0
    if a[0] == "try":
        return try_(name, a[1], a[2:], tier)
    print(__doc__); return 2


if __name__ == "__main__":
    sys.exit(main(sys.argv[1:]))
