"""toml_text.py — text-level reference functions that do not depend on any TOML parser:
the six-state scanner of DESIGN.md 3.5 (normal | comment | basic | literal | ml_basic |
ml_literal) used for `normalize` (C03) and for extracting comments; ABNF byte classes."""

BOM = b"\xef\xbb\xbf"


def scan(text):
    """yield (state, byte_index) for every byte; also collects comments.
    Returns (states list, comments list).  Only meaningful on valid documents."""
    s = text
    n = len(s)
    states = [None] * n
    comments = []
    i = 0
    st = "normal"
    cstart = None
    while i < n:
        c = s[i]
        if st == "normal":
            if c == 0x23:
                st = "comment"; cstart = i; states[i] = "comment"; i += 1
            elif s[i:i + 3] == b'"""':
                states[i] = states[i + 1] = states[i + 2] = "normal"; st = "ml_basic"; i += 3
            elif s[i:i + 3] == b"'''":
                states[i] = states[i + 1] = states[i + 2] = "normal"; st = "ml_literal"; i += 3
            elif c == 0x22:
                states[i] = "normal"; st = "basic"; i += 1
            elif c == 0x27:
                states[i] = "normal"; st = "literal"; i += 1
            else:
                states[i] = "normal"; i += 1
        elif st == "comment":
            if c == 0x0a or (c == 0x0d and s[i + 1:i + 2] == b"\n"):
                comments.append(s[cstart:i]); st = "normal"
            else:
                states[i] = "comment"; i += 1
        elif st == "basic":
            if c == 0x5c and i + 1 < n:
                states[i] = states[i + 1] = "basic"; i += 2
            elif c == 0x22:
                states[i] = "normal"; st = "normal"; i += 1
            else:
                states[i] = "basic"; i += 1
        elif st == "literal":
            if c == 0x27:
                states[i] = "normal"; st = "normal"; i += 1
            else:
                states[i] = "literal"; i += 1
        elif st == "ml_basic":
            if c == 0x5c and i + 1 < n:
                states[i] = states[i + 1] = "ml_basic"; i += 2
            elif s[i:i + 3] == b'"""':
                # up to two quotes may belong to the body: the delimiter is the LAST three of the run
                j = i
                while j < n and s[j] == 0x22:
                    j += 1
                run = j - i
                body_q = min(run - 3, 2)
                for k in range(i, i + body_q):
                    states[k] = "ml_basic"
                for k in range(i + body_q, i + body_q + 3):
                    states[k] = "normal"
                i = i + body_q + 3
                st = "normal"
            else:
                states[i] = "ml_basic"; i += 1
        elif st == "ml_literal":
            if s[i:i + 3] == b"'''":
                j = i
                while j < n and s[j] == 0x27:
                    j += 1
                run = j - i
                body_q = min(run - 3, 2)
                for k in range(i, i + body_q):
                    states[k] = "ml_literal"
                for k in range(i + body_q, i + body_q + 3):
                    states[k] = "normal"
                i = i + body_q + 3
                st = "normal"
            else:
                states[i] = "ml_literal"; i += 1
    if st == "comment":
        comments.append(s[cstart:])
    return states, comments


def normalize(text):
    """drop a leading BOM; delete every CR outside multi-line string bodies; append LF if the
    text does not end in a newline and its last logical line contains a statement."""
    s = text[len(BOM):] if text.startswith(BOM) else text
    states, _ = scan(s)
    out = bytearray()
    for i, c in enumerate(s):
        if c == 0x0d and states[i] not in ("ml_basic", "ml_literal"):
            continue
        out.append(c)
    out = bytes(out)
    # last logical line: after the last newline that is outside multi-line strings
    last_nl = -1
    for i, c in enumerate(s):
        if c == 0x0a and states[i] not in ("ml_basic", "ml_literal"):
            last_nl = i
    tail = s[last_nl + 1:]
    tstates = states[last_nl + 1:]
    has_stmt = False
    for c, stt in zip(tail, tstates):
        if stt == "comment":
            break
        if c not in (0x20, 0x09, 0x0d):
            has_stmt = True
            break
    if has_stmt and not out.endswith(b"\n"):
        out += b"\n"
    return out


def comments(text):
    return sorted(c.replace(b"\r", b"") for c in scan(text)[1])


# ---- ABNF byte classes of toml.abnf v1.0.0 (bytes; >= 0x80 stands for non-ascii, which on
# valid UTF-8 text is exactly %x80-D7FF / %xE000-10FFFF) ---------------------------------------
def _cls(*ranges):
    s = set()
    for r in ranges:
        if isinstance(r, int):
            s.add(r)
        else:
            s.update(range(r[0], r[1] + 1))
    return frozenset(s)


NON_ASCII = (0x80, 0xff)
ABNF = {
    "wschar": _cls(0x20, 0x09),
    "non-eol": _cls(0x09, (0x20, 0x7e), NON_ASCII),                      # comment body
    "basic-unescaped": _cls(0x20, 0x09, 0x21, (0x23, 0x5b), (0x5d, 0x7e), NON_ASCII),
    "mlb-unescaped": _cls(0x20, 0x09, 0x21, (0x23, 0x5b), (0x5d, 0x7e), NON_ASCII),
    "literal-char": _cls(0x09, (0x20, 0x26), (0x28, 0x7e), NON_ASCII),
    "mll-char": _cls(0x09, (0x20, 0x26), (0x28, 0x7e), NON_ASCII),
    "unquoted-key-char": _cls((0x41, 0x5a), (0x61, 0x7a), (0x30, 0x39), 0x2d, 0x5f),
    "escape-seq-char": _cls(0x22, 0x5c, 0x62, 0x66, 0x6e, 0x72, 0x74, 0x75, 0x55),
    "digit": _cls((0x30, 0x39)),
    "hexdig": _cls((0x30, 0x39), (0x41, 0x46), (0x61, 0x66)),
    "octdig": _cls((0x30, 0x37)),
    "bindig": _cls((0x30, 0x31)),
}
