"""C18 — Cargo feature choices change performance or ordering only, never results.

A fixed deterministic battery (seed-independent) of documents and API build scripts is run through
/verif/harness_cfg built under every feature configuration of the matrix; each configuration must BUILD, and
every observation a configuration can serve (verdict, decoded tree, printed text, toml::Value decoding and
Display) must equal the default configuration's, with the two documented exceptions:
  * preserve_order: toml::Table iterates/prints in insertion order (the key-sorted dump must still be equal,
    and without the feature the iteration order IS the sorted order);
  * unbounded: documents nested at or beyond the recursion limit are accepted.
The default configuration's observations are additionally tied to the extracted model (`doc`).
The Coq half (Props/C18.v) proves on the map models that the two Map configurations differ in order only.
`perf` (kstring) has no counterpart in the model: it is a representation swap, and "this build behaves like
the default build" is exactly what is checked.  "Every configuration builds" is a build result, not a theorem.
"""
import os, random, subprocess, hashlib
import common
from runner import Case
import gen_toml as G

PROP = "C18"
COQ_PROPS = "Props/C18.v"
THEOREMS = ["C18_map_same_content / C18_map_same_outputs / C18_map_iteration_is_a_permutation (Props/C18.v)"]
RULE = ("fixed battery of generated valid/invalid documents, nesting around the limit, and API build scripts x feature "
        "configurations; non-trivial = battery line that at least two configurations can serve")
ASSUMPTIONS = ["cargo feature resolution and the builds themselves are trusted; perf (kstring) is compared behaviourally only"]

CFG_DIR = os.path.join(common.VERIF, "harness_cfg")
BASE = ["te_parse", "te_display", "te_serde", "t_parse", "t_display"]
QUICK = [
    ("default", BASE),
    ("perf", BASE + ["te_perf"]),
    ("preserve_order", BASE + ["t_po"]),
    ("perf+preserve_order", BASE + ["te_perf", "t_po"]),
    ("edit-parse-only", ["te_parse"]),
    ("edit-display-only", ["te_display"]),
    ("toml-parse-only", ["t_parse"]),
    ("toml-display-only", ["t_display"]),
    ("unbounded", BASE + ["te_unbounded"]),
]
THOROUGH = QUICK + [
    ("no-serde", ["te_parse", "te_display"]),
    ("edit-parse-only+perf", ["te_parse", "te_perf"]),
    ("edit-display-only+perf", ["te_display", "te_perf"]),
    ("edit-parse-only+serde", ["te_parse", "te_serde"]),
    ("edit-display-only+serde", ["te_display", "te_serde"]),
    ("toml-parse-only+po", ["t_parse", "t_po"]),
    ("toml-display-only+po", ["t_display", "t_po"]),
    ("toml-bare", ["t"]),
    ("toml-bare+po", ["t", "t_po"]),
    ("perf+unbounded", BASE + ["te_perf", "te_unbounded"]),
    ("everything", BASE + ["te_perf", "t_po", "te_unbounded"]),
]


def build(name, feats):
    lock = os.path.join(CFG_DIR, "Cargo.lock")
    src = os.path.join(common.REPO, "Cargo.lock")
    if not os.path.exists(lock) or open(lock, "rb").read() != open(src, "rb").read():
        open(lock, "wb").write(open(src, "rb").read())
    tdir = "target-" + hashlib.sha1(",".join(sorted(feats)).encode()).hexdigest()[:10]
    cmd = ["cargo", "build", "--offline", "--release", "--target-dir", tdir]
    if feats:
        cmd += ["--features", ",".join(feats)]
    rc, out, dt = common.sh(cmd, cwd=CFG_DIR, timeout=1500)
    return rc == 0, os.path.join(CFG_DIR, tdir, "release", "verif-harness-cfg"), out


def battery():
    rng = random.Random(20260927)       # fixed: the battery does not depend on VERIF_SEED
    lines = []
    meta = []
    for _ in range(2500):
        tg = G.TreeGen(rng, small_keys=rng.random() < 0.3)
        st = tg.statements(tg.tree())
        if rng.random() < 0.25:
            st = tg.perturb(st)
        t = G.Renderer(rng).document(st)
        if b"$__" in t:
            continue
        lines.append(("p", t)); meta.append({"kind": "doc", "deep": False})
        lines.append(("tp", t)); meta.append({"kind": "toml-doc", "deep": False})
    # documents whose headers come in every order (a deep header first makes its super-tables implicit; they are re-opened
    # later, between siblings): under preserve_order the iteration order of toml::Table must be the DOCUMENT order (order of
    # first mention at each level), which the reference interpreter computes independently
    import itertools

    def po_dump(t):
        parts = []
        for k, n in t.items:
            parts.append(k.hex() + "=" + ("i:%d" % n.v[1] if isinstance(n, G.Val) else po_dump(n)))
        return "{" + ",".join(parts) + "}"
    trees = [
        [(b"p",), (b"p", b"a"), (b"p", b"a", b"b")],
        [(b"a", b"b", b"c"), (b"a", b"x"), (b"a", b"y"), (b"a", b"z"), (b"a", b"b")],
        [(b"p",), (b"p", b"a", b"b"), (b"q",), (b"p", b"c"), (b"p", b"a")],
        [(b"server", b"tls"), (b"client",), (b"database",), (b"logging",), (b"server",)],
        [(b"t", b"u", b"v", b"w"), (b"t",), (b"t", b"u"), (b"t", b"u", b"v")],
    ]
    for paths in trees:
        perms = list(itertools.permutations(range(len(paths))))
        if len(perms) > 40:
            perms = rng.sample(perms, 40)
        for perm in perms:
            st = []
            for hi in perm:
                st.append(("hdr", list(paths[hi])))
                for j in range(rng.choice([0, 1, 2])):
                    st.append(("kv", [b"k%d%d" % (hi, j)], ("i", j)))
            v = G.ref_eval(st)
            if v[0] != "valid":
                continue
            t = G.Renderer(rng, plain=True).document(st)
            lines.append(("tp", t)); meta.append({"kind": "header-order", "deep": False, "expect_order": po_dump(v[1])})
    for n in (10, 78, 79, 80, 81, 120):
        t = b"a = " + b"[" * n + b"]" * n + b"\n"
        lines.append(("p", t)); meta.append({"kind": "nesting", "deep": n >= 80})
        t = b"a = " + b"{k = " * n + b"1" + b"}" * n + b"\n"
        lines.append(("p", t)); meta.append({"kind": "nesting", "deep": n >= 80})
        lines.append(("tp", t)); meta.append({"kind": "nesting", "deep": n >= 80})
    # key paths around and beyond the limit: dotted key, [header], [[header]], dotted key inside an inline table
    for n in (10, 78, 79, 80, 81, 120):
        path = b".".join(b"k%d" % i for i in range(n))
        for t in (path + b" = 1\n", b"[" + path + b"]\nx = 1\n", b"[[" + path + b"]]\nx = 1\n", b"a = { " + path + b" = 1 }\n"):
            lines.append(("p", t)); meta.append({"kind": "key-path", "deep": n >= 78})
            lines.append(("tp", t)); meta.append({"kind": "key-path", "deep": n >= 78})
    for _ in range(600):
        parts = []
        used = set()
        tg = G.TreeGen(rng)
        in_table = False
        for _k in range(rng.randrange(1, 8)):
            k = tg.key()
            if k in used:
                continue
            used.add(k)
            ty = rng.choice("SIBFA" + ("T" if not in_table else ""))
            kh = k.hex() if k else "-"
            if ty == "S":
                s = tg.string()
                parts.append("S:%s:%s" % (kh, s.hex() if s else "-"))
            elif ty == "I":
                parts.append("I:%s:%d" % (kh, tg.integer()))
            elif ty == "B":
                parts.append("B:%s:%d" % (kh, rng.randrange(2)))
            elif ty == "F":
                parts.append("F:%s:%016x" % (kh, rng.choice([0, 1 << 63, 0x3ff0000000000000, 0x7ff0000000000000, 0xfff0000000000000,
                                                               0x7ff8000000000000, 0x400921fb54442d18, rng.getrandbits(64)])))
            elif ty == "A":
                parts.append("A:%s:%d" % (kh, rng.randrange(0, 5)))
            else:
                parts.append("T:%s" % kh)
                in_table = True
                used = set()
        lines.append(("b", ";".join(parts).encode())); meta.append({"kind": "build", "deep": False})
    return lines, meta


def field(line, name):
    for part in line.split(" "):
        if part.startswith(name + "="):
            return part[len(name) + 1:]
    return None


def compare_cfg(name, feats, base, got, m):
    """None if `got` (a configuration's line) is consistent with `base` (default's line)"""
    if got == "skip" or base == "skip":
        return None
    if got == "PANIC":
        return "panic under configuration %s" % name
    if "te_unbounded" in feats and m["deep"]:
        # documented exception: `unbounded` removes the recursion limit — every one of these (valid) documents is then accepted
        if got.split(" ")[0] != "ok":
            return "a valid document nested beyond the limit is rejected under %s, which is documented to remove the limit" % name
        return None
    if got.split(" ")[0] != base.split(" ")[0]:
        return "verdict differs under %s: %s vs default %s" % (name, got.split(" ")[0], base.split(" ")[0])
    if field(got, "eq") == "false":
        return "a table rebuilt with its entries inserted in the opposite order is != the original under %s" % name
    if "t_po" in feats and m.get("expect_order") and got.startswith("ok ") and field(got, "order") != m["expect_order"]:
        return "under %s toml::Table does not iterate in document order: %s, expected %s" % (name, field(got, "order"), m["expect_order"])
    if field(got, "mutspans") not in (None, "0"):
        return "after into_mut %s keys / items still refer to the source (span or unowned spelling) under %s" % (field(got, "mutspans"), name)
    for f in ("tree", "print", "sorted", "order", "eq", "mutspans"):
        a, b = field(base, f), field(got, f)
        if a is None or b is None or a == "skip" or b == "skip":
            continue
        if "t_po" in feats and f in ("order", "print") and base.startswith("ok sorted="):
            continue                      # documented exception: insertion order
        if a != b:
            return "%s differs under %s" % (f, name)
    return None


_LAST_CFGS = []


def gen_cases(rng, tier):
    cfgs = QUICK if tier == "quick" else THOROUGH
    del _LAST_CFGS[:]
    _LAST_CFGS.extend(n for n, _ in cfgs)
    lines, meta = battery()
    proto = [c + " " + (a.hex() if a else "-") for c, a in lines]
    results = {}
    build_failures = []
    for name, feats in cfgs:
        ok, binary, out = build(name, feats)
        if not ok:
            build_failures.append((name, out[-1500:]))
            continue
        results[name] = common.run_lines(binary, proto, shards=4)
    cases = []
    for name, log in build_failures:
        cases.append(Case("doc", [b"a = 1\n"], {"kind": "build", "cfg_failure": "configuration %s does not build: %s" % (name, log)}))
    base = results.get("default")
    for i, ((c, a), m) in enumerate(zip(lines, meta)):
        why = None
        served = 0
        if base is not None:
            for name, feats in cfgs:
                if name == "default" or name not in results:
                    continue
                got = results[name][i]
                if got != "skip":
                    served += 1
                w = compare_cfg(name, feats, base[i], got, m)
                if w and not why:
                    why = w
            # without preserve_order the iteration order of toml::Table is the sorted order
            if field(base[i], "mutspans") not in (None, "0"):
                why = why or "default configuration: after into_mut %s keys / items still refer to the source" % field(base[i], "mutspans")
            if field(base[i], "eq") == "false":
                why = why or "default configuration: a table rebuilt in the opposite insertion order is != the original"
            if base[i].startswith("ok sorted=") and field(base[i], "sorted") != field(base[i], "order"):
                why = why or "default configuration does not iterate toml::Table in sorted order"
        else:
            why = "default configuration did not build"
        # the model tie: documents go through the generic runner as `doc` (core harness vs extracted model)
        cmd = "doc" if c == "p" and G.utf8_ok(a) else "cfgonly"
        cases.append(Case(cmd, [a], {"kind": "cfg:" + m["kind"], "cfg_failure": why, "served": served, "base": base[i] if base else None}))
    return cases


def oracle(case, line):
    return case.meta.get("cfg_failure")


def compare(case, model_line, impl_line):
    if case.cmd != "doc":
        return None
    import floatnorm
    return None if floatnorm.norm(model_line) == impl_line else "default-feature build and model differ"


def nontrivial(case, line):
    return case.meta.get("served", 0) >= 1


def extra_coverage(cases, impl, model):
    return {"configurations": list(_LAST_CFGS) or [n for n, _ in QUICK], "battery_lines": len(cases)}


def search(rng, ctx):
    return gen_cases(rng, "thorough")
