"""C13 — Every decoding and encoding route gives the same answer.

Cases (harness/src/bin/serde, runtime-typed `dynserde`; `fidelity <n>` self-check first, as in C07)
  routes <type> <doc> <val>   every DECODING route on a document text (t = toml::from_str, e = toml_edit::de::from_str,
                              esl = from_slice, edoc = from_document(DocumentMut), eim = from_document(ImDocument),
                              tval = from_str::<toml::Value> then try_into, ttab = parse::<toml::Table> then try_into,
                              efs = toml_edit::de::Deserializer::from_str) and on the text of a single value
                              (tvd = toml::de::ValueDeserializer, evd = toml_edit::de::ValueDeserializer,
                              tvdval = Value::deserialize(ValueDeserializer) then try_into): `ok:<dump>` / `ok:=`
                              (byte-identical to the first dump printed) / `err`.
  routes_ser <type> <value>   the same on the texts obtained by SERIALIZING the value (toml::to_string and
                              toml::ser::ValueSerializer); `ok:=` means identical to the input value.
  tryfrom <type> <value>      val = Value::try_from(v), txt = from_str::<Value>(to_string(v)), tab = Table::try_from(v),
                              ttxt = to_string(v).parse::<Table>() as canonical (key-sorted) tree dumps.
  slice <type> <bytes>        toml_edit::de::from_slice on ANY byte string (fixed cases: ill-formed UTF-8 in every position and
                              form, next to well-formed texts): utf8= (std's verdict), valid= (the parser's), esl=ok:<dump>|utf8err|err.

TEXT-LEVEL MODEL (Proofs/C13TextModel.v `run_route`, Props/C13text.v): the model's answer to a `routes` case carries, after
the tree-level routes, `T.<route>=ok:<value>|parse|de|unmodelled` for the eight document routes evaluated ON THE TEXT (Coq
parser, into_mut, the route functions; the float oracle read off the tree the text was rendered from); `compare` holds them
against the implementation's per-route results (err = parse when the harness says valid=0, de when valid=1).

ORACLE (implementation line only; equality = gen_serde.sval_eq / tv_eq):
  * routes      all routes that succeed return equal values; when the document was rendered (by this module, in a
                random layout: headers, dotted keys, inline tables, arrays of tables, quoting styles, number bases)
                from a value v of the target type and not mutated, every success equals v.
  * routes_ser  every route succeeds and returns v.
  * tryfrom     when both succeed the trees are equal; one side failing is accepted only where the two entry points
                differ by contract (a non-table root or a char key is fine for Value::try_from, not for a document).

Duplicate-key family (kind `dup-key`, gen_serde.dup_key_case; outside has_type): `tryfrom` on maps written from a list of
pairs that repeats a key — try_from and parse(to_string) must end up with the same value for the repeated key.

Nested-None family (kind `nested-none:<shape>`, gen_serde.nested_none_case; the same family as in C07): `tryfrom` and
`routes_ser` on values with a None below a field (in a sequence, behind Some, in a newtype / tuple / variant payload, in a
sequence inside a map) and on the control shapes (None directly in a field): try_from and to_string must give the same
verdict (unsupported-none / the same tree).

Known classes (recorded defects, see DESIGN.md section 7 / known_findings.json):
  (repaired in /repo, no longer accepted as classes; the former witnesses stay in the fixed cases as regression cases:
     C13-tryinto-datetime-string  `impl Deserializer for toml::Value` handed a date-time to the visitor as a STRING;
        it now hands the private one-entry map, as toml_edit's deserializer does (a Datetime/Date/Time field decodes via
        toml::Value / toml::Table `try_into`, an untyped toml::Value leaf stays Value::Datetime).
     C13-tryfrom-datetime-table   toml::value::ValueSerializer::serialize_struct ignored the date-time tunnel name and
        wrote a Table with the private key `$__toml_private_datetime`; it now yields Value::Datetime.
     C13-valueser-root-tuple-variant  toml::ser::ValueSerializer wrote a tuple variant at the root as a bare array,
        dropping its name; it now writes `{ T = [1, 2] }` like toml_edit's ValueSerializer.
     C06-root-datetime-printed-as-table  toml::ser::Serializer / ValueSerializer::serialize_struct dropped the struct name:
        a date-time at the ROOT was written as the table { "$__toml_private_datetime" = ".." } (a document by to_string);
        ValueSerializer now writes the date-time, to_string refuses it as a non-table (fixed cases `root-datetime`).)
  C07-tryfrom-nested-none-dropped   (repaired in /repo, see lib/props/c07.py; no longer accepted as a class) showed here as
        try_from = Ok, a field dropped, where to_string = Err(unsupported-none).  The former witness stays in the fixed cases.
  private-datetime-key (F14)   the case spells one of the private in-band names.
"""
import collections, copy

import gen_serde as G
from runner import Case

PROP = "C13"
TITLE = "Every decoding and encoding route gives the same answer"
COQ_PROPS = "Props/C13.v"
DRIVER_NAME = "serde"
HARNESS = {"bin": "serde"}
COQ_PROPS_EXTRA = ["Props/C13text.v"]
THEOREMS = [
    "TEXT LEVEL (Props/C13text.v, 16 theorems; each route written after its own source: toml::from_str parses and walks the toml_edit "
    "deserializer itself, from_slice = UTF-8 gate then from_str, FromStr for toml::Value / Table = toml::from_str, from_document(DocumentMut) "
    "runs into_mut between parsing and walking): C13_text_same_code / C13_text_slice / C13_text_document_mut / C13_into_mut_same_tree / "
    "C13_text_direct_routes: the six direct routes return the SAME result on every byte string (invalid UTF-8 = error on the byte route); "
    "C13_text_routes_agree: any two of the eight routes that succeed return equal values; C13_text_parse_verdict: a route answers parse-error "
    "exactly when the parser refuses the text, no route panics; C13_text_on_serialized_direct / _value_first: on the text the four text "
    "serializers produce for a well-typed value (hypotheses of C07_text_roundtrip) every route returns that value (value-first routes: when "
    "the output is tunnel-free); refuted with witnesses replayed on the crates: C13_text_f14_refuted (F14 through text), "
    "C13_text_same_verdict_refuted (a = [1,2,3] as (i8,i8): direct routes accept, Value-first routes refuse - verdicts differ across the two "
    "families, successes never do)",
    "level: the TOML value tree; a decoding route = a function of (type, tree the text parses to) (coq/Model/SerdeRoutes.v decode): t e esl edoc eim efs tvd evd = de_value; tval tvdval = to_toml_value then tv_de; ttab = to_toml_table then tv_de",
    "C13_twin_deserializers / C13_decode_routes: for every type without char-keyed maps and EVERY tree, any two routes that succeed return equal values (up to map order); the table route needs a root with distinct keys not starting with the private key",
    "C13_on_serialized / C13_on_serialized_value: every toml_edit-based route returns the value for every type, on the document and on the single-value text; the toml::Value / toml::Table routes too, date-times included, when no table key of the serialized tree spells the private tunnel name (F14).  C13_on_serialized_datetime, C13_value_text_tuple_variant: the former witnesses of the repaired C13-tryinto-datetime-string and C13-valueser-root-tuple-variant, now positive; C13_datetime_is_not_a_string: no route hands the text of a date-time to a String target",
    "C13_try_from / C13_twin_serializers: Value::try_from / Table::try_from build exactly the toml::Value (same key order) the serialized document parses to, date-times included, when no table key spells the private tunnel name (C13_try_from_datetime: the former witness of the repaired C13-tryfrom-datetime-table)",
    "C13_try_from_same_verdict / C13_try_from_accepts_only_serializable / C13_table_try_from_accepts_only_serializable: the converse — for types whose map keys are not char / Option<_> (doc_keys) Value::try_from succeeds exactly when toml_edit's ValueSerializer does, then with the tree the serialized value parses to; Table::try_from accepts nothing ValueSerializer refuses (since the repair of C07-tryfrom-nested-none-dropped)",
]
RULE = ("(type, document) pairs: documents rendered from a random value of the type in random layouts, the same with one "
        "tree mutation (extra / missing / retyped / out-of-range entry) or decoded at a mutated type; library-serialized "
        "texts of random supported values; try_from vs parse(to_string), also on the duplicate-key family (maps written from "
        "pair lists that repeat a key) and on the nested-None family (a None below a field in each of 11 positions, 3 control "
        "shapes); non-trivial = type depth >= 2")
ASSUMPTIONS = [
    "serde_derive / serde's std impls are written into coq/Model/Ser.v, De.v as their functional spec; the same protocol is `dynserde`, checked on every run against real derived types (command `fidelity`)",
    "python-rendered documents are TOML 1.0 by construction (the harness reports `valid=`; an invalid rendering is a generator bug and fails the check)",
    "the text-level route functions of Props/C13text.v (Proofs/C13TextModel.v run_route) are evaluated by the extracted driver on the TEXT of every `routes` case (Coq parser, into_mut, the eight routes) and compared per route with the crates (value, parse / deserialize error by the harness's valid= flag); the float oracle `back` is read off the tree the text was rendered from (the floats of the parsed text, in order, paired with the f64 patterns of that tree); from_slice is also run on fixed ill-formed byte strings (command `slice`); that the model's printed bytes are valid UTF-8 stays a hypothesis for the byte routes on serialized text (in Rust the text is a String)",
    "the tree-level model still reads the tree the texts were rendered from (fourth argument of a `routes` case); `routes_ser` cases are tied on the tree level only",
    "the Coq universe has no untyped toml::Value leaf (cases with it: oracle only); has_type as in C07",
    "the duplicate-key family (a key repeated in one serialized map) is outside has_type: judged by the oracle and tied to the model, no theorem speaks about it",
]

N_FIDELITY = 37
DOC_ROUTES = ["t", "e", "esl", "edoc", "eim", "tval", "ttab", "efs"]
VAL_ROUTES = ["tvd", "evd", "tvdval"]
STATS = collections.Counter()


def tree_has_datetime(n):
    if n[0] == "d":
        return True
    if n[0] == "a":
        return any(tree_has_datetime(x) for x in n[1])
    if n[0] == "t":
        return any(tree_has_datetime(x) for _, x in n[1])
    return False


# ---------------------------------------------------------------------------------------------
def mutate_tree(rng, tree):
    """one local change somewhere in the tree"""
    tree = copy.deepcopy(tree)
    nodes = []

    def collect(n):
        nodes.append(n)
        if n[0] == "a":
            for x in n[1]:
                collect(x)
        elif n[0] == "t":
            for _, x in n[1]:
                collect(x)

    collect(tree)
    for _ in range(8):
        n = rng.choice(nodes)
        op = rng.randrange(7)
        if n[0] == "t":
            if op == 0:
                key = rng.choice(["zz", "extra", "0", "b"]) + str(rng.randrange(3))
                if any(k == key for k, _ in n[1]):
                    continue
                n[1].append((key, rng.choice([("i", 1), ("s", "x"), ("t", []), ("a", [])])))
                return tree, "extra-key"
            if op == 1 and n[1]:
                del n[1][rng.randrange(len(n[1]))]
                return tree, "missing-key"
            if op == 2 and n[1]:
                i = rng.randrange(len(n[1]))
                n[1][i] = (n[1][i][0], rng.choice([("i", 2 ** 40), ("i", -1), ("i", 300), ("s", "A"), ("f", 0x3ff8000000000000), ("b", True), ("a", []),
                                                     ("t", []), ("d", "1979-05-27"), ("i", 2 ** 63 - 1), ("a", [("i", 1), ("i", 2), ("i", 3)])]))
                return tree, "retyped"
            if op == 3 and len(n[1]) >= 2:
                rng.shuffle(n[1])
                return tree, "reordered"
        elif n[0] == "a":
            if op == 4 and n[1]:
                n[1].append(copy.deepcopy(rng.choice(n[1])))
                return tree, "longer-array"
            if op == 5 and n[1]:
                del n[1][rng.randrange(len(n[1]))]
                return tree, "shorter-array"
            if op == 6:
                n[1].append(rng.choice([("i", 1), ("s", "x"), ("t", [])]))
                return tree, "foreign-element"
    return tree, "unchanged"


def mutate_type(rng, g, ty):
    """a type close to `ty`: one node replaced"""
    ty = copy.deepcopy(ty)
    if rng.random() < 0.15:
        return g.root_ty(), "other-type"
    path_nodes = []

    def collect(t):
        path_nodes.append(t)
        for c in G.ty_children(t):
            collect(c)

    collect(ty)
    for _ in range(8):
        t = rng.choice(path_nodes)
        if t[0] == "S" and t[2]:
            op = rng.randrange(4)
            fs = t[2]
            i = rng.randrange(len(fs))
            if op == 0:
                fs[i] = (fs[i][0], ("O", fs[i][1]) if fs[i][1][0] != "O" else fs[i][1][1])
                return ty, "option-toggled"
            if op == 1:
                del fs[i]
                return ty, "field-removed"
            if op == 2:
                fs.append(("new%d" % rng.randrange(3), rng.choice([("int", "i32"), ("O", ("s",)), ("L", ("s",))])))
                return ty, "field-added"
            fs[i] = (fs[i][0], rng.choice([("int", "u8"), ("int", "i8"), ("s",), ("f64",), ("f32",), ("c",), ("b",), ("v",), ("dt",), ("L", ("int", "i64")),
                                           ("T", [("int", "i64"), ("int", "i64")]), ("O", ("int", "u16"))]))
            return ty, "field-retyped"
    return ty, "same-type"


_TV_TAG = {"s": "S", "i": "I", "f": "D", "b": "B", "d": "X"}


def root_datetime_text(ty, v):
    """the text of the date-time when the value IS a date-time (behind Some / newtype structs), else None"""
    while ty[0] in ("N", "O") and v[0] in ("W", "O"):
        ty, v = (ty[2] if ty[0] == "N" else ty[1]), v[1]
    if ty[0] in ("dt", "da", "ti") and v[0] == "X":
        return v[1]
    if ty[0] == "v" and v[0] == "V" and v[1][0] == "X":
        return v[1][1]
    return None


def tree_tv(n):
    """gen_serde.to_tree node -> the toml-value form gen_serde.tv_str prints"""
    if n[0] == "a":
        return ("L", [tree_tv(x) for x in n[1]])
    if n[0] == "t":
        return ("T", [(k, tree_tv(x)) for k, x in n[1]])
    return (_TV_TAG[n[0]], n[1])


def routes_case(ty, tree, kind, rng, v=None):
    doc, doc_tree = G.render_doc_with_order(rng, tree) if tree[0] == "t" else ("", ("t", []))
    val = G.render_inline(rng, tree)
    meta = {"kind": kind, "ty": ty, "depth": G.ty_depth(ty), "has_dt": tree_has_datetime(tree), "root_table": tree[0] == "t"}
    if v is not None:
        meta["v"] = v
    # fourth / fifth argument: the trees the two texts denote, entries in the order a parser meets them (the
    # document moves sub-tables behind values) — ignored by the harness (which reads the texts), read by the Coq
    # model (which works on the level of the value tree)
    return Case("routes", [G.ty_str(ty).encode(), doc.encode("utf-8"), val.encode("utf-8"),
                           G.tv_str(tree_tv(doc_tree)).encode(), G.tv_str(tree_tv(tree)).encode()], meta)


def vcase(cmd, ty, v, kind):
    return Case(cmd, [G.ty_str(ty).encode(), G.val_str(v).encode()], {"kind": kind, "ty": ty, "v": v, "depth": G.ty_depth(ty)})


DT_TY = ("S", "S", [("d", ("dt",))])
DT_VAL = ("R", [("X", "1979-05-27T07:32:00Z")])
VLEAF_TY = ("S", "S", [("v", ("v",))])
VLEAF_VAL = ("R", [("V", ("X", "1979-05-27"))])
S3_TY = ("S", "V", [("v", ("O", ("L", ("O", ("int", "i32")))))])
S3_VAL = ("R", [("O", ("L", [("O", ("I", 1)), ("N",)]))])
# enum E { T(i32, i32) }, E::T(1, 2): toml::ser::ValueSerializer wrote `[1, 2]` (C13-valueser-root-tuple-variant, repaired): regression case
TV_TY = ("E", "E", [("T", "t", [("int", "i32"), ("int", "i32")])])
TV_VAL = ("E", 0, ("L", [("I", 1), ("I", 2)]))
_RDT = ("X", "1979-05-27T07:32:00Z")
ROOT_DT = [(("dt",), _RDT), (("da",), ("X", "1979-05-27")), (("ti",), ("X", "07:32:00.5")), (("O", ("dt",)), ("O", _RDT)),
           (("N", "W", ("dt",)), ("W", _RDT)), (("v",), ("V", _RDT)), (("N", "W", ("O", ("v",))), ("W", ("O", ("V", ("X", "1979-05-27")))))]
# F14 on serialized text: struct S { m: BTreeMap<String, i32> } with the private field name as a key — to_string writes
# `[m]` / `"$__toml_private_datetime" = 127`, which toml::Value's visitor takes for a date-time (routes tval / ttab fail)
F14_TY = ("S", "S", [("m", ("M", ("s",), ("int", "i32")))])
F14_VAL = ("R", [("M", [(("S", "$__toml_private_datetime"), ("I", 127))])])


def fixed_cases(rng):
    out = [Case("fidelity", [str(i).encode()], {"kind": "fidelity"}) for i in range(N_FIDELITY)]
    out.append(vcase("tryfrom", DT_TY, DT_VAL, "S1-witness"))
    out.append(vcase("routes_ser", DT_TY, DT_VAL, "S2-witness"))
    out.append(vcase("routes_ser", VLEAF_TY, VLEAF_VAL, "S2-witness"))
    out.append(vcase("tryfrom", VLEAF_TY, VLEAF_VAL, "S1-witness"))
    out.append(vcase("tryfrom", S3_TY, S3_VAL, "S3-witness"))
    out.append(vcase("routes_ser", TV_TY, TV_VAL, "S4-witness"))
    out.append(vcase("routes_ser", F14_TY, F14_VAL, "F14-witness"))
    # a date-time at the ROOT (the witness of the repaired C06-root-datetime-printed-as-table: toml/src/ser.rs serialize_struct
    # dropped the struct name): toml::ser::ValueSerializer writes the date-time itself (before: the table
    # { "$__toml_private_datetime" = ".." }), which tvd / evd / tvdval read back; toml::to_string refuses it as a non-table;
    # Value::try_from yields the date-time
    for rty, rv in ROOT_DT:
        out.append(vcase("routes_ser", rty, rv, "root-datetime"))
        out.append(vcase("tryfrom", rty, rv, "root-datetime"))
    # F14: a table whose first key is the private field name (all routes read a date-time / fail alike since the repair
    # of C13-tryinto-datetime-string)
    f14 = ("S", "S", [("t", ("v",))])
    out.append(Case("routes", [G.ty_str(f14).encode(), b"[t]\n\"$__toml_private_datetime\" = \"1979-05-27\"\n", b""],
                    {"kind": "F14-witness", "ty": f14, "depth": 2, "has_dt": False, "root_table": True}))
    out.append(Case("routes", [G.ty_str(f14).encode(), b"[t]\n\"$__toml_private_datetime\" = \"x\"\n", b""],
                    {"kind": "F14-witness", "ty": f14, "depth": 2, "has_dt": False, "root_table": True}))
    # the bytes route (toml_edit::de::from_slice) on byte strings that are no &str: ill-formed UTF-8 in a string, a key,
    # a comment, at the end, alone; overlong / surrogate / beyond U+10FFFF encodings; truncated sequences — and well-formed
    # texts (accepted, refused by the parser, refused by the deserializer) for contrast
    mss = ("M", ("s",), ("s",))
    for bs in (b'a = "\xff"\n', b'"\xff" = "x"\n', b"# \xff\n", b"a = \"x\"\n\x80", b"\xc3", b"\xc0\xaf", b"a = \"\xed\xa0\x80\"\n",
               b"# \xf4\x90\x80\x80\n", b"a = \"\xe2\x82\"\n", b"\xef\xbb\xbfa = \"\xfe\"\n", b"a = '\xf0\x9f\x98'\n", b"a = \"\x80\"",
               b'a = "x"\n', b'a = "\xc3\xa9"\n', b"\xef\xbb\xbfa = \"x\"\n", b"# \xf0\x9f\x98\x80\na = \"y\"\n", b"a = \n", b"a = 1\n", b""):
        out.append(Case("slice", [G.ty_str(mss).encode(), bs], {"kind": "slice", "ty": mss, "depth": 2}))
    return out


def gen_cases(rng, tier):
    out = fixed_cases(rng)
    n_types = 1400 if tier == "quick" else 35000
    g = G.SerdeGen(rng, max_depth=5, allow_unsupported=False)
    gu = G.SerdeGen(rng, max_depth=5, allow_unsupported=True)
    for i in range(n_types):
        ty = g.root_ty() if i % 6 else g.ty()
        for j in range(4):
            v = g.value(ty)
            try:
                tree = G.to_tree(ty, v)
            except G.Unsupported:
                tree = None
            out.append(vcase("routes_ser", ty, v, "serialized"))
            out.append(vcase("tryfrom", ty, v, "tryfrom"))
            if tree is None:
                continue
            out.append(routes_case(ty, tree, "rendered", rng, v=v))
            t2, how = mutate_tree(rng, tree)
            out.append(routes_case(ty, t2, "tree-" + how, rng))
            if j == 0:
                ty2, how = mutate_type(rng, g, ty)
                out.append(routes_case(ty2, tree, "type-" + how, rng))
        if i % 4 == 0:
            ty = gu.root_ty()
            v = gu.value(ty)
            out.append(vcase("tryfrom", ty, v, "tryfrom-any"))
            out.append(vcase("routes_ser", ty, v, "serialized-any"))
    # the duplicate-key family (gen_serde.dup_key_case, outside has_type): a map written from a pair list that repeats
    # a key — Value::try_from / Table::try_from must keep the same (the LAST) value as the serialized text does
    for _ in range(400 if tier == "quick" else 6000):
        ty, v = G.dup_key_case(rng)
        out.append(vcase("tryfrom", ty, v, "dup-key"))
    # the nested-None family (gen_serde.nested_none_case): try_from and serialize-then-parse give the same verdict on a None
    # below a field in every position, and on a None directly in a field
    for i in range(420 if tier == "quick" else 8400):
        ty, v, shape = G.nested_none_case(rng, G.NESTED_NONE_SHAPES[i % len(G.NESTED_NONE_SHAPES)])
        out.append(vcase("tryfrom", ty, v, "nested-none:" + shape))
        out.append(vcase("routes_ser", ty, v, "nested-none:" + shape))
    return out


def fields(line):
    d = collections.OrderedDict()
    for part in line.split(" "):
        k, _, x = part.partition("=")
        d[k] = x
    return d


def judge(case, line):
    if case.cmd == "fidelity":
        if line.startswith("fidelity=ok") or line == "fidelity=none":
            return []
        detail = line.split("detail=")[-1]
        try:
            detail = bytes.fromhex(detail).decode("utf-8", "replace")
        except ValueError:
            pass
        return [("harness fidelity broken (dynserde disagrees with a real derived type — a HARNESS bug, not a finding): %s" % detail[:600], None)]
    if line.startswith("BADCASE") or "BADCASE" in line:
        return [("generator/harness bug: %s" % line[:200], None)]
    ty = case.meta["ty"]
    f = fields(line)
    out = []
    if case.cmd in ("routes", "routes_ser"):
        v = case.meta.get("v")
        text = b" ".join(case.args[1:]).decode("utf-8", "replace") if case.cmd == "routes" else ""
        private = G.mentions_private(ty, v, text)
        if case.cmd == "routes":
            if case.meta.get("root_table") and f.get("valid") != "1":
                return [("generator bug: rendered document is not valid TOML: %r" % text[:300], None)]
            reference = None
            must_all_succeed = False
        else:
            reference = ("in", v)
            must_all_succeed = True
            for side, route in (("doc", "tp"), ("val", "val")):
                x = f.get(side, "")
                # both of toml's serializers look at the root value itself (a struct variant there is refused by
                # name); the single-value one does not ask for a table
                allowed = G.unsupported_kinds(ty, v, "tp") if side == "doc" else (G.unsupported_kinds(ty, v, "tp") - {"root-not-table"})
                if x.startswith("err("):
                    kind = x[4:-1]
                    STATS["noser:" + kind] += 1
                    if kind not in allowed:
                        out.append(("serializing (%s) fails with %s, outside the documented unsupported shapes %s" % (side, kind, sorted(allowed)),
                                    "private-datetime-key" if private else None))
                elif x.startswith("ok:"):
                    # a documented unsupported shape must be refused, not written some other way
                    if allowed and not private:
                        out.append(("serializing (%s) succeeds although the value has the documented unsupported shape(s) %s" % (side, sorted(allowed)), None))
                    # the text of a lone date-time is the date-time (not a table with the private key)
                    rdt = root_datetime_text(ty, v)
                    if side == "val" and rdt is not None and x[3:] != rdt.encode().hex():
                        out.append(("toml::ser::ValueSerializer writes a root date-time as %r" % bytes.fromhex(x[3:]).decode("utf-8", "replace")[:120], None))
        # the harness prints `ok:=` for a dump byte-identical to its reference (the input value for routes_ser, else the
        # first dump of the line): resolve it first
        href = G.val_str(v) if (case.cmd == "routes_ser") else None
        dumps = {}
        for r in DOC_ROUTES + VAL_ROUTES:
            x = f.get(r)
            if x is None or not x.startswith("ok:"):
                continue
            if x[3:] == "=":
                if href is None:
                    out.append(("harness protocol: '=' before any dump", None))
                    continue
                dumps[r] = href
            else:
                dumps[r] = x[3:]
                if href is None:
                    href = x[3:]
        doc_routes = DOC_ROUTES if f.get("valid") in ("0", "1") else []
        val_routes = [r for r in VAL_ROUTES if r in f]
        if case.cmd == "routes" and not case.meta.get("root_table"):
            # the document text is the EMPTY document here (only a table can be rendered as a document): the two
            # texts denote different trees, so the two groups of routes are judged separately, and only the
            # single-value text was rendered from v
            groups = [(doc_routes, None), (val_routes, v)]
        else:
            groups = [(doc_routes + val_routes, v)]
        for routes, gv in groups:
            reference = ("in", gv) if (case.cmd == "routes_ser") else None
            for r in routes:
                x = f.get(r)
                if x is None:
                    out.append(("route %s missing" % r, None))
                    continue
                cls = "private-datetime-key" if private else None
                if x == "err":
                    STATS["err:" + r] += 1
                    if must_all_succeed:
                        out.append(("route %s fails on the text obtained by serializing a value of the target type" % r, cls))
                    continue
                STATS["ok:" + r] += 1
                if r not in dumps:
                    continue
                got = G.parse_val(dumps[r])
                if reference is None:
                    reference = (r, got)
                    if gv is not None and not G.sval_eq(gv, got):
                        out.append(("route %s decodes the rendered text to a value different from the one it was rendered from: %s" % (r, dumps[r][:300]), cls))
                    continue
                if not G.sval_eq(reference[1], got):
                    c2 = cls
                    if reference[0] == "in":
                        out.append(("route %s returns a value different from the serialized one: %s" % (r, dumps[r][:300]), c2))
                    else:
                        out.append(("routes %s and %s both succeed with different values: %s" % (reference[0], r, dumps[r][:300]), c2))
        return out
    if case.cmd == "slice":
        # the bytes entry point validates UTF-8 first: ill-formed bytes are refused with the UTF-8 error, never parsed
        try:
            case.args[1].decode("utf-8")
            wf = True
        except UnicodeDecodeError:
            wf = False
        if f.get("utf8") != ("1" if wf else "0"):
            out.append(("std::str::from_utf8 and python disagree on the well-formedness of %r" % case.args[1][:60], None))
        if not wf and f.get("esl") != "utf8err":
            out.append(("from_slice answers ill-formed UTF-8 with %s instead of its UTF-8 error" % f.get("esl"), None))
        if wf and f.get("esl") == "utf8err":
            out.append(("from_slice refuses well-formed UTF-8 as ill-formed", None))
        STATS["slice:" + str(f.get("esl", ""))[:7]] += 1
        return out
    if case.cmd == "tryfrom":
        v = case.meta["v"]
        private = G.mentions_private(ty, v)
        for a, b, route in (("val", "txt", "val"), ("tab", "ttxt", "tab")):
            x, y = f.get(a, ""), f.get(b, "")
            cls = "private-datetime-key" if private else None
            if x.startswith("ok:") and y.startswith("ok:"):
                STATS["tryfrom-both-ok"] += 1
                if y[3:] == "=":
                    continue
                if not G.tv_eq(G.parse_tv(x[3:]), G.parse_tv(y[3:])):
                    out.append(("%s::try_from gives %s but parsing the serialized text gives %s" % ("Value" if a == "val" else "Table", x[3:][:200], y[3:][:200]), cls))
            elif x.startswith("ok:") and y.startswith("err("):
                kind = y[4:-1]
                text_only = G.unsupported_kinds(ty, v, "tp")
                tree_kinds = G.unsupported_kinds(ty, v, route)
                STATS["tryfrom-text-err:" + kind] += 1
                if kind not in text_only or kind in tree_kinds:
                    out.append(("try_from succeeds but to_string fails with %s (not explained by the contracts of the two entry points)" % kind,
                                "private-datetime-key" if private else None))
            elif x.startswith("err(") and y.startswith("ok:"):
                kind = x[4:-1]
                # Table::try_from is stricter about its root than a document (which goes through toml_edit's ValueSerializer)
                if kind in G.unsupported_kinds(ty, v, route) and not G.unsupported_kinds(ty, v, "tp"):
                    STATS["tryfrom-root-stricter:" + kind] += 1
                else:
                    out.append(("try_from fails with %s but to_string succeeds" % kind, "private-datetime-key" if private else None))
            else:
                STATS["tryfrom-both-err"] += 1
        return out
    return [("unknown case", None)]


def oracle(case, line):
    js = judge(case, line)
    if not js:
        return None
    for why, cls in js:
        if cls is None:
            return why
    return js[0][0]


def known_class(case, line):
    js = judge(case, line)
    if js and all(cls for _, cls in js):
        return js[0][1]
    return None


def nontrivial(case, line):
    return case.cmd != "fidelity" and case.meta.get("depth", 0) >= 2


def tv_eq_ordered(a, b):
    """toml::Value trees with the same key order; NaN == NaN"""
    if a[0] != b[0]:
        return False
    k = a[0]
    if k == "D":
        return G.f64_eq(a[1], b[1])
    if k == "L":
        return len(a[1]) == len(b[1]) and all(tv_eq_ordered(x, y) for x, y in zip(a[1], b[1]))
    if k == "T":
        return len(a[1]) == len(b[1]) and all(ka == kb and tv_eq_ordered(x, y) for (ka, x), (kb, y) in zip(a[1], b[1]))
    return a[1] == b[1]


def compare(case, model_line, impl_line):
    """correspondence with the Coq model (coq/Model/SerdeRoutes.v over Ser.v / De.v, through coq/Extract/Cmd_serde.v),
    on the level of the value tree: per route the same outcome (error / value equal up to NaN and map order), per
    serialization the same error kind, per try_from the same tree.  `*` / `ok:*` / `-`: not answered by the model
    (texts are not modelled; a deserializer path outside the model)."""
    if model_line is None or model_line == "-":
        return None
    if impl_line.startswith("BADCASE") or model_line.startswith("BADCASE"):
        return None if impl_line.startswith("BADCASE") and model_line.startswith("BADCASE") else "model %s, implementation %s" % (model_line[:60], impl_line[:60])
    m, i = fields(model_line), fields(impl_line)
    if case.cmd == "slice":
        x, y = m.get("esl", ""), i.get("esl", "")
        want = {"utf8": "utf8err", "parse": "err", "de": "err"}
        if x == "unmodelled":
            return None
        STATS["cmp:slice"] += 1
        if x.startswith("ok:"):
            if not y.startswith("ok:") or not G.sval_eq(G.parse_val(x[3:]), G.parse_val(y[3:])):
                return "from_slice: model %s, implementation %s" % (x[:200], y[:200])
            return None
        if want.get(x) != y or (x == "parse" and i.get("valid") != "0") or (x == "de" and i.get("valid") != "1"):
            return "from_slice: model %s, implementation %s (utf8=%s valid=%s)" % (x[:100], y[:100], i.get("utf8"), i.get("valid"))
        return None
    # the text-level routes of the model (Proofs/C13TextModel.v run_route on the document TEXT): `T.<route>=...`
    tm = collections.OrderedDict((k[2:], x) for k, x in m.items() if k.startswith("T."))
    m = collections.OrderedDict((k, x) for k, x in m.items() if not (k.startswith("T.") or k == "T"))
    if case.cmd in ("routes", "routes_ser"):
        # resolve the implementation's `ok:=` (same dump as the reference: the input value / the first dump printed)
        ref = case.meta.get("v") if case.cmd == "routes_ser" else None
        ival = {}
        for k, y in i.items():
            if k in DOC_ROUTES or k in VAL_ROUTES:
                if y == "err":
                    ival[k] = None
                elif y == "ok:=":
                    ival[k] = ("ok", ref)
                elif y.startswith("ok:"):
                    got = G.parse_val(y[3:])
                    if ref is None:
                        ref = got
                    ival[k] = ("ok", got)
        for k, x in m.items():
            if x == "*" or x == "ok:*":
                if k in ("doc", "val") and k in i and not i[k].startswith("ok:"):
                    return "%s: model ok, implementation %s" % (k, i[k][:100])
                continue
            if k in ("doc", "val"):
                if i.get(k) != x:
                    return "%s: model %s, implementation %s" % (k, x[:100], i.get(k, "missing")[:100])
                continue
            if k == "valid":
                if x != i.get(k):
                    return "valid: model %s, implementation %s" % (x, i.get(k))
                continue
            if k not in ival:
                return "route %s: answered by the model (%s) but not by the implementation" % (k, x[:60])
            y = ival[k]
            if x == "err":
                if y is not None:
                    return "route %s: model err, implementation ok" % k
            else:
                if y is None:
                    return "route %s: model %s, implementation err" % (k, x[:200])
                if y[1] is None or not G.sval_eq(G.parse_val(x[3:]), y[1]):
                    return "route %s: model %s, implementation %s" % (k, x[:200], i[k][:200])
            STATS["cmp:route"] += 1
        for k in ival:
            if k not in m:
                return "route %s: answered by the implementation but not by the model" % k
        # text level: the same routes, evaluated by the model on the text itself
        for k, x in tm.items():
            if x == "unmodelled":
                STATS["tcmp:unmodelled"] += 1
                continue
            if k not in ival:
                return "text route %s: answered by the model (%s) but not by the implementation" % (k, x[:60])
            y = ival[k]
            if x.startswith("ok:"):
                if y is None:
                    return "text route %s: model %s, implementation err (valid=%s)" % (k, x[:200], i.get("valid"))
                if y[1] is None or not G.sval_eq(G.parse_val(x[3:]), y[1]):
                    return "text route %s: model %s, implementation %s" % (k, x[:200], i[k][:200])
            elif x in ("parse", "de"):
                if y is not None:
                    return "text route %s: model %s, implementation %s" % (k, x, i[k][:200])
                if i.get("valid") != ("0" if x == "parse" else "1"):
                    return "text route %s: model %s, implementation err with valid=%s" % (k, x, i.get("valid"))
            else:
                return "text route %s: model %s, implementation %s" % (k, x[:60], i[k][:100])
            STATS["tcmp:route"] += 1
        if case.cmd == "routes" and not tm and "T" in fields(model_line):
            STATS["tcmp:floats-not-aligned"] += 1
        return None
    if case.cmd == "tryfrom":
        iref = {"txt": "val", "ttxt": "tab"}
        # F14 looks at the FIRST key of a parsed table; the order of the entries of the serialized DOCUMENT is the printer's
        # (sub-tables move behind plain values), which is below the level of the model (it reads the serializer's tree): when
        # the case spells a private key the two re-parsed trees are left to the oracle (known class private-datetime-key)
        skip = ("txt", "ttxt") if G.mentions_private(case.meta["ty"], case.meta["v"]) else ()
        for k, x in m.items():
            if k in skip:
                STATS["cmp:tryfrom-private-skipped"] += 1
                continue
            y = i.get(k)
            if y is None:
                return "%s missing" % k
            if y == "ok:=":
                y = i.get(iref.get(k, k), y)
            if x.startswith("err(") or y.startswith("err("):
                # the kind of a failure AFTER serialization (re-parsing the text) is not modelled
                xk = x if not x.startswith("err(de)") else "err"
                if x.startswith("err(") != y.startswith("err(") or (xk != "err" and x != y):
                    return "%s: model %s, implementation %s" % (k, x[:200], y[:200])
            elif not tv_eq_ordered(G.parse_tv(x[3:]), G.parse_tv(y[3:])):
                return "%s: model %s, implementation %s" % (k, x[:200], y[:200])
            STATS["cmp:tryfrom"] += 1
        return None
    return None


def extra_coverage(cases, impl, model):
    tied = sum(1 for m in model if m not in (None, "-"))
    kinds = collections.Counter(c.cmd for c in cases)
    return {"route_outcomes": dict(STATS), "model_tied_cases": tied, "model_not_modelled": sum(1 for m in model if m == "-"),
            "commands": dict(kinds)}
