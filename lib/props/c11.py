"""C11 — Numbers are lossless or rejected, never wrapped, saturated or rounded away."""
import re, struct
from fractions import Fraction

import common
from runner import Case
import floatnorm

PROP = "C11"
TITLE = "Numbers are lossless or rejected, never wrapped, saturated or rounded away"
COQ_PROPS = "Props/C11.v"
DRIVER_NAME = "c11"
HARNESS = {"bin": "c11"}
BINS = {}          # set by the runner before gen_cases is called

THEOREMS = [
    "C11_int_roundtrip: in_i64 z -> integer (write_i64 z) = Ok z at end /\\ parse_value_raw (write_i64 z) = POk (SInt z)",
    "C11_int_no_wrap: integer i = Ok z i' -> in_i64 z (no wrapped/saturated value can come out, any base, any input)",
    "C11_int_range / C11_int_range_digits: a well-formed literal of base 2/8/10/16 (prefix, digits, single underscores; decimal sign) whose value is outside i64 is a committed error, whatever follows",
    "C11_float_overflow / _value: a decimal float literal with m*10^e >= 2^1024-2^970 is rejected, either sign (uses FLOAT_REJECT_POS_INF/NEG_INF)",
    "C11_float_never_inf / C11_float_inf_only_spelled: a decimal literal never yields an infinity",
    "C11_overflow_threshold_sound / C11_ndigits_bounds: overflows m e = true <-> 2^1024-2^970 <= m*10^e (exact, cross-multiplied on Z)",
    "C11_float_write_shape / _nan / _zero / _inf / _special_value: under the std-printer shape hypotheses the float writer's text is read by `float` completely as the same sign/digits, and by Value::from_str as a Float (never an Integer)",
    "C11_f64_roundtrip_under_std / C11_f32_roundtrip_under_std / C11_f32_widen_exact / C11_f32_write_special: the round trip reduced to the std oracle; f32 goes through the exact, injective, class-preserving widening",
    "C11_ser_checked / C11_ser_exact: serialize_u64/i128/u128 beyond i64 = Err; de of an integer outside the target width = Err; what passes is exact",
]
RULE = ("i64: all boundary values, 2^k and 10^k ladders with neighbours, uniform bit patterns and uniform bit lengths; "
        "f64/f32: every class boundary (zeros, subnormal/normal edges, max finite, infinities, NaNs of both signs and payload kinds), "
        "2^k ladder with 1-ulp neighbours, 10^k ladder, integral values up to 2^1023, uniform bit patterns, decimals with uniform exponent in -400..400; "
        "literals: every spelling family (sign, base prefix, case, leading zeros, underscores) of the integers around +-2^63 and 2^64, "
        "exact decimal expansions of 2^1024-2^970 and neighbours in plain/fraction/exponent/shifted forms with signs and underscores, exponent sweep; "
        "serde: every integer type x its own edges, the i64/u64 edges and random values, written and read through toml and toml_edit; "
        "non-trivial = every case (all are distinct number values or spellings)")
ASSUMPTIONS = [
    "std `{}` on f64/f32 (shortest round-trip digits, no exponent) and str::parse::<f64> (correct rounding) are oracles: the Coq theorems take their shape as explicit hypotheses; every generated case checks those hypotheses against Python's independent float()/repr()",
    "serde's primitive Serialize impls and range-checking visitors are modelled by their functional spec (Model/SerNum.v)",
    "the classification of a float (sign, NaN, zero, `x % 1.0 == 0.0`) and the exact widening f64::from(f32) are computed from the bit pattern in the model (IEEE-754 semantics of core operations; widen32 is printed as `w=` and compared with the implementation on every f32 case)",
    "integer-to-float targets on the serde input side (serde's f32/f64 visitors accept visit_i64 with an `as` cast) are outside the property's quantifier (integer widths) and not checked",
]

I64_MIN, I64_MAX = -2 ** 63, 2 ** 63 - 1
THRESH = 2 ** 1024 - 2 ** 970          # smallest magnitude that rounds to infinity (round-half-even)
MAXFIN = 2 ** 1024 - 2 ** 971

TYPES = {
    "i8": (-2 ** 7, 2 ** 7 - 1), "i16": (-2 ** 15, 2 ** 15 - 1), "i32": (-2 ** 31, 2 ** 31 - 1),
    "i64": (I64_MIN, I64_MAX), "i128": (-2 ** 127, 2 ** 127 - 1), "isize": (I64_MIN, I64_MAX),
    "u8": (0, 2 ** 8 - 1), "u16": (0, 2 ** 16 - 1), "u32": (0, 2 ** 32 - 1), "u64": (0, 2 ** 64 - 1),
    "u128": (0, 2 ** 128 - 1), "usize": (0, 2 ** 64 - 1),
}
WIDE = ("i128", "u128")   # serde's default serialize_i128 / deserialize_i128: always an error


def f64_of_bits(b):
    return struct.unpack("<d", struct.pack("<Q", b))[0]


def bits_of_f64(x):
    return struct.unpack("<Q", struct.pack("<d", x))[0]


def f32_of_bits(b):
    return struct.unpack("<f", struct.pack("<I", b))[0]


# ------------------------------------------------------------------------------------------
# literal helpers
# ------------------------------------------------------------------------------------------
def with_underscores(rng, digits, p=0.3):
    """single underscores between digits"""
    out = [digits[0]]
    for d in digits[1:]:
        if rng.random() < p:
            out.append("_")
        out.append(d)
    return "".join(out)


def int_spellings(rng, v, n_us=2):
    """well-formed TOML spellings of integer v with their base tag"""
    out = []
    mag = abs(v)
    dec = str(mag)
    if v >= 0:
        out += [dec, "+" + dec]
        for _ in range(n_us):
            if len(dec) > 1:
                u = with_underscores(rng, dec)
                out += [u, "+" + u]
        for fmt, pre in (("%x", "0x"), ("%X", "0x"), ("%o", "0o"), ("{:b}", "0b")):
            body = fmt.format(mag) if fmt.startswith("{") else fmt % mag
            out.append(pre + body)
            out.append(pre + "0" * rng.randrange(1, 4) + body)        # leading zeros are legal here
            for _ in range(n_us):
                if len(body) > 1:
                    out.append(pre + with_underscores(rng, body))
            if pre == "0x":
                mixed = "".join(c.upper() if rng.random() < 0.5 else c.lower() for c in body)
                out.append(pre + mixed)
    else:
        out.append("-" + dec)
        for _ in range(n_us):
            if len(dec) > 1:
                out.append("-" + with_underscores(rng, dec))
    if v == 0:
        out.append("-0")
    return out


INT_RE = re.compile(r"^(?:([+-]?)(0|[1-9](?:_?[0-9])*)|0x([0-9a-fA-F](?:_?[0-9a-fA-F])*)|0o([0-7](?:_?[0-7])*)|0b([01](?:_?[01])*))$")
FLOAT_RE = re.compile(r"^([+-]?)(0|[1-9](?:_?[0-9])*)(?:\.([0-9](?:_?[0-9])*))?(?:[eE]([+-]?)([0-9](?:_?[0-9])*))?$")


def expect_literal(t):
    """independent reading of a number literal (TOML 1.0 grammar + exact arithmetic):
    ('int', v) | ('float', bits) | ('err',) | None (not a number literal we judge)"""
    m = INT_RE.match(t)
    if m:
        sign, dec, hx, oc, bn = m.groups()
        if dec is not None:
            v = int(dec.replace("_", ""))
            v = -v if sign == "-" else v
        elif hx is not None:
            v = int(hx.replace("_", ""), 16)
        elif oc is not None:
            v = int(oc.replace("_", ""), 8)
        else:
            v = int(bn.replace("_", ""), 2)
        return ("int", v) if I64_MIN <= v <= I64_MAX else ("err",)
    m = FLOAT_RE.match(t)
    if m and (m.group(3) is not None or m.group(5) is not None):
        sign, ip, fp, es, ed = m.groups()
        ip = ip.replace("_", "")
        fp = (fp or "").replace("_", "")
        e = int((ed or "0").replace("_", ""))
        e = -e if es == "-" else e
        mant = int(ip + fp)
        e10 = e - len(fp)
        # m * 10^e10 >= THRESH ?  (exact; exponents clamped where the answer is decided)
        if mant == 0:
            over = False
        else:
            nd = len(str(mant))
            if nd + e10 <= 308:
                over = False
            elif nd + e10 > 310:
                over = True
            elif e10 >= 0:
                over = mant * 10 ** e10 >= THRESH
            else:
                over = mant >= THRESH * 10 ** (-e10)
        if over:
            return ("err",)
        if nd_small(mant, e10):
            x = 0.0
        else:
            x = float(str(mant) + "e" + str(e10))
        if sign == "-":
            x = -x
        return ("float", bits_of_f64(x))
    return None


def nd_small(mant, e10):
    return mant == 0 or len(str(mant)) + e10 < -400


# ------------------------------------------------------------------------------------------
# generators
# ------------------------------------------------------------------------------------------
def gen_i64(rng, n):
    vals = set([0, 1, -1, I64_MIN, I64_MAX, I64_MIN + 1, I64_MAX - 1, 10, -10, 9, -9, 99, 100, -100])
    for k in range(0, 64):
        for d in (-2, -1, 0, 1, 2):
            for s in (1, -1):
                vals.add(s * (2 ** k) + d)
    for k in range(0, 20):
        for d in (-1, 0, 1):
            for s in (1, -1):
                vals.add(s * (10 ** k) + d)
    vals = [v for v in vals if I64_MIN <= v <= I64_MAX]
    out = [Case("i64", [str(v).encode()], {"kind": "i64-boundary"}) for v in sorted(vals)]
    for _ in range(n):
        if rng.random() < 0.5:
            v = rng.getrandbits(64) - 2 ** 63
        else:
            v = rng.getrandbits(rng.randrange(1, 64)) * rng.choice((1, -1))
        out.append(Case("i64", [str(v).encode()], {"kind": "i64-random"}))
    return out


def f64_boundary_bits(quick=False):
    b = set()
    specials = [0x0000000000000000, 0x0000000000000001, 0x0000000000000002, 0x000fffffffffffff, 0x0010000000000000,
                0x0010000000000001, 0x7fefffffffffffff, 0x7feffffffffffffe, 0x7ff0000000000000, 0x7ff0000000000001,
                0x7ff8000000000000, 0x7ff8000000000001, 0x7fffffffffffffff, 0x7ff4000000000000, 0x7ff7ffffffffffff,
                0x3ff0000000000000, 0x3ff0000000000001, 0x3fefffffffffffff, 0x4330000000000000, 0x4340000000000000,
                0x433fffffffffffff, 0x4340000000000001, 0x432fffffffffffff, 0x3fe0000000000000, 0x3fb999999999999a,
                0x3fd5555555555555, 0x400921fb54442d18, 0x43e0000000000000, 0x43f0000000000000, 0x41dfffffffc00000]
    for s in specials:
        b.add(s)
        b.add(s | (1 << 63))
    for e in range(0, 2047):                       # every binade: 2^k and its 1-ulp neighbours
        base = e << 52
        full = not quick or e % 16 == 0 or e < 4 or e > 2042 or 1020 <= e <= 1080
        for d in ((0, 1, (1 << 52) - 1, 1 << 51, (1 << 51) + 1) if full else (0, (1 << 52) - 1)):
            for s in ((0, 1 << 63) if full else (0,)):
                b.add(base | d | s)
    for k in range(-330, 310):                     # nearest doubles of 10^k and neighbours
        try:
            x = float("1e%d" % k)
        except OverflowError:
            continue
        if x in (float("inf"),):
            continue
        bb = bits_of_f64(x)
        for d in (-1, 0, 1):
            if 0 <= bb + d < 0x7ff0000000000000:
                b.add(bb + d)
                b.add((bb + d) | (1 << 63))
    for k in range(0, 64):                         # integers 2^k +- 1 (the `.0` suffix logic)
        for d in (-1, 0, 1):
            v = 2 ** k + d
            if v > 0:
                b.add(bits_of_f64(float(v)))
                b.add(bits_of_f64(-float(v)))
                b.add(bits_of_f64(float(v) + 0.5))
    return sorted(b)


def f32_boundary_bits():
    b = set()
    # 0x15ae43fd = 7.038531e-26: the one f32 magnitude whose shortest f32 digits, read as f64, land
    # exactly on an f32 midpoint (found by an exhaustive scan of all 2^32 patterns; the writer used
    # to print those digits and the value came back as 0x15ae43fe — repaired by fix 11c4ed2, which
    # writes the exactly widened f64).  Permanent cases: the defect is reported if it returns.
    specials = [0x15ae43fd, 0x15ae43fc, 0x15ae43fe, 0x00000000, 0x00000001, 0x007fffff, 0x00800000, 0x00800001, 0x7f7fffff, 0x7f7ffffe, 0x7f800000,
                0x7f800001, 0x7fc00000, 0x7fc00001, 0x7fffffff, 0x7fa00000, 0x3f800000, 0x3f800001, 0x3f7fffff,
                0x4b000000, 0x4b800000, 0x4b7fffff, 0x4affffff, 0x3dcccccd, 0x3f000000, 0x40490fdb, 0x4f000000, 0x5f000000]
    for s in specials:
        b.add(s)
        b.add(s | (1 << 31))
    for e in range(0, 255):
        base = e << 23
        for d in (0, 1, (1 << 23) - 1, 1 << 22, (1 << 22) + 1):
            for s in (0, 1 << 31):
                b.add(base | d | s)
    for k in range(0, 32):
        for d in (-1, 0, 1):
            v = 2 ** k + d
            if v > 0:
                x = struct.unpack("<I", struct.pack("<f", float(v)))[0]
                b.add(x)
                b.add(x | (1 << 31))
    return sorted(b)


def gen_f64_bits(rng, n, quick=False):
    out = [(b, "f64-boundary") for b in f64_boundary_bits(quick)]
    for _ in range(n):
        r = rng.random()
        if r < 0.45:                                # uniform over bit patterns
            out.append((rng.getrandbits(64), "f64-uniform-bits"))
        elif r < 0.80:                              # uniform over decimal exponents, short and long mantissas
            digs = rng.randrange(1, 18)
            m = rng.randrange(1, 10 ** digs)
            e = rng.randrange(-400, 401)
            try:
                x = float("%de%d" % (m, e))
            except OverflowError:
                continue
            if x == float("inf"):
                continue
            x = -x if rng.random() < 0.5 else x
            out.append((bits_of_f64(x), "f64-decimal"))
        else:                                       # integral values of every magnitude
            k = rng.randrange(1, 1024)
            v = rng.getrandbits(min(k, 53)) << max(0, k - 53)
            x = float(v)
            x = -x if rng.random() < 0.5 else x
            out.append((bits_of_f64(x), "f64-integral"))
    return out


def gen_f32_bits(rng, n):
    out = [(b, "f32-boundary") for b in f32_boundary_bits()]
    for _ in range(n):
        r = rng.random()
        if r < 0.6:
            out.append((rng.getrandbits(32), "f32-uniform-bits"))
        elif r < 0.85:
            m = rng.randrange(1, 10 ** rng.randrange(1, 9))
            e = rng.randrange(-50, 40)
            try:
                x = struct.unpack("<I", struct.pack("<f", float("%de%d" % (m, e))))[0]
            except (OverflowError, struct.error):
                continue
            out.append((x | (rng.getrandbits(1) << 31), "f32-decimal"))
        else:
            k = rng.randrange(1, 128)
            v = rng.getrandbits(min(k, 24)) << max(0, k - 24)
            try:
                x = struct.unpack("<I", struct.pack("<f", float(v)))[0]
            except (OverflowError, struct.error):
                continue
            out.append((x | (rng.getrandbits(1) << 31), "f32-integral"))
    return out


def float_cases(rng, n64, n32, quick=False):
    """two phases: ask the implementation side for std's `{}` text of every pattern (the model
    cannot run std's printer), then build the real cases `f64w <bits> <std text>`."""
    p64 = gen_f64_bits(rng, n64, quick)
    p32 = gen_f32_bits(rng, n32)
    lines = ["f64print " + common.hexarg(b"%016x" % b) for b, _ in p64] + \
            ["f32print " + common.hexarg(b"%08x" % b) for b, _ in p32]
    main = BINS.get("main")
    outs = common.run_lines(main, lines) if main else [None] * len(lines)
    cases = []
    for (b, kind), o in zip(p64 + p32, outs):
        is64 = kind.startswith("f64")
        bits = (b"%016x" if is64 else b"%08x") % b
        if o is None or not o.startswith("std="):
            # keep the case visible: the oracle reports it
            cases.append(Case("f64w" if is64 else "f32w", [bits, b"?"], {"kind": kind, "bits": b, "noprint": o}))
            continue
        h = o[4:]
        std = b"" if h == "-" else bytes.fromhex(h)
        cases.append(Case("f64w" if is64 else "f32w", [bits, std], {"kind": kind, "bits": b}))
    return cases


def edge_ints():
    vs = set()
    for c in (2 ** 63, 2 ** 64, 2 ** 62, 2 ** 31, 2 ** 32, 2 ** 127, 2 ** 128, 10 ** 18, 10 ** 19, 10 ** 20,
              9223372036854775807, 9223372036854775808, 92233720368547758070, 18446744073709551615):
        for d in range(-3, 4):
            vs.add(c + d)
            vs.add(-(c + d))
    vs |= {0, 1, -1, 7, 8, 15, 16, 255, 256, -255, -256, 2 ** 63 * 16, 2 ** 63 * 8, 2 ** 63 * 2, 2 ** 200, -2 ** 200,
           int("9" * 19), int("9" * 20), int("1" + "0" * 30)}
    return sorted(vs)


MALFORMED_INTS = ["_1", "1_", "1__0", "0x", "0x_1", "0x1_", "0x1__2", "0o8", "0b2", "-0x1", "+0x1", "0X10", "0O7", "0B1",
                  "00", "01", "-01", "+01", "0_0", "1_e3", "--1", "+-1", "0xg", "9223372036854775808_", "0x8000_0000_0000_0000_"]


def gen_int_literals(rng, n_random):
    out = []

    def add(t, kind):
        out.append(Case("lit", [t.encode()], {"kind": kind, "expect": expect_literal(t)}))

    for v in edge_ints():
        for t in int_spellings(rng, v):
            add(t, "int-edge")
    for t in MALFORMED_INTS:
        out.append(Case("lit", [t.encode()], {"kind": "int-malformed", "expect": ("err",)}))
    for _ in range(n_random):
        r = rng.random()
        if r < 0.4:
            v = rng.choice((2 ** 63, 2 ** 64, -2 ** 63)) + rng.randrange(-1000, 1000)
        elif r < 0.7:
            v = rng.getrandbits(rng.randrange(1, 140)) * rng.choice((1, -1))
        else:
            v = rng.getrandbits(64) - 2 ** 63
        add(rng.choice(int_spellings(rng, v, 1)), "int-random")
    return out


def decimal_forms(rng, q_num, q_den10, signs=("", "+", "-")):
    """spellings of the exact decimal q_num / 10^q_den10 (q_num integer >= 0)"""
    digits = str(q_num)
    forms = []
    # plain: integer part . fraction
    if q_den10 == 0:
        forms.append(digits + ".0")
        forms.append(digits + ".000")
        forms.append(digits + "e0")
        forms.append(digits + "E+0")
        forms.append(digits + ".0e-0")
    else:
        d = digits.rjust(q_den10 + 1, "0")
        forms.append(d[:-q_den10] + "." + d[-q_den10:])
        forms.append(d[:-q_den10] + "." + d[-q_den10:] + "0")
        forms.append(digits + "e-%d" % q_den10)
    # scientific: d.ddd e k
    k = len(digits) - 1 - q_den10
    frac = digits[1:] or "0"
    forms.append(digits[0] + "." + frac + "e%d" % k)
    forms.append(digits[0] + "." + frac + "E+%d" % k if k >= 0 else digits[0] + "." + frac + "E%d" % k)
    forms.append(digits[0] + "." + frac + "e%s0%d" % ("-" if k < 0 else "", abs(k)))
    # shifted: digits with trailing zeros and a negative exponent / leading 0.00 and a positive one
    for sh in (1, 3, 17):
        forms.append(digits + "0" * sh + "e-%d" % (q_den10 + sh))
        forms.append(digits + "0" * sh + ".0e-%d" % (q_den10 + sh))
        forms.append("0." + "0" * sh + digits + "e%d" % (len(digits) + sh - q_den10))
    out = []
    for f in forms:
        for s in signs:
            out.append(s + f)
    # underscored variants
    for f in forms[:4]:
        parts = re.split(r"([.eE][+-]?)", f)
        parts = [with_underscores(rng, p, 0.15) if p and p[0].isdigit() and len(p) > 1 else p for p in parts]
        for s in ("", "-"):
            out.append(s + "".join(parts))
    return out


def gen_float_literals(rng, n_random):
    out = []

    def add(t, kind):
        out.append(Case("lit", [t.encode()], {"kind": kind, "expect": expect_literal(t)}))

    # exact expansions of the overflow threshold and neighbours
    near = [THRESH, THRESH - 1, THRESH + 1, MAXFIN, MAXFIN + 1, MAXFIN - 1, THRESH - 10 ** 291, THRESH + 10 ** 291,
            THRESH - 10 ** 100, THRESH + 10 ** 100, 2 ** 1024, 2 ** 1024 - 1, 2 ** 1023, 10 ** 308, 10 ** 309, 2 * 10 ** 308,
            THRESH * 10, THRESH // 10]
    for v in near:
        for t in decimal_forms(rng, v, 0):
            add(t, "float-threshold")
    # threshold -/+ a fraction: (THRESH*10^k -+ 1) / 10^k
    for k in (1, 2, 5, 20):
        for d in (-1, 0, 1):
            for t in decimal_forms(rng, THRESH * 10 ** k + d, k):
                add(t, "float-threshold-frac")
    # truncated scientific forms around the edge
    for mant in ("1.7976931348623157", "1.7976931348623158", "1.7976931348623159", "1.797693134862315807",
                 "1.797693134862315808", "1.79769313486231580793", "1.79769313486231580794", "1.8", "1.79", "1.7976931348623157081",
                 "17976931348623157", "17976931348623158", "17976931348623159", "0.17976931348623159", "0.17976931348623158"):
        for e in (290, 291, 292, 293, 307, 308, 309, 310):
            for s in ("", "+", "-"):
                for E in ("e", "E", "e+"):
                    add("%s%s%s%d" % (s, mant, E, e), "float-edge-sci")
    # exponent sweep
    for e in list(range(-420, 421)) + [999, 1000, 4999, 99999, 2 ** 31, 2 ** 63, 2 ** 64, 10 ** 30]:
        for mant in ("1", "9", "1.0", "9.999", "0", "0.0", "123456789012345678901234567890", "0.000001"):
            for s in ("", "-"):
                add("%s%se%d" % (s, mant, e), "float-exp-sweep")
    for e in (999, 99999, 2 ** 64):
        for s in ("", "-", "+"):
            add("%s1e-%d" % (s, e), "float-exp-sweep")
    # special floats
    for t in ("inf", "+inf", "-inf", "nan", "+nan", "-nan", "Inf", "NaN", "infinity", "-Inf", "1e", "1.e1", ".1", "1.", "1e+", "1_.0", "1._0", "1.0_", "1e_1", "1e1_", "01.0", "-01e1", "1.0.0"):
        out.append(Case("lit", [t.encode()], {"kind": "float-special",
                                              "expect": ("err",) if t not in ("inf", "+inf", "-inf", "nan", "+nan", "-nan") else None}))
    for _ in range(n_random):
        r = rng.random()
        digs = rng.choice((1, 2, 5, 15, 17, 18, 25, 40))
        m = rng.randrange(1, 10 ** digs)
        if r < 0.5:
            e = rng.randrange(-400, 401)
        else:
            e = 309 - len(str(m)) + rng.randrange(-2, 3)     # magnitudes near the edge
        den = rng.randrange(0, len(str(m)) + 3)
        forms = decimal_forms(rng, m, den, signs=("", "-"))
        t = rng.choice(forms)
        # add an exponent on top of plain forms
        if "e" not in t and "E" not in t:
            t = t + "e%d" % (e + den)
        add(t, "float-random")
    return out


def type_values(rng, ty, n):
    lo, hi = TYPES[ty]
    vs = {lo, lo + 1, hi, hi - 1, 0, 1}
    for c in (2 ** 63 - 1, 2 ** 63, 2 ** 63 + 1, 2 ** 64 - 1, -2 ** 63, -2 ** 63 - 1, 2 ** 31, 2 ** 32, 127, 128, 255, 256, -1, -128, -129):
        vs.add(c)
    for _ in range(n):
        k = rng.randrange(1, max(2, hi.bit_length() + 1))
        v = rng.getrandbits(k)
        if lo < 0 and rng.random() < 0.5:
            v = -v
        vs.add(v)
    return sorted(v for v in vs if lo <= v <= hi)


def gen_serde(rng, n):
    out = []
    for ty in TYPES:
        for v in type_values(rng, ty, n):
            out.append(Case("serw", [ty.encode(), str(v).encode()], {"kind": "serw", "ty": ty, "v": v}))
            out.append(Case("viw", [ty.encode(), str(v).encode()], {"kind": "viw", "ty": ty, "v": v}))
    # input: literals at every type's edges (and one beyond), read into every type
    edges = set()
    for lo, hi in TYPES.values():
        edges |= {lo - 1, lo, lo + 1, hi - 1, hi, hi + 1}
    edges |= {0, 1, -1}
    for ty in TYPES:
        lo, hi = TYPES[ty]
        for v in sorted(edges):
            out.append(Case("dew", [ty.encode(), str(v).encode()], {"kind": "dew", "ty": ty, "v": v}))
        for _ in range(n):
            k = rng.randrange(1, 70)
            v = rng.getrandbits(k) * rng.choice((1, -1))
            sp = rng.choice(int_spellings(rng, v, 1))
            out.append(Case("dew", [ty.encode(), sp.encode()], {"kind": "dew-spelling", "ty": ty, "v": v}))
    return out


def gen_cases(rng, tier):
    q = tier == "quick"
    out = []
    out += gen_i64(rng, 20000 if q else 400000)
    out += float_cases(rng, 30000 if q else 800000, 12000 if q else 300000, quick=q)
    out += gen_int_literals(rng, 8000 if q else 200000)
    out += gen_float_literals(rng, 8000 if q else 200000)
    out += gen_serde(rng, 150 if q else 3000)
    return out


# ------------------------------------------------------------------------------------------
# oracle (judges the implementation's line only)
# ------------------------------------------------------------------------------------------
FIELD = re.compile(r"(\w+)=(\S+)")
STD_FINITE = re.compile(rb"^-?[0-9]+(\.[0-9]+)?$")


def fields(line):
    return dict(FIELD.findall(line))


def check_std_text(case):
    """the hypotheses the Coq theorem C11_float_write_shape makes about std's printer,
    tested against Python's independent conversion"""
    b, std = case.meta["bits"], case.args[1]
    is64 = case.cmd == "f64w"
    x = f64_of_bits(b) if is64 else f32_of_bits(b)
    if x != x:
        return None if std == b"NaN" else "std printed a NaN as %r" % std
    if x in (float("inf"), float("-inf")):
        return None if std == (b"inf" if x > 0 else b"-inf") else "std printed an infinity as %r" % std
    if not STD_FINITE.match(std):
        return "std `{}` text %r is not [-]digits[.digits]" % std
    if (b"." in std) == (x == int(x)) and x != 0:
        return "std `{}` text %r: fractional part present iff value integral" % std
    # f32: the writer widens first, so std's text is that of the (exactly) widened f64
    y = float(std.decode())
    if y != x or (std.startswith(b"-") != (b >> (63 if is64 else 31) == 1)):
        return "std `{}` text %r does not read back as the same float" % std
    return None


def oracle(case, line):
    f = fields(line)
    if case.cmd == "i64":
        if f.get("rt") != "ok":
            return "i64 %s printed as %s reads back as %s" % (case.args[0].decode(), f.get("lit"), f.get("val"))
        if f.get("val") != "ok:i:" + case.args[0].decode():
            return "i64 %s reads back as %s" % (case.args[0].decode(), f.get("val"))
        return None
    if case.cmd in ("f64w", "f32w"):
        if "noprint" in case.meta or line in ("std-mismatch", "bad-input"):
            return "could not obtain std's text for the pattern: %s / %s" % (case.meta.get("noprint"), line)
        why = check_std_text(case)
        if why:
            return "std-oracle hypothesis violated: " + why
        v = f.get("val", "")
        if not v.startswith("ok:f:"):
            return "float %s written as %r is not read back as a float: %s" % (
                case.args[0].decode(), bytes.fromhex(f.get("lit", "")).decode("utf-8", "replace") if f.get("lit", "-") != "-" else "", v)
        if f.get("rt") != "ok":
            return "float %s written as %r reads back as %s" % (
                case.args[0].decode(), bytes.fromhex(f["lit"]).decode("utf-8", "replace"), v)
        return None
    if case.cmd == "lit":
        exp = case.meta.get("expect")
        v = f.get("val", "")
        t = case.args[0].decode("utf-8", "replace")
        if exp is None:
            # inf/nan spellings: never an integer, never an error-free wrong kind
            return None
        exp = tuple(exp)
        if exp[0] == "err":
            return None if v == "err" else "literal %s must be rejected but gives %s" % (t, v)
        if exp[0] == "int":
            return None if v == "ok:i:%d" % exp[1] else "integer literal %s (= %d) gives %s" % (t, exp[1], v)
        if exp[0] == "float":
            return None if v == "ok:f:bits:%016x" % exp[1] else "float literal %s (bits %016x) gives %s" % (t, exp[1], v)
        return "bad expectation"
    if case.cmd == "serw":
        ty, v = case.meta["ty"], case.meta["v"]
        fits = I64_MIN <= v <= I64_MAX
        for route in ("edit", "toml", "value"):
            r = f.get(route)
            want_text = "ok:" + (str(v).encode().hex() if route != "value" else str(v))
            if r == "err":
                if fits and ty not in WIDE:
                    return "%s value %d (fits i64) refused on output by route %s" % (ty, v, route)
            elif r == want_text:
                if not fits:
                    return "%s value %d beyond i64 written by route %s" % (ty, v, route)
            else:
                return "%s value %d written as %s by route %s" % (ty, v, r, route)
        return None
    if case.cmd == "viw":
        ty, v = case.meta["ty"], case.meta["v"]
        r = f.get("value")
        # lossless or rejected: the exact integer, or an error (128-bit sources are refused outright: serde's default visit_i128 / u128)
        if I64_MIN <= v <= I64_MAX:
            if r == "ok:%d" % v or (r == "err" and ty in WIDE):
                return None
            return "%s value %d handed to toml::Value's visitor becomes %s" % (ty, v, r)
        return None if r == "err" else "%s value %d (beyond i64) handed to toml::Value's visitor becomes %s instead of an error" % (ty, v, r)
    if case.cmd == "dew":
        ty, v = case.meta["ty"], case.meta["v"]
        lo, hi = TYPES[ty]
        fits = I64_MIN <= v <= I64_MAX and lo <= v <= hi
        for route in ("edit", "toml", "value"):
            r = f.get(route)
            if r == "err":
                if fits and ty not in WIDE:
                    return "integer %d fits %s but is refused on input by route %s" % (v, ty, route)
            elif r == "ok:%d" % v:
                if not fits:
                    return "integer %d outside %s accepted by route %s" % (v, ty, route)
            else:
                return "integer %d read into %s as %s by route %s (wrapped or saturated)" % (v, ty, r, route)
        return None
    return "unknown case"


def nontrivial(case, line):
    return True


DECH = re.compile(r"f:dech:(-?)([0-9a-f]+)e(-?\d+)")


def model_norm(line):
    """`f:dech:<hex m>e<e>` (exact decimal m*10^e, mantissa in hex) -> `f:bits:` via floatnorm"""
    if line is None or "f:dech:" not in line:
        return line
    line = DECH.sub(lambda m: "f:dec:%s%de%s" % (m.group(1), int(m.group(2), 16), m.group(3)), line)
    return floatnorm.norm(line)


def compare(case, model_line, impl_line):
    il = impl_line
    if case.cmd == "viw":
        return None          # oracle only: the visitor of toml::Value fed by a foreign serde source has no model counterpart
    if case.cmd in ("f64w", "f32w"):
        # `rt=` needs the final binary rounding, which the model leaves to the differ
        il = re.sub(r" rt=\w+$", "", il)
    if model_norm(model_line) == il:
        return None
    return "model and implementation differ"


def extra_coverage(cases, impl, model):
    acc = sum(1 for c, l in zip(cases, impl) if c.cmd == "lit" and l and l.startswith("val=ok"))
    rej = sum(1 for c, l in zip(cases, impl) if c.cmd == "lit" and l == "val=err")
    return {"literals_accepted": acc, "literals_rejected": rej}


def search(rng, ctx):
    """after a broken obligation: all literal families first (range and overflow guards live
    there), then the writer cases; the oracle is model-independent"""
    pre = [c for c, il, ml, d in ctx["divergences"][:200]]
    lits = gen_int_literals(rng, 20000) + gen_float_literals(rng, 20000)
    rest = gen_i64(rng, 20000) + float_cases(rng, 50000, 20000) + gen_serde(rng, 300)
    return pre + lits + rest


def shrink(case, il, why, run):
    if case.cmd != "lit":
        return case, il, why
    cur, cur_il, cur_why = case, il, why
    changed = True
    while changed:
        changed = False
        s = cur.args[0]
        cands = []
        for i in range(len(s)):
            t = s[:i] + s[i + 1:]
            try:
                e = expect_literal(t.decode())
            except Exception:
                continue
            if e is not None:
                cands.append(Case("lit", [t], {"kind": "shrunk", "expect": e}))
        if not cands:
            break
        outs = run(cands)
        for c, l in zip(cands, outs):
            w = "crash" if (l is None or l.startswith("PANIC") or l.startswith("CRASH")) else oracle(c, l)
            if w:
                cur, cur_il, cur_why = c, l, w
                changed = True
                break
    return cur, cur_il, cur_why
