"""C14 — Spans point at exactly the source text of each item.

`spans`: every span the immutable document reports (keys, values, tables, arrays of tables) in traversal
order; the harness itself checks on the implementation: within the document, on character boundaries,
syntactic children inside their parent (keys/values of a section inside the section's table span, array
elements and inline-table entries inside their container, array-of-tables elements inside the array's span),
re-parsing the spanned slice alone yields the same key / value (tables made of dotted keys are not written as
values and are exempt), and no span survives `into_mut()`.  The span list is compared with the model's.
`spanned`: spans delivered through serde (`Spanned<T>` fields, map keys and values) equal the document's spans,
and wrapping a target type in `Spanned` changes neither success nor values (struct family + any document
through a map with Spanned keys and values).
"""
from runner import Case
import gen_toml as G

PROP = "C14"
COQ_PROPS = "Props/C14.v"
COQ_PROPS_EXTRA = ["Props/C14spans.v"]
THEOREMS = ["Props/C14spans.v (21) + Props/C14.v (4): every stored span lies within the source on character boundaries, is exactly the consumed text for values and keys, re-parses to the same key / data, is nested in its section / container; C14_explicit_table_span: every table with a header of its own, every array-of-tables element and the root has a span; nothing is left and nothing fails after into_mut (names in coverage.theorem_names)"]
RULE = ("valid abstract documents with multi-byte characters next to tokens, BOM, CRLF, comments and whitespace around every token, "
        "nested containers, dotted keys, header / array-of-tables layouts; documents rendered for the Spanned struct family in "
        "every layout (inline, dotted, header); non-trivial = document with >= 3 spans")
ASSUMPTIONS = ["'child' is read syntactically: a sub-table defined by its own header elsewhere is not inside its super-table's span"]


def struct_docs(rng, tier):
    """documents for the fixed family: a: i64, b: String, c: [i64], t: {x: i64, y?: String}, u?: [[..]], f?: f64"""
    out = []
    n = 1500 if tier == "quick" else 40000
    for _ in range(n):
        tg = G.TreeGen(rng)
        rn = G.Renderer(rng)
        stmts = [("kv", [b"a"], ("i", tg.integer())), ("kv", [b"b"], ("s", tg.string())),
                 ("kv", [b"c"], ("a", [("i", tg.integer()) for _ in range(rng.randrange(0, 4))]))]
        if rng.random() < 0.4:
            stmts.append(("kv", [b"f"], ("f", rng.choice(["1.5", "-0.0", "1e10", "3.25"]))))
        rng.shuffle(stmts)
        tx = ("i", tg.integer())
        ty = ("s", tg.string()) if rng.random() < 0.5 else None
        layout = rng.randrange(3)
        if layout == 0:
            pairs = [([b"x"], tx)] + ([([b"y"], ty)] if ty else [])
            stmts.append(("kv", [b"t"], ("t", pairs)))
        elif layout == 1:
            stmts.append(("kv", [b"t", b"x"], tx))
            if ty:
                stmts.append(("kv", [b"t", b"y"], ty))
        tail = []
        if layout == 2:
            tail.append(("hdr", [b"t"]))
            tail.append(("kv", [b"x"], tx))
            if ty:
                tail.append(("kv", [b"y"], ty))
        for _k in range(rng.choice([0, 0, 1, 2])):
            tail.append(("aot", [b"u"]))
            tail.append(("kv", [b"x"], ("i", tg.integer())))
        stmts += tail
        if rng.random() < 0.15:
            # a mismatching document: both plain and wrapped must fail alike
            stmts.append(("kv", [b"zz"], ("i", 1)))
            if rng.random() < 0.5:
                stmts = [s for s in stmts if s[1] != [b"a"]]
        if G.ref_eval(stmts)[0] == "valid":
            out.append(Case("spanned", [b"fixed", rn.document(stmts)], {"kind": "spanned-fixed"}))
    return out


def gen_cases(rng, tier):
    out = []
    n_docs = 6000 if tier == "quick" else 250000
    for _ in range(n_docs):
        tg = G.TreeGen(rng, small_keys=rng.random() < 0.2)
        st = tg.statements(tg.tree())
        v = G.ref_eval(st)
        if v[0] != "valid" or not G.within_limits(st):
            continue
        text = G.Renderer(rng, comment_p=0.4, ws_p=0.4).document(st)
        out.append(Case("spans", [text], {"kind": "spans", "n": len(st)}))
        if rng.random() < 0.35 and b"$__" not in text:
            out.append(Case("spanned", [b"generic", text], {"kind": "spanned-generic"}))
        if rng.random() < 0.08 and b"$__" not in text and not text.startswith(b"\xef\xbb\xbf"):
            out.append(Case("spans", [b"\xef\xbb\xbf" + text], {"kind": "spans", "n": len(st), "family": "bom"}))
            out.append(Case("spanned", [b"generic", b"\xef\xbb\xbf" + text], {"kind": "spanned-generic", "family": "bom"}))
    # every order of the headers of small table trees: a deep header first creates its super-tables implicitly, their own
    # header re-opens them later (the span of a table with a header is its own section, whenever the header comes)
    import itertools
    trees = [
        [(b"p",), (b"p", b"a"), (b"p", b"a", b"b")],
        [(b"a", b"b", b"c"), (b"a", b"x"), (b"a", b"y"), (b"a",), (b"a", b"b")],
        [(b"p",), (b"p", b"a", b"b"), (b"q",), (b"p", b"c"), (b"p", b"a")],
        [(b"t", b"u", b"v", b"w"), (b"t",), (b"t", b"u"), (b"t", b"u", b"v")],
    ]
    for paths in trees:
        perms = list(itertools.permutations(range(len(paths))))
        if len(perms) > 24:
            perms = rng.sample(perms, 24 if tier == "quick" else 120)
        for perm in perms:
            st = []
            for hi in perm:
                st.append(("hdr", list(paths[hi])))
                for j in range(rng.choice([0, 1, 2])):
                    st.append(("kv", [b"k%d%d" % (hi, j)], ("s", ("h\u00e9llo %d" % j).encode())))
            if G.ref_eval(st)[0] != "valid":
                continue
            text = G.Renderer(rng, comment_p=0.4, ws_p=0.4, crlf_p=0.3).document(st)
            out.append(Case("spans", [text], {"kind": "spans", "n": len(st), "family": "header-order"}))
            out.append(Case("spanned", [b"generic", text], {"kind": "spanned-generic", "family": "header-order"}))
    out += struct_docs(rng, tier)
    for t in [b"a.b = 1\n", b"t.x = 5\nt.y = 'q'\n", b"c = {d.e = 1, d.f = 2}\n", "'é' = 'ü'\n\"日本\".x = [ 'é', {k = \"😀\"} ]\n".encode(),
              b"\xef\xbb\xbfa = 1\r\n[t]\r\nk = 2\r\n", b"[[u]]\n[[u]]\nz = 3\n[u.v]\nw = 1\n"]:
        out.append(Case("spans", [t], {"kind": "spans", "n": 3}))
        out.append(Case("spanned", [b"generic", t], {"kind": "spanned-generic"}))
    return out


def _fields(line):
    return dict(p.split("=", 1) for p in line.split(" ") if "=" in p)


def oracle(case, line):
    f = _fields(line)
    if case.cmd == "spans":
        if not line.startswith("ok "):
            return "valid document rejected"
        for k in ("bounds", "boundary", "nest", "reparse", "despan", "shape"):
            if f.get(k) != "ok":
                return "span check failed: %s=%s" % (k, f.get(k))
        return None
    if case.cmd == "spanned":
        if f.get("plain") != f.get("wrapped"):
            return "wrapping the target type in Spanned changed the verdict: plain=%s wrapped=%s" % (f.get("plain"), f.get("wrapped"))
        if "plain_edit" in f and (f.get("plain_edit") != f.get("wrapped_edit") or f.get("plain_edit") != f.get("plain")):
            return "toml and toml_edit routes / Spanned wrapping disagree: %s" % line
        if f.get("plain") == "ok":
            if f.get("values") != "same":
                return "values differ after erasing spans"
            if f.get("spans") != "same":
                return "spans delivered through serde differ from the document's spans"
            if "slice" in f and f.get("slice") != "same":
                return "toml_edit::de::from_slice delivers other spans than from_str on the same bytes: slice=%s" % f.get("slice")
        return None
    return None


def known_class(case, line):
    # Spanned<T> over a table that only a longer header mentions ([a.b] makes `a` implicit, without a span):
    # pinned by the repo's own test serde::span_for_sequence_as_map (error located at the key instead)
    f = _fields(line)
    if case.cmd == "spanned" and case.args[0] == b"generic" and f.get("plain") == "ok" and f.get("wrapped") == "err" \
            and int(f.get("nospan", "0")) > 0 and int(f.get("nospan_explicit", "0")) == 0:
        return "C14-implicit-table-span"
    return None


def compare(case, model_line, impl_line):
    if case.cmd != "spans":
        return None
    return None if _fields(model_line).get("spans") == _fields(impl_line).get("spans") else "span lists differ"


def nontrivial(case, line):
    if case.cmd == "spans":
        return line.count(",") >= 2
    return line.startswith("plain=ok")


def search(rng, ctx):
    return gen_cases(rng, "quick")
