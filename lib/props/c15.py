"""C15 — Every rejection is a well-formed, correctly located error."""
import re, subprocess
from runner import Case
import gen_toml

PROP = "C15"
TITLE = "Every rejection is a well-formed, correctly located error"
COQ_PROPS = "Props/C15.v"
DRIVER_NAME = "c15"
HARNESS = {"bin": "c15"}
THEOREMS = [
    "C15_position: valid UTF-8 s, char boundary i <= len s -> translate_position s i = (lines_before s i, chars_since_line_start s i) (incl. end of input, with and without final newline)",
    "C15_span_ok: valid UTF-8 s, off <= len s -> char_span s off = (a,b) with a <= b <= len s, both char boundaries, a <= off",
    "C15_translate_total: no slice bound / usize subtraction in translate_position can fail, for any input and index",
    "C15_render_total: rendering the error at char_span s off reaches no panic site",
    "C15_offset_in_range (+ _value, _key, _key_path): every error offset of the parser is <= len s (whole parser, general invariant over all combinators)",
    "C15_message: parse_document s = PErr e at, no bare CR at / right before at -> e has a cause or a context (message non-empty); whole parser",
    "C15_message_refuted, C15_message_refuted_array: witnesses CR and `a = [CR]` have an empty message (known finding C15-empty-message-bare-cr)",
    "C15_located: all of the above composed for one rejected document",
    "C15_message_trailing: p (new_input s) = Ok a i, rest i <> [] -> parse_all (terminated_eoi p) s = Failed {cause none, context} (pos i) "
    "and parse_all p s = Failed err0 (pos i): trailing input after a complete stand-alone value / key is rejected WITH the context "
    "`end of input` where Parser::parse alone gave an empty message",
    "C15_eoi_same_accepted, C15_eoi_same_offset: terminated(P, end_of_input).parse accepts exactly what P.parse accepts, with the same result; "
    "a rejection keeps its offset and cause and never loses a context",
    "C15_message_value: parse_value_raw s = PErr e at, no bare CR at / right before at -> e has a cause or a context (Value::from_str)",
    "C15_message_value_refuted: the value `[CR]` has an empty message (same known finding C15-empty-message-bare-cr)",
    "C15_message_key_path: parse_key_path s = PErr e at -> e has a cause or a context (Key::parse; no side condition)",
    "C15_message_key: parse_key s = PErr e at -> e has a cause or a context (Key::from_str; no side condition: simple_key carries "
    "the context Label(\"key\") around its whole dispatch; Example C15_ex_key_start_repaired: the empty input, `!` and a lone CR, "
    "which had an EMPTY message before that context was added, now carry it)",
]
RULE = ("valid generated documents (multi-byte characters in keys, strings, comments) x truncation at every character boundary, "
        "single-byte insertion/substitution/deletion at every position from a small byte set, gen_toml.mutate, multi-byte characters "
        "inserted right before and at the implementation's error position, with and without final newline, CR-related inputs, "
        "value/key fragments through Value::from_str / Key::from_str / Key::parse (valid ones, truncations, single-byte insertions / "
        "substitutions, fixed families: trailing input after a complete value / key, every first byte, CR inputs); a NON-EMPTY message is "
        "demanded of every rejection on all four entry points; (valid document, mismatching Rust type) pairs "
        "through five deserialization routes; non-trivial = rejected input whose error offset is > 0 (deerr: an error was returned)")
ASSUMPTIONS = [
    "DocumentMut::from_str / Value::from_str / Key::from_str / Key::parse are the observation points of parser errors (TomlError::span, message, Display)",
    "line/column are read back from the first line of Display; a panic while rendering is caught by catch_unwind",
    "the stand-alone entry points run winnow::combinator::terminated(P, end_of_input).parse (parser/mod.rs); winnow's `eof`, `context` and "
    "`Parser::parse` are the oracle of Base/Winnow.v (eof fails with a bare backtrack error, context marks Backtrack and Cut errors alike)",
    "the serde half (deerr) is judged on the implementation only: expected spans are looked up in toml_edit::ImDocument by key path",
]

FIELD = re.compile(r"(\w+)=(\S+)")


def fields(line):
    return dict(FIELD.findall(line))


# ---------------------------------------------------------------------------------------------
# the independent position oracle
# ---------------------------------------------------------------------------------------------
def is_boundary(text, i):
    if i == len(text):
        return True
    if i > len(text):
        return False
    return (text[i] & 0xC0) != 0x80


def expected_line_col(text, i):
    """1-based (line, column) of byte offset i, counting characters; at end of input the
    position is one past the end of the last line (a final newline does not open a new line)."""
    if not text:
        return 1, 1 + i
    anchor = min(i, len(text) - 1)
    line = text.count(b"\n", 0, anchor)
    ls = text.rfind(b"\n", 0, anchor) + 1
    col = sum(1 for b in text[ls:i] if (b & 0xC0) != 0x80)
    return line + 1, col + 1


def err_checks(text, f):
    """list of reasons other than message emptiness"""
    bad = []
    if f.get("render") != "ok":
        bad.append("rendering the error panicked")
    sp = f.get("span")
    if sp is None:
        return ["unparsable observation"]
    if sp == "none":
        if f.get("line") != "none":
            bad.append("line/column rendered without a span")
        return bad
    a, b = (int(x) for x in sp.split("-"))
    n = len(text)
    if not (0 <= a <= b <= n):
        bad.append("span %d-%d outside the document (len %d)" % (a, b, n))
        return bad
    if not is_boundary(text, a) or not is_boundary(text, b):
        bad.append("span %d-%d not on character boundaries" % (a, b))
    if f.get("render") == "ok":
        el, ec = expected_line_col(text, a)
        if f.get("line") != str(el) or f.get("col") != str(ec):
            bad.append("rendered line %s column %s, expected line %d column %d for offset %d"
                       % (f.get("line"), f.get("col"), el, ec, a))
    return bad


def bare_cr_at(text, j):
    return 0 <= j < len(text) and text[j] == 0x0D and text[j + 1:j + 2] != b"\n"


def empty_class(text, f):
    """decidable classifier of the one known empty-message finding, from the input bytes and the
    reported span: the message is empty and a bare CR (0x0D not followed by 0x0A) sits at
    span.start (the document parser's `repeat` stopped in front of it and `eof` failed) or at
    span.start - 1 (array whitespace: trivia.rs `newline` has consumed the CR when the LF is
    missing).  Both are pinned by the repository's own tests (fixtures/invalid/control/bare-cr.stderr,
    testsuite/parse.rs::stray_cr), so they cannot be repaired."""
    if f.get("msg") != "empty" or f.get("span") in (None, "none"):
        return None
    a = int(f["span"].split("-")[0])
    if bare_cr_at(text, a) or bare_cr_at(text, a - 1):
        return "C15-empty-message-bare-cr"
    return None


def oracle(case, line):
    if case.cmd == "deerr":
        return oracle_deerr(case, line)
    if line == "ok":
        return None
    if line in ("notutf8", "bad-args", "unknown-command"):
        return "unexpected observation: " + line
    if line.endswith(" vd=differs"):
        return "the serde value deserializer (str::parse::<de::ValueDeserializer>) reports another verdict / span / message / rendering than Value::from_str"
    text = case.args[0]
    f = fields(line)
    bad = err_checks(text, f)
    if bad:
        return "; ".join(bad)
    # every rejection carries a message: documents and the stand-alone entry points (Value::from_str,
    # Key::from_str, Key::parse) alike
    if f.get("msg") != "nonempty":
        return "empty error message"
    return None


def known_class(case, line):
    if case.cmd == "deerr":
        # minor finding (reported, not registered): without source text the key path of an error
        # below an enum variant table omits the variant's key: `e = { N = "x" }` -> in `e`
        alt = case.meta.get("keys_alt")
        if alt is not None:
            c2 = Case(case.cmd, case.args, dict(case.meta, keys=alt, keys_alt=None))
            if oracle_deerr(c2, line) is None:
                return "C15-de-keypath-omits-enum-variant"
        return None
    if not line.startswith("err "):
        return None
    text = case.args[0]
    f = fields(line)
    if err_checks(text, f):
        return None            # something else is wrong as well: never masked
    return empty_class(text, f)


def nontrivial(case, line):
    if case.cmd == "deerr":
        return "span:" in line
    if not line.startswith("err "):
        return False
    sp = fields(line).get("span", "none")
    return sp != "none" and int(sp.split("-")[0]) > 0


# classes of inputs on which the model's error OFFSET is known to differ from winnow's
# (reported; the verdict, message emptiness and everything else is still compared)
def offset_class_excluded(case, ml, il):
    return False


def compare(case, ml, il):
    if case.cmd == "deerr":
        return None            # implementation-oracle only
    if ml == il:
        return None
    if offset_class_excluded(case, ml, il):
        fm, fi = fields(ml), fields(il)
        if ml.split(" ")[0] == il.split(" ")[0] and fm.get("msg") == fi.get("msg"):
            return None
    return "model and implementation differ"


# ---------------------------------------------------------------------------------------------
# serde half: oracle
# ---------------------------------------------------------------------------------------------
ROUTE = re.compile(r"(\w+)=(\S+)")
WITH_TEXT = ("toml_from_str", "edit_from_str", "from_imdoc", "edit_from_slice")
WITHOUT_TEXT = ("from_docmut", "value_first", "table_first")
SPANS_NO_TEXT = ("respanned",)      # items carry spans, the text is not available: the span must be right AND the key path rendered


def route_fields(v):
    return dict(x.split(":", 1) for x in v.split(","))


def oracle_deerr(case, line):
    if line in ("parse-error", "unknown-type", "bad-args", "notutf8"):
        return "generator produced an unusable case: " + line
    f = dict(ROUTE.findall(line))
    text = case.args[1]
    exp = f.get("exp")
    want_keys = case.meta.get("keys", "")
    bad = []
    for r in WITH_TEXT + WITHOUT_TEXT + SPANS_NO_TEXT:
        v = f.get(r)
        if v is None:
            bad.append("%s: missing" % r)
            continue
        if v == "ok":
            bad.append("%s: mismatching type accepted" % r)
            continue
        if v == "parse-error":
            bad.append("%s: document did not parse" % r)
            continue
        rf = route_fields(v)
        if rf.get("render") != "ok":
            bad.append("%s: rendering panicked" % r)
        if rf.get("msg") != "nonempty":
            bad.append("%s: empty message" % r)
        if r in WITH_TEXT:
            if rf.get("span") == "none":
                bad.append("%s: no span although the source text is available" % r)
            else:
                if exp != "none" and rf.get("span") != exp:
                    bad.append("%s: span %s, offending value is at %s" % (r, rf.get("span"), exp))
                a = int(rf["span"].split("-")[0])
                b = int(rf["span"].split("-")[1])
                if not (0 <= a <= b <= len(text)) or not is_boundary(text, a) or not is_boundary(text, b):
                    bad.append("%s: span %s not inside the document on character boundaries" % (r, rf.get("span")))
                elif rf.get("render") == "ok":
                    el, ec = expected_line_col(text, a)
                    if rf.get("line") != str(el) or rf.get("col") != str(ec):
                        bad.append("%s: rendered line %s column %s, expected %d/%d" % (r, rf.get("line"), rf.get("col"), el, ec))
        elif r in SPANS_NO_TEXT:
            if rf.get("span") != "none" and exp != "none" and rf.get("span") != exp:
                bad.append("%s: span %s, offending value is at %s" % (r, rf.get("span"), exp))
            # whatever the span: without the text the rendering has to locate the error by its key path
            got = rf.get("keys")
            got = b"" if got in (None, "none") else bytes.fromhex(got)
            if got.decode("utf-8", "replace") != want_keys:
                bad.append("%s: key path `%s`, expected `%s`" % (r, got.decode("utf-8", "replace"), want_keys))
        else:
            if rf.get("span") != "none":
                # a span without text cannot be rendered; it must then still be the right one
                if exp != "none" and rf.get("span") != exp:
                    bad.append("%s: span %s, offending value is at %s" % (r, rf.get("span"), exp))
            else:
                got = rf.get("keys")
                got = b"" if got in (None, "none") else bytes.fromhex(got)
                if got.decode("utf-8", "replace") != want_keys:
                    bad.append("%s: key path `%s`, expected `%s`" % (r, got.decode("utf-8", "replace"), want_keys))
    return "; ".join(bad) if bad else None


# ---------------------------------------------------------------------------------------------
# generators
# ---------------------------------------------------------------------------------------------
MB = ["é".encode(), "日".encode(), "😀".encode(), "ñ̃".encode()]
BYTESET = [b"\r", b"\n", b"\x01", b"\x7f", b"\"", b"'", b"#", b"=", b"[", b"]", b"{", b"}", b",", b".", b" ", b"\\", b"\t",
           b"0", b"a", b"_", b"-", b":", b"\x00", b"\x1f", b"\x0b"]

CR_INPUTS = [
    b"\r", b"\r\n", b"\r\r", b"\n\r", b"a = 1\n\rb = 2", b"a = 1\r", b"a = 1\r\n\r", b" \r", b"\t\r\n\r", b"\xef\xbb\xbf\r",
    b"# c\r", b"# c\r\n", b"# c\rx", b"a = 1 # c\r", b"a = 1 # c\rb", b"[a]\r", b"[a]\r\n\r", b"[a]\n\r", b"a = '''\r'''", b"a = \"\"\"\r\"\"\"",
    b"a = [\r]", b"a = [\r\n]", b"a = [ # c\r]", b"a = [1,\r2]", b"a = \"\r\"", b"a = '\r'", b"\r\na = 1", b"\ra = 1", b"a\r= 1", b"a =\r1",
    b"a = 1\n\r", b"a = 1\n\r\n", b"a = 1\n \r", b"a = 1\n\n\r\n\r", b"\"\xc3\xa9\" = 1\n\r", b"# \xc3\xa9\n\r", b"a = {\r}", b"a = \"\"\"\\\r\"\"\"",
]

EOF_INPUTS = [
    b"a =", b"a = ", b"a", b"a.", b"a = [", b"a = [1,", b"a = {", b"a = {b=", b"a = {b=1", b"a = {b=1,", b"[", b"[a", b"[a.", b"[[a]", b"[[a",
    b"a = \"", b"a = \"x", b"a = \"\"\"", b"a = \"\"\"\n", b"a = '''", b"a = '''\n", b"a = '", b"a = 0x", b"a = 1e", b"a = 1.", b"a = +", b"a = tru",
    b"a = 1979-05-27T", b"a = 1979-05-", b"a = 12:", b"a = \"\\", b"a = \"\\u00", b"a = [ #x", b"a = [ 1, #x", b"a = [1", b"# c", b"a = 1 #",
    b"a = 1\nb =", b"a = 1\nb = \"\"\"\n\n", b"a = 1\n[x", b"a = 1\n[x]\ny", b"a=1\n\n\nb", b"a=1\r\nb", b"\n\n\na", b"a = \"\"\"\n\n\n",
]

ERR_TAILS = [b" x", b"= 1", b"\x01", b"\r", b"\"", b"]", b" 1", b",", b"\x7f", b"\xc3\xa9", b"\xe6\x97\xa5", b"\xf0\x9f\x98\x80", b""]


def valid_docs(rng, n, max_len=260):
    out = []
    tries = 0
    while len(out) < n and tries < n * 20:
        tries += 1
        tg = gen_toml.TreeGen(rng, max_depth=2)
        tree = tg.tree()
        try:
            stmts = tg.statements(tree)
        except Exception:
            continue
        rd = gen_toml.Renderer(rng, crlf_p=0.15, comment_p=0.35, ws_p=0.3)
        try:
            text = rd.document(stmts, final_newline=rng.choice([True, False, None]))
        except Exception:
            continue
        if 0 < len(text) <= max_len and gen_toml.utf8_ok(text):
            out.append(text)
    return out


def value_texts(rng, n):
    out = []
    for _ in range(n):
        tg = gen_toml.TreeGen(rng, max_depth=2)
        rd = gen_toml.Renderer(rng)
        try:
            out.append(rd.value(tg.value()))
        except Exception:
            pass
    return out


def key_texts(rng, n):
    out = []
    for _ in range(n):
        tg = gen_toml.TreeGen(rng)
        rd = gen_toml.Renderer(rng)
        try:
            path = [tg.key() for _ in range(rng.choice([1, 1, 2, 3]))]
            out.append(rd.key_path(path, rd.ws(), rd.ws()))
        except Exception:
            pass
    return out


def run_impl(lines):
    """ask the implementation where it reports the error (used to aim multi-byte insertions)"""
    binary = globals().get("BINS", {}).get("main")
    if not binary or not lines:
        return [None] * len(lines)
    try:
        p = subprocess.run([binary], input=("\n".join(lines) + "\n").encode(), stdout=subprocess.PIPE,
                           stderr=subprocess.DEVNULL, timeout=600)
        out = p.stdout.decode("utf-8", "replace").split("\n")
        return [out[i] if i < len(out) else None for i in range(len(lines))]
    except Exception:
        return [None] * len(lines)


def gen_cases(rng, tier):
    quick = tier == "quick"
    out, seen = [], set()

    def add(cmd, s, kind):
        s = bytes(s)
        if not gen_toml.utf8_ok(s):
            return False
        k = (cmd, s)
        if k in seen:
            return False
        seen.add(k)
        out.append(Case(cmd, [s], {"kind": kind}))
        return True

    # -- fixed families -----------------------------------------------------------------------
    for s in CR_INPUTS:
        add("derr", s, "cr")
        for m in MB:
            add("derr", b"\"" + m + b"\" = \"" + m + b"\"\n" + s, "cr")
            add("derr", b"# " + m + b"\n" + s, "cr")
    for s in EOF_INPUTS:
        add("derr", s, "eof")
        add("derr", s + b"\n", "eof-nl")
        add("derr", s + b"\r\n", "eof-nl")
        add("derr", s + b"\n\n", "eof-nl")
        for m in MB:
            add("derr", b"\"" + m + b"\" = '" + m + m + b"' # " + m + b"\n" + s, "eof")
            add("derr", b"'" + m + b"'." + s, "eof-mb-same-line")
            add("derr", b"'" + m + b"'." + s + b"\n", "eof-mb-same-line")
    # multi-byte characters before the error on the same line, of every width
    for pre_n in range(0, 4):
        for m in MB:
            key = b"\"" + m * pre_n + b"\""
            for tail in ERR_TAILS:
                add("derr", key + b" = \"" + m + b"\"" + tail, "mb-before")
                add("derr", key + b" = \"" + m + b"\"" + tail + b"\n", "mb-before")
                add("derr", b"x = 1\n" + key + b" = '" + m + b"'" + tail + b"\nz = 2\n", "mb-before")
                add("derr", b"# " + m + b"\n" + key + b" = [ '" + m + b"' " + tail, "mb-before")
                add("derr", key + b" = 1 # " + m * pre_n + tail, "mb-before")
                add("derr", b"[" + key + b"] # " + m + tail, "mb-before")
                add("derr", b"[" + key + tail, "mb-before")
                add("derr", key + tail, "mb-before")
    for cmd in ("verr", "kerr", "kperr"):
        add(cmd, b"", "empty")
    # trailing input after a complete value / key (rejected by end_of_input), every first byte, CR inputs
    for v in (b"1", b"true", b"'a'", b"\"a\"", b"[1]", b"{a=1}", b"1.5", b"1979-05-27", b"[1, [2]]", "'é'".encode()):
        for tail in (b" 2", b" ", b"\n", b"\r", b"\r\n", b",", b"]", b"}", b"=", b"#", b" # c", b"\x01", "é".encode(), b"x", b"."):
            add("verr", v + tail, "trailing")
    for k in (b"a", b"a-b_1", b"'a b'", b"\"a\"", "\"é\"".encode(), b"1"):
        for tail in (b" b", b" ", b".", b".b", b" .b", b"\n", b"\r", b"=", b"\x01", "é".encode(), b"'", b"\""):
            add("kerr", k + tail, "trailing")
            add("kperr", k + tail, "trailing")
            add("kperr", k + b"." + k + tail, "trailing")
            add("kperr", k + b" . " + k + tail, "trailing")
    for b0 in range(0x80):
        for cmd in ("verr", "kerr", "kperr"):
            add(cmd, bytes([b0]), "first-byte")
            add(cmd, bytes([b0]) + b"a", "first-byte")
    for cmd in ("verr", "kerr", "kperr"):
        for s in (b"[\r]", b"[\r\n]", b"[1,\r2]", b"[ # c\r]", b"\r", b"\r\n", b"'\r'", b"\"\r\"", b"a\r", b"a.\rb", b"{\r}",
                  b"\"\"\"\r\"\"\"", b"'''\r'''", b"[\"\"\"\\\r\"\"\"]"):
            add(cmd, s, "cr")

    # -- valid documents: truncation at every byte, edits at every position --------------------
    n_docs = 16 if quick else 450
    docs = valid_docs(rng, n_docs)
    rejected_probe = []
    for di, text in enumerate(docs):
        add("derr", text, "valid")
        for i in range(len(text) + 1):
            if add("derr", text[:i], "truncate"):
                rejected_probe.append(text[:i])
            if not text[:i].endswith(b"\n"):
                add("derr", text[:i] + b"\n", "truncate-nl")
        full = (quick and di < 6) or (not quick and di < 225)
        bs = BYTESET if full else rng.sample(BYTESET, 4)
        for i in range(len(text) + 1):
            for b in (bs if full or rng.random() < 0.35 else []):
                if add("derr", text[:i] + b + text[i:], "insert") and rng.random() < 0.05:
                    rejected_probe.append(text[:i] + b + text[i:])
                if i < len(text):
                    if add("derr", text[:i] + b + text[i + 1:], "subst") and rng.random() < 0.05:
                        rejected_probe.append(text[:i] + b + text[i + 1:])
            if i < len(text):
                add("derr", text[:i] + text[i + 1:], "delete")
            if rng.random() < 0.3:
                add("derr", text[:i] + rng.choice(MB) + text[i:], "insert-mb")
        for _ in range(40 if quick else 120):
            m = gen_toml.mutate(rng, text, rng.choice([1, 1, 2, 3]))
            if add("derr", m, "mutate") and rng.random() < 0.3:
                rejected_probe.append(m)

    # -- multi-byte characters right BEFORE and AT the implementation's error position --------
    rng.shuffle(rejected_probe)
    rejected_probe = rejected_probe[:1500 if quick else 40000]
    obs = run_impl([Case("derr", [s]).line() for s in rejected_probe])
    for s, l in zip(rejected_probe, obs):
        if not l or not l.startswith("err ") or "span=none" in l:
            continue
        a = int(fields(l)["span"].split("-")[0])
        m = rng.choice(MB)
        if is_boundary(s, a):
            add("derr", s[:a] + m + s[a:], "mb-at-error")
        j = a - 1
        while j > 0 and not is_boundary(s, j):
            j -= 1
        if j >= 0:
            add("derr", s[:j] + m + s[j:], "mb-before-error")
        # a multi-byte comment line and a multi-byte key/value line in front: lines shift, columns do not
        add("derr", b"# " + m + b"\n" + s if not s.startswith(b"\xef\xbb\xbf") else s, "mb-line-before")
        # replace the byte under the error by a multi-byte character
        if a < len(s) and is_boundary(s, a):
            e = a + 1
            while e < len(s) and not is_boundary(s, e):
                e += 1
            add("derr", s[:a] + m + s[e:], "mb-replace-error")

    # -- value / key fragments ---------------------------------------------------------------
    for v in value_texts(rng, 60 if quick else 2500):
        add("verr", v, "valid")
        for i in range(len(v) + 1):
            add("verr", v[:i], "truncate")
            if rng.random() < 0.3:
                b = rng.choice(BYTESET + MB)
                add("verr", v[:i] + b + v[i:], "insert")
                add("verr", v[:i] + b + v[i + 1:], "subst")
    for k in key_texts(rng, 60 if quick else 2500):
        for cmd in ("kerr", "kperr"):
            add(cmd, k, "valid")
            for i in range(len(k) + 1):
                add(cmd, k[:i], "truncate")
                if rng.random() < 0.5:
                    b = rng.choice(BYTESET + MB)
                    add(cmd, k[:i] + b + k[i:], "insert")
                    add(cmd, k[:i] + b + k[i + 1:], "subst")

    out.extend(gen_deerr(rng, tier))
    return out


# ---------------------------------------------------------------------------------------------
# serde half: (valid document, mismatching type) pairs
# ---------------------------------------------------------------------------------------------
WRONG = {
    "int": [b'"x"', b"true", b"1.5", b"[1]", b"{x=1}", b"1979-05-27", "'é'".encode()],
    "str": [b"1", b"true", b"[\"a\"]", b"{}", b"1.0"],
    "bool": [b"1", b"\"true\"", b"[]", b"0.0"],
    "float": [b"\"1.0\"", b"true", b"[1.0]", b"{}"],
    "u8": [b"300", b"-1", b"\"1\"", b"256", b"9223372036854775807"],
    "char": [b"\"ab\"", b"1", b"\"\"", "'éé'".encode()],
}


def layouts(rng, path, value, extra=()):
    """render `path = value` in several layouts; returns (text, lookup path, key path) triples"""
    r = rng
    mb = r.choice(MB)
    pre_lines = r.choice([b"", b"# " + mb + b"\n", b"\"" + mb + b"\" = '" + mb + b"'\n", b"\n\n", b"zz = 1 # c\r\n"])
    # the unrelated first line must not add unknown keys for deny_unknown_fields types
    outs = []
    ws = r.choice([b"", b" ", b"\t", b"  "])
    dotted = b".".join(path)
    lookup = "/".join(p.decode() for p in path)
    keys = ".".join(p.decode() for p in path)
    outs.append((b"# " + mb + b"\n" + ws + dotted + ws + b"=" + ws + value + ws + b"# " + mb + b"\n", lookup, keys))
    if len(path) >= 2:
        hdr = b".".join(path[:-1])
        outs.append((b"[" + hdr + b"]\n" + b"".join(extra) + ws + path[-1] + b" = " + value + b"\n", lookup, keys))
        inner = path[-1] + b" = " + value
        for p in reversed(path[1:-1]):
            inner = p + b" = { " + inner + b" }"
        outs.append((path[0] + b" = { " + inner + b" } # " + mb + b"\n", lookup, keys))
    return outs


def gen_deerr(rng, tier):
    quick = tier == "quick"
    out = []

    def add(tag, text, lookup, keys, kind, keys_alt=None):
        if gen_toml.utf8_ok(text):
            meta = {"kind": "de-" + kind, "keys": keys}
            if keys_alt is not None:
                meta["keys_alt"] = keys_alt
            out.append(Case("deerr", [tag.encode(), text, lookup.encode()], meta))
            # the same document behind a byte-order mark: every offset moves by three bytes, on every route alike
            if rng.random() < 0.15:
                out.append(Case("deerr", [tag.encode(), b"\xef\xbb\xbf" + text, lookup.encode()], dict(meta, kind=meta["kind"] + "+bom")))

    reps = 2 if quick else 30
    for _ in range(reps):
        for tag, vals in WRONG.items():
            for v in vals:
                for text, lk, ks in layouts(rng, [b"a"], v):
                    add(tag, text, lk, ks, tag)
        # nested struct: wrong leaf, header / dotted / inline layouts
        for v in WRONG["int"]:
            for text, lk, ks in layouts(rng, [b"t", b"b"], v):
                add("nested", add_sibling(text), lk, ks, "nested")
        # target types whose ROOT is a newtype struct / an Option / a map (Deserializer::deserialize_newtype_struct, _option,
        # _any in de/mod.rs each attach the source text on their own)
        for v in WRONG["int"]:
            for text, lk, ks in layouts(rng, [b"a"], v):
                add("rootnew", text, lk, ks, "root-newtype")
                add("rootopt", text, lk, ks, "root-option")
                add("rootmap", b"z = 1\n" + text, lk, ks, "root-map")
            for text, lk, ks in layouts(rng, [b"t", b"b"], v):
                add("rootnewnested", add_sibling(text), lk, ks, "root-newtype-nested")
        # Vec<i64> fed a mixed array: the offending element's span; key path is the array's
        for arr, idx in [(b'[1, "x", 3]', 1), (b'["x"]', 0), (b"[1, 2, 3.5]", 2), (b"[\n 1, # c\n true ]", 1), (b"[1, [2]]", 1),
                         ("[1, 'é', 3]".encode(), 1)]:
            for text, lk, ks in layouts(rng, [b"v"], arr):
                add("vec", text, lk + "/#%d" % idx, ks, "vec")
        for v in [b"1", b"\"x\"", b"{a=1}"]:
            for text, lk, ks in layouts(rng, [b"v"], v):
                add("vec", text, lk, ks, "vec-not-array")
        # enum: unknown variant / wrong shape
        for v in [b'"C"', b"1", b"[]", "'é'".encode()]:
            for text, lk, ks in layouts(rng, [b"e"], v):
                add("enum", text, lk, ks, "enum")
        for v, sub, ksub in [(b'{ N = "x" }', "/N", ".N"), (b"{ S = { x = true } }", "/S/x", ".S.x"), (b'"Q"', "", ""),
                             (b"{ Q = 1 }", "/Q/@", "")]:
            for text, lk, ks in layouts(rng, [b"e"], v):
                add("enum2", text, lk + sub, ks + ksub, "enum2",
                    keys_alt=(ks + ksub.replace(".N", "").replace(".S", "")) if ksub else None)
        # missing field: the table that lacks it
        add("missing", b"a = 1\n", "", "", "missing-root")
        add("missing", b"# " + rng.choice(MB) + b"\n\na = 1 # c\n", "", "", "missing-root")
        add("nested", b"[t]\nb = 1\n", "t", "t", "missing-nested")
        add("nested", b"x = 1\n\n  [t] # " + rng.choice(MB) + b"\nb = 1\n", "t", "t", "missing-nested")
        add("nested", b"t = { b = 1 }\n", "t", "t", "missing-nested")
        add("nested", b"t.b = 1\n", "t", "t", "missing-nested-dotted")
        # the table's own header comes AFTER a header of one of its sub-tables (the implicit table is re-opened)
        add("nested", b"[t.x]\nq = 1\n\n[t] # " + rng.choice(MB) + b"\nb = 1\n", "t", "t", "missing-nested-reopened")
        add("nested", b"[t.x.y]\n[t.x]\n[t]\nb = 1\n[u]\n", "t", "t", "missing-nested-reopened")
        add("nested", b"[[t.x]]\nq = 1\n[t]\nb = 'x'\nc = 'y'\n", "t/b", "t.b", "nested-reopened-leaf")
        # a table made of dotted keys where a scalar is expected: its span runs from the FIRST key of the group to the end of the
        # LAST value, inside an inline table as well as under a header (two parser sites compute it)
        add("nested", b"t = { b.x = 1, b.y = 2, c = 'q' }\n", "t/b", "t.b", "dotted-table-for-scalar-inline")
        add("nested", b"t = { c = 'q', b.x = 1, b.\"y z\" = 2, b.w = 3 } # " + rng.choice(MB) + b"\n", "t/b", "t.b", "dotted-table-for-scalar-inline")
        add("nested", b"[t]\nc = 'q'\nb.x = 1\nb.y = 2\n", "t/b", "t.b", "dotted-table-for-scalar-header")
        add("vecinner", b"[[v]]\nb = 1\nc = 'x'\n[[v]]\nb = 2\n", "v/#1", "v", "missing-aot")
        add("vecinner", b"v = [{b = 1, c = 'x'}, {c = 'y'}]\n", "v/#1", "v", "missing-inline-array")
        add("vecinner", b"[[v]]\nb = 1\nc = 'x'\n[[v]]\nb = 'z'\nc = 'y'\n", "v/#1/b", "v.b", "aot-leaf")
        # Option / map / deep / tuple / newtype / datetime
        for v in [b'"s"', b"true", b"[1]"]:
            for text, lk, ks in layouts(rng, [b"o"], v):
                add("opt", text, lk, ks, "opt")
            for text, lk, ks in layouts(rng, [b"n"], v):
                add("newtype", text, lk, ks, "newtype")
        # the same mismatches below an Option / newtype wrapper: the error must still point at the offending LEAF
        for v in WRONG["int"]:
            for text, lk, ks in layouts(rng, [b"t", b"b"], v):
                add("optnested", add_sibling(text), lk, ks, "opt-nested")
                add("newnested", add_sibling(text), lk, ks, "newtype-nested")
            for text, lk, ks in layouts(rng, [b"t", b"u", b"b"], v):
                add("optopt", text.replace(b"b = " + v, b"c = 'y'\nb = " + v) if text.startswith(b"[") else text, lk, ks, "opt-opt-nested")
        for arr, idx in [(b'[1, "x", 3]', 1), (b"[1, 2, 3.5]", 2), (b"[\n 1, # c\n true ]", 1)]:
            for text, lk, ks in layouts(rng, [b"v"], arr):
                add("optvec", text, lk + "/#%d" % idx, ks, "opt-vec")
        add("optmap", b"m = { a = 1, b = \"x\" }\n", "m/b", "m.b", "opt-map")
        add("optmap", b"[m]\na = 1\nb = 'x' # " + rng.choice(MB) + b"\n", "m/b", "m.b", "opt-map")
        add("optmap", b"m.a = 1\nm.b = true\n", "m/b", "m.b", "opt-map")
        for v, sub, ksub in [(b'{ N = "x" }', "/N", ".N"), (b"{ S = { x = true } }", "/S/x", ".S.x")]:
            for text, lk, ks in layouts(rng, [b"e"], v):
                add("optenum2", text, lk + sub, ks + ksub, "opt-enum2", keys_alt=(ks + ksub.replace(".N", "").replace(".S", "")))
        add("optnested", b"[t]\nb = 1\n", "t", "t", "opt-missing-nested")
        add("optnested", b"t = { b = 1 }\n", "t", "t", "opt-missing-nested")
        add("map", b"m = { a = 1, b = \"x\" }\n", "m/b", "m.b", "map")
        add("map", b"[m]\na = 1\nb = 'x' # " + rng.choice(MB) + b"\n", "m/b", "m.b", "map")
        add("map", b"m.a = 1\nm.b = true\n", "m/b", "m.b", "map")
        add("map", b"m = 1\n", "m", "m", "map-not-table")
        add("deep", b"[[a.b.c]]\nd = 1\n", "a/b/c/#0/d", "a.b.c.d", "deep")
        add("deep", b"[[a.b.c]]\nd = true\n[[a.b.c]]\n  d = '" + rng.choice(MB) + b"'\n", "a/b/c/#1/d", "a.b.c.d", "deep")
        add("deep", b"a = { b = { c = [ { d = true }, { d = 0 } ] } }\n", "a/b/c/#1/d", "a.b.c.d", "deep")
        add("deep", b"a.b.c = [ { d = 1.0 } ]\n", "a/b/c/#0/d", "a.b.c.d", "deep")
        add("deep", b"[a]\nb = 1\n", "a/b", "a.b", "deep")
        add("tuple", b"p = [1, 2]\n", "p/#1", "p", "tuple")
        add("tuple", b"p = [1]\n", "p", "p", "tuple-short")
        add("tuple", b"p = ['x', 'y']\n", "p/#0", "p", "tuple")
        add("deny", b"a = 1\nzz = 2\n", "zz/@", "", "deny")
        add("deny", b"# " + rng.choice(MB) + b"\na = 1\n  \"zz\" = 2 # c\n", "zz/@", "", "deny")
        add("denyouter", b"[t]\na = 1\nzz = 2\n", "t/zz/@", "t", "deny")
        add("denyouter", b"t = { a = 1, zz = 2 }\n", "t/zz/@", "t", "deny")
        add("dt", b"d = 1\n", "d", "d", "dt")
    return out


def add_sibling(text):
    """give the nested struct its other field so that the wrong leaf is the only error"""
    if text.startswith(b"[t]"):
        return text + b"c = 'y'\n"
    if b"{" in text:
        return text.replace(b" }", b", c = 'y' }", 1)
    return text + b"t.c = 'y'\n"


# ---------------------------------------------------------------------------------------------
# search / shrink
# ---------------------------------------------------------------------------------------------
def search(rng, ctx):
    pre = []
    for c, il, ml, d in ctx["divergences"][:50]:
        pre.append(c)
        if c.cmd == "deerr":
            continue
        s = c.args[0]
        for i in range(len(s) + 1):
            pre.append(Case(c.cmd, [s[:i]], {"kind": "neighbour"}))
            for b in BYTESET[:8] + MB[:2]:
                pre.append(Case(c.cmd, [s[:i] + b + s[i:]], {"kind": "neighbour"}))
    pre = [c for c in pre if c.cmd == "deerr" or gen_toml.utf8_ok(c.args[0])]
    return pre + gen_cases(rng, "thorough" if ctx.get("broken") else "quick")


def shrink(case, il, why, run):
    if case.cmd == "deerr":
        return case, il, why
    cur, cur_il, cur_why = case, il, why
    changed = True
    while changed:
        changed = False
        s = cur.args[0]
        cands = []
        # drop whole lines first, then single bytes
        lines = s.split(b"\n")
        for k in range(len(lines)):
            cands.append(b"\n".join(lines[:k] + lines[k + 1:]))
        cands += [s[:i] + s[i + 1:] for i in range(len(s))]
        cands = [Case(cur.cmd, [c], cur.meta) for c in cands if gen_toml.utf8_ok(c) and c != s]
        if not cands:
            break
        outs = run(cands)
        for c, l in zip(cands, outs):
            if l is None or l.startswith("PANIC") or l.startswith("CRASH") or l == "TIMEOUT":
                w = "crash"
            else:
                w = oracle(c, l)
                if w and known_class(c, l):
                    w = None
            if w:
                cur, cur_il, cur_why = c, l, w
                changed = True
                break
    return cur, cur_il, cur_why


def extra_coverage(cases, impl, model):
    import collections
    h = collections.Counter()
    sizes = collections.Counter()
    for c, l in zip(cases, impl):
        if c.cmd == "deerr":
            h["deerr"] += 1
            continue
        if l == "ok":
            h["accepted"] += 1
        elif l and l.startswith("err "):
            f = fields(l)
            h["rejected"] += 1
            if f.get("msg") == "empty":
                h["rejected-empty-message"] += 1
            if f.get("span") not in (None, "none"):
                a, b = (int(x) for x in f["span"].split("-"))
                if a == len(c.args[0]):
                    h["error-at-eof"] += 1
                if b - a > 1:
                    h["error-on-multibyte-char"] += 1
                ls = c.args[0].rfind(b"\n", 0, min(a, max(len(c.args[0]) - 1, 0))) + 1
                if any(x >= 0x80 for x in c.args[0][ls:a]):
                    h["multibyte-before-error-on-line"] += 1
            else:
                h["error-without-span"] += 1
        sizes[min(len(c.args[0]) // 50 * 50, 500)] += 1
    return {"verdict_split": dict(h), "input_size_histogram": {str(k): v for k, v in sorted(sizes.items())}}


# =============================================================================================
# serde half, tie to the located-error model (coq/Model/DeLoc.v, driver `deloc`) — added as one
# separate block; nothing above is changed, the functions below wrap the ones above.
#
#   * every `deerr` case is also answered by driver/driver_deloc (coq/Extract/Cmd_deloc.v):
#       wt=<ok | a-b | none> nt=<ok | key path as hex | none> kind=.. at=<ghost path>
#     wt = the span of the error with source text, nt = the key path without.  `compare` demands
#     wt = the span on the three routes that have the text, nt = the key path of from_docmut
#     (toml_edit's deserializer without spans) and, when they report an error, of the two
#     toml::Value routes.  `-` = not modelled (floats in the document, unknown tag).
#   * additional cases for target types the located model covers beyond `mod ty` (enum payloads of
#     every kind, tuple variants written as tables, nested sequences, maps with enum keys / struct
#     values, Date / Time): tags vdate sdate odate enum3 ttime vecvec mapenum mapinner, answered by
#     the block `mod extra` at the end of harness/src/bin/c15.rs under the same command.
#   * the former class C15-de-datekind-span-outer (a Date / Time of the wrong kind inside an array or as
#     a newtype variant's payload carried the span of the enclosing array / enum table) is repaired in
#     /repo (ArraySeqAccess::next_element_seed and TableEnumDeserializer::newtype_variant_seed attach the
#     element's / payload's span); its witnesses stay below as ordinary cases.
# =============================================================================================
import common as _common

DELOC_DRIVER = "deloc"
_deloc_cache = {}
_deloc_all = []
_deloc_state = {"built": None}


def gen_deerr_extra(rng, tier):
    out = []

    def add(tag, text, lookup, keys, kind, keys_alt=None):
        meta = {"kind": "de2-" + kind, "keys": keys}
        if keys_alt is not None:
            meta["keys_alt"] = keys_alt
        out.append(Case("deerr", [tag.encode(), text.encode(), lookup.encode()], meta))

    mb = rng.choice(MB).decode()
    add("vdate", "v = [1979-05-27, 1979-05-27T07:32:00Z]\n", "v/#1", "v", "datekind")
    add("vdate", "# %s\nv = [\n  07:32:00, # c\n]\n" % mb, "v/#0", "v", "datekind")
    add("vdate", "v = [1979-05-27, 1]\n", "v/#1", "v", "vec")
    add("sdate", "d = 1979-05-27T07:32:00Z\n", "d", "d", "datekind-field")
    add("sdate", "d = 1\n", "d", "d", "dt")
    add("odate", "d = 07:32:00\n", "d", "d", "datekind-field")
    add("ttime", "p = [1, 1979-05-27]\n", "p/#1", "p", "datekind")
    add("ttime", "p = [1]\n", "p", "p", "tuple-short")
    add("enum3", "e = { N = 07:32:00 }\n", "e/N", "e.N", "datekind", keys_alt="e")
    add("enum3", "e = { N = 1 }\n", "e/N", "e.N", "variant", keys_alt="e")
    add("enum3", "[e]\nN = '%s'\n" % mb, "e/N", "e.N", "variant", keys_alt="e")
    add("enum3", "e = { T = [1, 'x'] }\n", "e/T/#1", "e.T", "variant", keys_alt="e")
    add("enum3", "e = { T = [1] }\n", "e/T", "e.T", "variant", keys_alt="e")
    add("enum3", "e = { T = { 0 = 1, 1 = 'x' } }\n", "e/T/1", "e.T.1", "variant", keys_alt="e")
    add("enum3", "e = { T = { 0 = 1, 2 = 2 } }\n", "e/T/2/@", "e.T", "variant", keys_alt="e")
    add("enum3", "e = { S = { x = 'y' } }\n", "e/S/x", "e.S.x", "variant", keys_alt="e.x")
    add("enum3", "[e.S]\nx = true # %s\n" % mb, "e/S/x", "e.S.x", "variant", keys_alt="e.x")
    add("enum3", "e = { S = { } }\n", "e/S", "e.S", "variant", keys_alt="e")
    add("enum3", "e = { U = 1 }\n", "e/U", "e.U", "variant", keys_alt="e")
    add("enum3", "e = { U = [1] }\n", "e/U", "e.U", "variant", keys_alt="e")
    # payload shapes of toml_edit/src/de/table_enum.rs that measured coverage showed no case reached: a unit variant given a
    # non-empty table (inline and [header] form: two copies of the code), and a tuple variant written as a
    # [header] table with a wrong index key / a wrong length
    add("enum3", "e = { U = { x = 1 } }\n", "e/U", "e.U", "variant", keys_alt="e")
    add("enum3", "[e.U]\nx = 1 # %s\n" % mb, "e/U", "e.U", "variant", keys_alt="e")
    add("enum3", "[e.T]\n0 = 1\n1 = 'x'\n", "e/T/1", "e.T.1", "variant", keys_alt="e")
    add("enum3", "[e.T]\n0 = 1\n2 = 2\n", "e/T/2/@", "e.T", "variant", keys_alt="e")
    add("enum3", "[e.T]\n0 = 1\n", "e/T", "e.T", "variant", keys_alt="e")
    add("enum3", "e = { T = { 0 = 1 } }\n", "e/T", "e.T", "variant", keys_alt="e")
    add("enum3", "e = { T = { 0 = 1, 1 = 2, 2 = 3 } }\n", "e/T", "e.T", "variant", keys_alt="e")
    add("enum3", "e = { T = 1 }\n", "e/T", "e.T", "variant", keys_alt="e")
    add("enum3", "e = { Q = 1 }\n", "e/Q/@", "e", "variant-key")
    # round 5: a newtype variant whose payload is a table (header / inline / dotted form) with the wrong value NESTED inside
    # it, also with the enum inside a sequence: the error must keep the span of the offending leaf, not the payload's
    # (TableEnumDeserializer::newtype_variant_seed falls back to the payload's span only for an error that has none)
    add("enum4", "[e.P]\nhost = 31337\nport = 1\n", "e/P/host", "e.P.host", "variant-payload", keys_alt="e.host")
    add("enum4", "e = { P = { host = 'h', port = 'x' } }\n", "e/P/port", "e.P.port", "variant-payload", keys_alt="e.port")
    add("enum4", "e.P.host = 'h'\ne.P.port = 1\ne.P.sub.x = 'bad'\n", "e/P/sub/x", "e.P.sub.x", "variant-payload", keys_alt="e.sub.x")
    add("enum4", "# %s\n[e.P]\nhost = 'h'\nport = 1\n[e.P.sub]\nx = true # c\n" % mb, "e/P/sub/x", "e.P.sub.x", "variant-payload", keys_alt="e.sub.x")
    add("enum4", "[e.P]\nhost = 'h'\n", "e/P", "e.P", "variant-payload", keys_alt="e")
    add("enum4", "[[e.L]]\nx = 1\n[[e.L]]\nx = 'y'\n", "e/L/#1/x", "e.L.x", "variant-payload", keys_alt="e.x")
    add("enum4", "e = { L = [ { x = 1 }, { x = true } ] }\n", "e/L/#1/x", "e.L.x", "variant-payload", keys_alt="e.x")
    add("venum4", "v = [ { U = {} }, { P = { host = 1, port = 1 } } ]\n", "v/#1/P/host", "v.P.host", "variant-payload", keys_alt="v.host")
    add("venum4", "[[v]]\n[v.P]\nhost = 'h'\nport = 1\nsub = { x = '%s' }\n" % mb, "v/#0/P/sub/x", "v.P.sub.x", "variant-payload", keys_alt="v.sub.x")
    add("venum4", "[[v]]\nP.host = 'h'\nP.port = true\n", "v/#0/P/port", "v.P.port", "variant-payload", keys_alt="v.port")
    add("enum3", "e = { }\n", "e", "e", "enum-shape")
    add("enum3", "e = { N = 1, T = 2 }\n", "e", "e", "enum-shape")
    add("enum3", "e = 1\n", "e", "e", "enum-shape")
    add("enum3", "e = 'Q'\n", "e", "e", "enum-shape")
    add("enum3", "e = 'N'\n", "e", "e", "enum-shape")
    add("vecvec", "v = [[1], [2, 'x']]\n", "v/#1/#1", "v", "nested-seq")
    add("vecvec", "v = [[1], 2]\n", "v/#1", "v", "nested-seq")
    add("mapenum", "m = { A = 1, C = 2 }\n", "m/C/@", "m", "map-key")
    add("mapenum", "m = { A = 1, B = 'x' }\n", "m/B", "m.B", "map")
    add("mapenum", "[m]\nA = 1\nB = true\n", "m/B", "m.B", "map")
    add("mapinner", "[m.k]\nb = 1\n", "m/k", "m.k", "map-missing")
    add("mapinner", "[m.k]\nb = 'x'\nc = 'y'\n", "m/k/b", "m.k.b", "map-nested")
    add("mapinner", "m = { k = { b = 1, c = 2 } }\n", "m/k/c", "m.k.c", "map-nested")
    add("mapinner", "m = { k = 1 }\n", "m/k", "m.k", "map-nested")
    return out


_gen_cases_before_deloc = gen_cases


def gen_cases(rng, tier):
    out = _gen_cases_before_deloc(rng, tier) + gen_deerr_extra(rng, tier)
    del _deloc_all[:]
    _deloc_all.extend(c.line() for c in out if c.cmd == "deerr")
    return out


def _deloc_line(case):
    line = case.line()
    if line not in _deloc_cache:
        if _deloc_state["built"] is None:
            with _common.build_lock():
                _deloc_state["built"] = _common.build_driver(DELOC_DRIVER).ok
        todo = [l for l in dict.fromkeys(_deloc_all + [line]) if l not in _deloc_cache]
        if _deloc_state["built"]:
            for l, r in zip(todo, _common.run_lines(_common.driver_bin(DELOC_DRIVER), todo)):
                _deloc_cache[l] = r
        else:
            for l in todo:
                _deloc_cache[l] = "BUILD-FAILED"
    return _deloc_cache[line]


def deloc_fields(ml):
    return dict(x.split("=", 1) for x in ml.split(" ")) if ml.startswith("wt=") else None


def deloc_compare(case, il):
    ml = _deloc_line(case)
    if ml == "BUILD-FAILED":
        return "the located-error model (driver deloc) did not build"
    m = deloc_fields(ml)
    if m is None or il in ("parse-error", "unknown-type", "bad-args", "notutf8"):
        return None                   # not modelled
    f = dict(ROUTE.findall(il))
    for r in WITH_TEXT:
        v = f.get(r)
        got = "ok" if v == "ok" else route_fields(v).get("span")
        if got != m["wt"]:
            return "located model and implementation differ: %s reports span %s, the model %s" % (r, got, m["wt"])
    for r in WITHOUT_TEXT:
        v = f.get(r)
        if v == "ok":
            if r == "from_docmut" and m["nt"] != "ok":
                return "located model and implementation differ: from_docmut accepts, the model does not"
            continue                  # toml::Value's own deserializer (no key validation, ..): not this model
        rf = route_fields(v)
        got = rf.get("keys") if rf.get("span") == "none" else "span"
        if got != m["nt"]:
            return "located model and implementation differ: %s reports key path %s, the model %s" % (r, got, m["nt"])
    return None


_compare_before_deloc = compare


def compare(case, ml, il):
    if case.cmd == "deerr":
        return deloc_compare(case, il)
    return _compare_before_deloc(case, ml, il)


# the theorems of the located-error model are checked with the property (runner: COQ_PROPS_EXTRA)
COQ_PROPS_EXTRA = list(globals().get("COQ_PROPS_EXTRA", [])) + ["Props/C15serde.v"]
THEOREMS = list(globals().get("THEOREMS", [])) + [
    "C15_de_located: forall c t s e, opt_overwrite c = false -> all_spans s -> de_loc c t s = LErr e -> kind <> unmodelled -> "
    "the error's span = the span of the node (or key) the error was raised at (ghost path e_at), through any nesting, the Date / Time kind "
    "check included — except that kind check on the very node de_loc was called on (nobody handed it out)",
    "C15_de_located_handed_out: behind any access that hands a node out (next_value_seed, next_element_seed, newtype_variant_seed, option, "
    "newtype) every error is located",
    "C15_de_keypath / _ideal / _any: without spans the error has no span and its key path = the keys of the struct fields and map entries on the "
    "ghost path; = the full path to the offending node unless it lies below an enum variant",
    "C15_de_keypath_refuted: e = { N = \"x\" } -> key path `e`, offending node e.N (known finding C15-de-keypath-omits-enum-variant)",
    "C15_de_refines: erasing locations, de_loc succeeds exactly when Model/De.v de_value does, with the same value",
]
