"""C16 — Tables, arrays and maps obey ordered-container laws under any call sequence.

A case is `ops <kind> <oplist>`: a history of API calls on one container
(kind: table | inline | inline_tl | array | aot | map_sorted | map_ordered).  The harness
(harness/src/bin/c16.rs) replays it on the real container, the driver (coq/Extract/Cmd_c16.v)
on the Coq model; both print `<out of call 1>;<out of call 2>;...|<final observation>`.

Calls (fields joined by `,`, calls by `;`; k = key, p = payload `i<int>` | `T` (table) | `I` (inline table)):
  map-like : ins,k,p insf,k,p rm,k rme,k get,k getm,k gkv,k gkvm,k ck,k ct,k cv,k ca,k key,k len emp
             iter iterm keys vals clr ent,k eoi,k,p eins,k,p erm,k goi,k,p ret,<pred> sort sortby,<kdesc|vasc>
             idx,k idxm,k iset,k,p ioi,k,p ext,k,p,... from,k,p,... into          pred: kne,k | int | lt,n | all | none
  vectors  : push,z pushf,z ins,i,z insf,i,z rep,i,z repf,i,z rm,i get,i getm,i len emp iter iterm clr
             ret,<lt,n|odd|all|none> sortby,<asc|desc|mod3> sortkey ext,z,... from,z,... into idx,i iget,i iset,i,z
             (sortby,mod3 = Array::sort_by comparing `x mod 3`; sortkey = Array::sort_by_key(x mod 3): comparators with ties)
A call a container does not offer prints `na`; a panic inside a call prints `P`.

The ORACLE does not look at the Coq model: it replays the history on a plain Python ordered
dict / list (`RefMap`, `RefVec` below: insertion of an existing key keeps its position, removal keeps
the order of the rest, auto-vivifying `&mut c[k]` is a no-op) and demands the identical line.

The two `toml::Map` configurations live in two builds of the harness.  The main build answers
`skip` for `map_ordered`; `compare` and `oracle` then substitute the answer of the second build
(`EXTRA_HARNESS["po"]`, feature `po` = toml/preserve_order), obtained in one batch on first use and
cached by case line — so map_ordered cases count for the verdict exactly like all others.

Known classes: none.  The former class C16-placeholder-residue (write / entry paths treated an `Item::None`
placeholder left by `&mut c[k]` as a real entry: insert / remove returned Some(Item::None), entry().or_insert stored
nothing, Table::into_iter yielded it, key() was Some, InlineTable::entry turned it into `{}`, get_or_insert panicked,
the position was kept) was repaired in /repo (Table / InlineTable::remove_placeholder at the head of every write and
entry path, filters in key() / key_mut() / IntoIterator for Table), like C16-tablelike-placeholder (DESIGN.md F11,
commit acb0168) before it.  The witnesses of both stay in WITNESSES below as permanent cases and have to satisfy
the oracle like every other case; the model command `cls` answers `none` for every history.
"""
import itertools
import common
from runner import Case

PROP = "C16"
TITLE = "Tables, arrays and maps obey ordered-container laws under any call sequence"
COQ_PROPS = "Props/C16.v"
DRIVER_NAME = "c16"
HARNESS = {"bin": "c16"}
EXTRA_HARNESS = {"po": ("release", ("po",))}
EXTRA_ORACLE = ["po"]     # every other kind is also judged on the preserve_order build (the feature must not matter)
THEOREMS = [
    "C16_table / C16_inline / C16_inline_tablelike: forall h (no exclusion), outputs and final observation of the model = those of the reference ordered map",
    "C16_table_regression / C16_inline_regression / C16_inline_tablelike_regression: the former counterexamples (write/entry paths on a placeholder key) now agree with the reference",
    "C16_placeholder_calls: every call made in any reachable state answers as the reference does on the real entries",
    "C16_array / C16_aot / C16_map_sorted / C16_map_ordered: forall h, outputs and final observation of the model = reference (Array::sort_by / sort_by_key with any comparator of the vocabulary, incl. the tie-rich `x mod 3`, = the reference STABLE sort)",
    "C16_placeholder: len/is_empty/iter/get/contains_key/printed entries of Table, InlineTable and the TableLike view of InlineTable ignore Item::None entries, in every state",
]
RULE = ("random call sequences of length <= 30 over keys {a,b,c} (payloads i0..i4, T, I) on each of the 7 container kinds, "
        "plus ALL histories of length <= 4 over keys {a,b} for a reduced call set per kind; "
        "plus long containers with ties: arrays of 21..80 distinguishable integers sorted by `x mod 3` (sort_by / sort_by_key), tables and inline "
        "tables of 21..60 keys with values from {0..3} sorted by value (sort_values_by, also after sort_values / a sort by key descending), then iter / get / remove; "
        "non-trivial = at least 3 calls and at least two calls addressing the same key / index")
ASSUMPTIONS = [
    "IndexMap, BTreeMap and Vec are modelled by their functional specification (insertion-ordered / key-ordered association list, list); sort_by is a stable sort",
    "an inline table stores values only: a table payload enters inline kinds as an empty inline table (what Item::into_value does)",
    "array / array-of-tables elements are integers / tables {id = z}; only such elements are stored by the modelled calls",
]

KEYS3 = ["a", "b", "c"]
MAPLIKE = ("table", "inline", "inline_tl", "map_sorted", "map_ordered")
TABLELIKE = ("table", "inline", "inline_tl")
VECLIKE = ("array", "aot")
KINDS = MAPLIKE + VECLIKE

AVAIL = {
    "table": set("ins insf rm rme get getm gkv gkvm ck ct cv ca key len emp iter iterm clr ent eoi eins erm ret sort "
                 "sortby idx idxm iset ioi ext from into".split()),
    "inline": set("ins insf rm rme get getm gkv gkvm ck key len emp iter iterm clr ent eoi eins erm goi ret sort sortby "
                  "idx idxm iset ioi ext from into".split()),
    "inline_tl": set("ins rm get getm gkv gkvm ck key len emp iter iterm clr ent eoi eins erm sort idxm iset ioi".split()),
    "map_sorted": set("ins rm get getm gkv ck len emp iter iterm keys vals clr ent eoi eins erm ret idx idxm iset ext "
                      "from into".split()),
    "array": set("push pushf ins insf rep repf rm get getm len emp iter iterm clr ret sortby sortkey ext from into idx "
                 "iget iset".split()),
    "aot": set("push rm get getm len emp iter iterm clr ret ext from into idx iget iset".split()),
}
AVAIL["map_ordered"] = AVAIL["map_sorted"]


# ------------------------------------------------------------------------------------------
# the independent reference
# ------------------------------------------------------------------------------------------
def rank(p):
    return (2, int(p[1:])) if p[0] == "i" else (1, 0)


class RefMap:
    """a plain ordered map: python dict (insertion order; assignment to an existing key keeps its place)"""

    def __init__(self, kind):
        self.kind, self.d = kind, {}
        self.sorted = kind == "map_sorted"
        self.ismap = kind in ("map_sorted", "map_ordered")

    def norm(self, p):
        return "I" if (p == "T" and self.kind in ("inline", "inline_tl")) else p

    def items(self):
        return sorted(self.d.items()) if self.sorted else list(self.d.items())

    def show_items(self):
        return "[" + ",".join("%s=%s" % kv for kv in self.items()) + "]"

    def pred(self, f, k, p):
        if f[0] == "kne":
            return k != f[1]
        if f[0] == "int":
            return p[0] == "i"
        if f[0] == "lt":
            return p[0] == "i" and int(p[1:]) < int(f[1])
        return f[0] == "all"

    def call(self, f):
        d, n = self.d, f[0]
        if n not in AVAIL[self.kind]:
            return "na"
        k = f[1] if len(f) > 1 else None
        p = self.norm(f[2]) if len(f) > 2 and n not in ("ret", "ext", "from") else None
        if n in ("ins", "insf"):
            old = d.get(k, "-"); d[k] = p; return old
        if n == "rm":
            return d.pop(k, "-")
        if n == "rme":
            return "%s=%s" % (k, d.pop(k)) if k in d else "-"
        if n in ("get", "getm"):
            return d.get(k, "-")
        if n in ("gkv", "gkvm"):
            return "%s=%s" % (k, d[k]) if k in d else "-"
        if n in ("ck", "key"):
            return "true" if k in d else "false"
        if n == "ct":
            return "true" if d.get(k) == "T" else "false"
        if n == "cv":
            return "true" if k in d and d[k] != "T" else "false"
        if n == "ca":
            return "false"
        if n == "len":
            return str(len(d))
        if n == "emp":
            return "true" if not d else "false"
        if n in ("iter", "iterm", "into"):
            return self.show_items()
        if n == "keys":
            return "[" + ",".join(k for k, _ in self.items()) + "]"
        if n == "vals":
            return "[" + ",".join(v for _, v in self.items()) + "]"
        if n == "clr":
            d.clear(); return "u"
        if n == "ent":
            return "occ:" + d[k] if k in d else "vac"
        if n in ("eoi", "goi", "ioi"):
            if k not in d:
                d[k] = p
            return d[k]
        if n == "eins":
            old = d.get(k, "vac"); d[k] = p; return old
        if n == "erm":
            return d.pop(k, "vac")
        if n == "ret":
            for key in [key for key, v in d.items() if not self.pred(f[1:], key, v)]:
                del d[key]
            return "u"
        if n == "sort":
            self.d = dict(sorted(d.items(), key=lambda kv: kv[0])); return "u"
        if n == "sortby":
            if f[1] == "kdesc":
                self.d = dict(sorted(d.items(), key=lambda kv: kv[0], reverse=True))
            else:
                self.d = dict(sorted(d.items(), key=lambda kv: rank(kv[1])))
            return "u"
        if n == "idx":
            return d.get(k, "P")
        if n == "idxm":
            return d.get(k, "P" if self.ismap else "N")
        if n == "iset":
            if self.ismap and k not in d:
                return "P"
            d[k] = p; return "u"
        if n in ("ext", "from"):
            if n == "from":
                self.d = d = {}
            for i in range(1, len(f) - 1, 2):
                d[f[i]] = self.norm(f[i + 1])
            return "u"
        return "na"

    def printed(self):
        def pv(p):
            return p[1:] if p[0] == "i" else "{}"
        if self.kind == "table":
            return "".join("%s = %s\n" % (k, pv(v)) for k, v in self.d.items() if v != "T")
        if not self.d:
            return "{}"
        return "{ " + ", ".join("%s = %s" % (k, pv(v)) for k, v in self.d.items()) + " }"

    def observe(self):
        d = self.d
        s = "len=%d emp=%s iter=%s get=[%s] ck=[%s]" % (
            len(d), "true" if not d else "false", self.show_items(),
            ",".join("%s:%s" % (k, d.get(k, "-")) for k in KEYS3),
            ",".join("%s:%s" % (k, "true" if k in d else "false") for k in KEYS3))
        if not self.ismap:
            s += " print=" + common.hexarg(self.printed().encode())
        return s


class RefVec:
    """a plain vector: python list; out-of-range insert/remove/replace/index = the documented panic `P`"""

    def __init__(self, kind):
        self.kind, self.v = kind, []

    def call(self, f):
        v, n = self.v, f[0]
        if n not in AVAIL[self.kind]:
            return "na"
        a = [int(x) for x in f[1:]] if n not in ("ret", "sortby") else None
        if n in ("push", "pushf"):
            v.append(a[0]); return "u"
        if n in ("ins", "insf"):
            if a[0] > len(v):
                return "P"
            v.insert(a[0], a[1]); return "u"
        if n in ("rep", "repf", "iset"):
            if a[0] >= len(v):
                return "P"
            old = v[a[0]]; v[a[0]] = a[1]
            return "u" if n == "iset" else str(old)
        if n == "rm":
            if a[0] >= len(v):
                return "P"
            old = v.pop(a[0])
            return str(old) if self.kind == "array" else "u"
        if n in ("get", "getm", "iget"):
            return str(v[a[0]]) if a[0] < len(v) else "-"
        if n == "idx":
            return str(v[a[0]]) if a[0] < len(v) else "P"
        if n == "len":
            return str(len(v))
        if n == "emp":
            return "true" if not v else "false"
        if n in ("iter", "iterm", "into"):
            return "[" + ",".join(map(str, v)) + "]"
        if n == "clr":
            del v[:]; return "u"
        if n == "ret":
            keep = {"lt": lambda x: x < int(f[2]), "odd": lambda x: x % 2 == 1,
                    "all": lambda x: True}.get(f[1], lambda x: False)
            v[:] = [x for x in v if keep(x)]; return "u"
        if n == "sortby":
            v.sort(key={"desc": lambda x: -x, "mod3": lambda x: x % 3}.get(f[1], lambda x: x)); return "u"
        if n == "sortkey":
            v.sort(key=lambda x: x % 3); return "u"
        if n == "ext":
            v.extend(a); return "u"
        if n == "from":
            v[:] = a; return "u"
        return "na"

    def observe(self):
        v = self.v
        return "len=%d emp=%s iter=[%s] get=[%s]" % (
            len(v), "true" if not v else "false", ",".join(map(str, v)),
            ",".join("%d:%s" % (i, v[i] if i < len(v) else "-") for i in range(len(v) + 1)))


def reference_line(kind, ops):
    r = RefMap(kind) if kind in MAPLIKE else RefVec(kind)
    outs = [r.call(op.split(",")) for op in ops.split(";") if op]
    return ";".join(outs) + "|" + r.observe()


# ------------------------------------------------------------------------------------------
# generators
# ------------------------------------------------------------------------------------------
def mk_case(kind, ops, gen):
    opl = [o.split(",") for o in ops]
    keys = [o[1] for o in opl if len(o) > 1 and o[0] not in ("ret", "sortby", "ext", "from", "push", "pushf")]
    for o in opl:
        if o[0] in ("ext", "from"):
            keys += o[1::2] if kind in MAPLIKE else []
    nt = len(ops) >= 3 and len(keys) != len(set(keys))
    return Case("ops", [kind.encode(), ";".join(ops).encode()], {"kind": "%s/%s" % (kind, gen), "nt": nt})


W_TABLE = [("ins", 12), ("insf", 3), ("rm", 8), ("rme", 3), ("get", 3), ("getm", 1), ("gkv", 1), ("gkvm", 1), ("ck", 2),
           ("ct", 1), ("cv", 1), ("ca", 1), ("key", 1), ("len", 2), ("emp", 1), ("iter", 2), ("iterm", 1), ("clr", 1),
           ("ent", 2), ("eoi", 4), ("eins", 2), ("erm", 2), ("goi", 2), ("ret", 2), ("sort", 2), ("sortby", 2), ("idx", 2),
           ("iset", 4), ("ioi", 3), ("ext", 2), ("from", 1), ("into", 1), ("keys", 1), ("vals", 1)]
W_VEC = [("push", 10), ("pushf", 2), ("ins", 6), ("insf", 2), ("rep", 3), ("repf", 1), ("rm", 6), ("get", 3), ("getm", 1),
         ("len", 2), ("emp", 1), ("iter", 2), ("iterm", 1), ("clr", 1), ("ret", 2), ("sortby", 2), ("sortkey", 1), ("ext", 2),
         ("from", 1), ("into", 1), ("idx", 2), ("iget", 1), ("iset", 2)]


def rand_pay(rng, kind):
    r = rng.random()
    if r < 0.75:
        return "i%d" % rng.randrange(5)
    if kind in ("map_sorted", "map_ordered"):
        return "T"
    return "T" if r < 0.9 else "I"


def rand_map_history(rng, kind, keys, maxlen):
    names = [(n, w) for n, w in W_TABLE if n in AVAIL[kind]]
    pidx = rng.choice((0.0, 0.03, 0.1)) if kind in TABLELIKE else 0.02
    tot = float(sum(w for _, w in names))
    names = names + [("idxm", pidx * tot / (1 - pidx))] if pidx else names
    pop, wts = [n for n, _ in names], [w for _, w in names]
    ops = []
    for n in rng.choices(pop, wts, k=rng.randrange(maxlen + 1)):
        k = rng.choice(keys)
        if n in ("ins", "insf", "eoi", "eins", "goi", "iset", "ioi"):
            ops.append("%s,%s,%s" % (n, k, rand_pay(rng, kind)))
        elif n == "ret":
            ops.append("ret," + rng.choice(["kne," + k, "int", "lt,%d" % rng.randrange(5), "all", "none"]))
        elif n == "sortby":
            ops.append("sortby," + rng.choice(["kdesc", "vasc"]))
        elif n in ("ext", "from"):
            m = rng.randrange(4)
            ops.append(",".join([n] + ["%s,%s" % (rng.choice(keys), rand_pay(rng, kind)) for _ in range(m)]))
        elif n in ("len", "emp", "iter", "iterm", "keys", "vals", "clr", "sort", "into"):
            ops.append(n)
        else:
            ops.append("%s,%s" % (n, k))
    return ops


def rand_vec_history(rng, kind, maxlen):
    names = [(n, w) for n, w in W_VEC if n in AVAIL[kind]]
    pop, wts = [n for n, _ in names], [w for _, w in names]
    ref = RefVec(kind)
    ops = []
    for n in rng.choices(pop, wts, k=rng.randrange(maxlen + 1)):
        ln = len(ref.v)
        z = rng.randrange(6)
        i = rng.randrange(ln + 2) if rng.random() < 0.9 else rng.randrange(40)
        if n in ("push", "pushf"):
            op = "%s,%d" % (n, z)
        elif n in ("ins", "insf", "rep", "repf", "iset"):
            op = "%s,%d,%d" % (n, i, z)
        elif n in ("rm", "get", "getm", "idx", "iget"):
            op = "%s,%d" % (n, i)
        elif n == "ret":
            op = "ret," + rng.choice(["lt,%d" % rng.randrange(6), "odd", "all", "none"])
        elif n == "sortby":
            op = "sortby," + rng.choice(["asc", "desc", "mod3"])
        elif n in ("ext", "from"):
            op = ",".join([n] + [str(rng.randrange(6)) for _ in range(rng.randrange(4))])
        else:
            op = n
        ref.call(op.split(","))
        ops.append(op)
    return ops


# reduced call sets for the exhaustive small scope (keys a, b); the first `n` entries are used
EXH = {
    "table": ["ins,a,i1", "idxm,a", "rm,a", "ins,b,i2", "eoi,a,i3", "idxm,b", "sort", "iset,b,T", "erm,a", "ioi,a,i4",
              "rme,b", "eins,a,i5", "ret,kne,a", "sortby,vasc", "ext,b,i1,a,i0", "into"],
    "inline": ["ins,a,i1", "idxm,a", "rm,a", "ins,b,i2", "eoi,a,i3", "idxm,b", "sort", "iset,b,I", "erm,a", "ioi,a,i4",
               "goi,b,i0", "ent,a", "ret,kne,a", "sortby,vasc", "ext,b,i1,a,i0", "into"],
    "inline_tl": ["ins,a,i1", "idxm,a", "rm,a", "ins,b,i2", "eoi,a,i3", "idxm,b", "iter", "get,a", "sort", "iset,b,I",
                  "erm,a", "ioi,a,i4", "eins,b,i5", "ent,a", "clr", "getm,b"],
    "map_sorted": ["ins,b,i1", "ins,a,i2", "rm,a", "eoi,b,i3", "iset,a,i4", "rm,b", "erm,a", "ins,a,T", "eins,b,i5",
                   "ret,kne,a", "ext,b,i1,a,i0", "idxm,a", "clr", "from,b,i2,a,i1", "keys", "into"],
    "array": ["push,1", "push,0", "rm,0", "ins,1,2", "rep,0,3", "ins,0,4", "rm,1", "sortby,asc", "iset,1,5", "ret,odd",
              "sortkey", "ext,2,1", "clr", "sortby,desc", "idx,1", "into"],
    "aot": ["push,1", "push,0", "rm,0", "rm,1", "iset,0,3", "ret,odd", "ext,2,1", "clr", "from,4,5", "idx,1", "get,0",
            "iset,1,5", "into", "iter", "len", "emp"],
}
EXH["map_ordered"] = EXH["map_sorted"]

_ALL = []      # every generated case (for the lazy batches below)


# ---- long containers with ties: a sort must be STABLE (std / indexmap sorts are insertion sorts up to 20 elements,
# so an unstable variant only shows on more than 20 elements) ------------------------------------------------
def long_vec_history(rng):
    """an array of 21..80 integers over 3-4 residues mod 3 / few distinct values, all distinguishable (z = 3*j + r),
    sorted by a key with ties, then observed through iter / get / remove(i)"""
    n = rng.randrange(21, 81)
    vals = [3 * j + rng.randrange(3) for j in rng.sample(range(200), n)]
    ops = []
    if rng.random() < 0.5:
        ops.append("from," + ",".join(map(str, vals)))
    else:
        k = rng.randrange(1, n)
        ops.append("ext," + ",".join(map(str, vals[:k])))
        ops += ["push,%d" % z for z in vals[k:]]
    for _ in range(rng.choice([1, 1, 2, 3])):
        ops.append(rng.choice(["sortkey", "sortby,mod3", "sortkey", "sortby,mod3", "sortby,desc"]))
        for _ in range(rng.randrange(0, 5)):
            r = rng.random()
            i = rng.randrange(n + 1)
            if r < 0.3:
                ops.append("get,%d" % i)
            elif r < 0.55:
                ops.append("rm,%d" % i)
            elif r < 0.7:
                ops.append("ins,%d,%d" % (i, 3 * rng.randrange(200, 300) + rng.randrange(3)))
            elif r < 0.85:
                ops.append("iter")
            else:
                ops.append("idx,%d" % i)
    ops.append("iter")
    return ops


def long_map_history(rng, kind):
    """a table / inline table of 21..60 keys whose values are drawn from a few integers (ties everywhere),
    sorted by value (`sort_values_by`), possibly after a sort by key in the other direction, then observed"""
    n = rng.randrange(21, 61)
    keys = ["k%02d" % j for j in rng.sample(range(100), n)]
    pay = lambda: rng.choice(["i0", "i1", "i2", "i3", "T" if kind == "table" else "I"] if rng.random() < 0.15 else ["i0", "i1", "i2", "i3"])
    ops = []
    if rng.random() < 0.4:
        ops.append("ext," + ",".join("%s,%s" % (k, pay()) for k in keys))
    else:
        ops += ["ins,%s,%s" % (k, pay()) for k in keys]
    for _ in range(rng.choice([1, 1, 2, 3])):
        if rng.random() < 0.4:
            ops.append(rng.choice(["sort", "sortby,kdesc"]))
        ops.append("sortby,vasc")
        for _ in range(rng.randrange(0, 5)):
            r = rng.random()
            k = rng.choice(keys)
            if r < 0.3:
                ops.append("rm,%s" % k)
            elif r < 0.5:
                ops.append("ins,%s,%s" % (k, pay()))
            elif r < 0.65:
                ops.append("ins,n%02d,%s" % (rng.randrange(100), pay()))
            elif r < 0.85:
                ops.append("iter")
            else:
                ops.append("get,%s" % k)
    ops.append("iter")
    return ops


def mk_long(kind, ops):
    c = mk_case(kind, ops, "long-ties")
    c.meta["nt"] = True
    return c


def gen_cases(rng, tier):
    quick = tier == "quick"
    out = []
    # hand-written witnesses first
    for kind, ops in WITNESSES:
        out.append(mk_case(kind, ops.split(";"), "witness"))
    n_exh = 7 if quick else 14
    for kind in KINDS:
        base = EXH[kind][:n_exh]
        for ln in range(0, 5):
            for h in itertools.product(base, repeat=ln):
                out.append(mk_case(kind, list(h), "exhaustive"))
    n_rand = 1500 if quick else 100000
    for kind in KINDS:
        for _ in range(n_rand):
            if kind in MAPLIKE:
                ops = rand_map_history(rng, kind, KEYS3, 30)
            else:
                ops = rand_vec_history(rng, kind, 30)
            out.append(mk_case(kind, ops, "random"))
    n_long = 400 if quick else 8000
    for _ in range(n_long):
        out.append(mk_long("array", long_vec_history(rng)))
    for kind in ("table", "inline"):
        for _ in range(n_long * 3 // 4):
            out.append(mk_long(kind, long_map_history(rng, kind)))
    del _ALL[:]
    _ALL.extend(out)
    return out


WITNESSES = [
    # F11 (repaired, commit acb0168): TableLike for InlineTable must not show the placeholder
    ("inline_tl", "idxm,a;len;emp;iter;get,a;ck,a"),
    ("inline_tl", "idxm,a;iter;iterm;get,a;getm,a;gkv,a;gkvm,a;len;emp;ck,a"),
    ("inline_tl", "idxm,a"),
    ("inline_tl", "ins,b,i1;idxm,a;idxm,c;iter;get,a;get,c;len"),
    # residue through the TableLike view
    ("inline_tl", "idxm,a;ent,a"),
    ("inline_tl", "idxm,a;key,a"),
    ("inline_tl", "idxm,a;eoi,a,i1;len"),
    ("inline_tl", "idxm,a;ins,b,i1;ins,a,i2;iter"),
    # residue: write paths on a placeholder key
    ("table", "idxm,a;ins,a,i1"),
    ("table", "idxm,a;ins,b,i1;ins,a,i2;iter"),
    ("table", "idxm,a;eoi,a,i1;len"),
    ("table", "idxm,a;rm,a"),
    ("table", "idxm,a;into"),
    ("table", "idxm,a;key,a"),
    ("inline", "idxm,a;ent,a;len"),
    ("inline", "idxm,a;goi,a,i1"),
    ("inline", "idxm,a;eoi,a,i1;iter"),
    # placeholders stay invisible to the filtered accessors
    ("table", "idxm,a;len;emp;iter;get,a;ck,a;getm,a;gkv,a;idxm,a"),
    ("inline", "idxm,a;len;emp;iter;get,a;ck,a;getm,a;gkv,a;into;rm,a"),
    ("table", "idxm,a;iset,b,i1;sort;iter;ret,all;clr"),
    ("map_sorted", "ins,c,i1;ins,a,i2;ins,b,i3;iter;rm,a;ins,a,i4;iter"),
    ("map_ordered", "ins,c,i1;ins,a,i2;ins,b,i3;iter;rm,a;ins,a,i4;iter"),
    ("array", "push,1;push,2;ins,1,3;rm,0;rep,1,4;ins,9,1;rm,9;rep,9,1"),
    ("aot", "push,1;push,2;rm,0;rm,5;iter"),
]


# ------------------------------------------------------------------------------------------
# second build (toml/preserve_order) and model classifier, in lazy batches
# ------------------------------------------------------------------------------------------
_po_cache = {}
_cls_cache = {}
BINS = {}


def _kind_ops(case):
    return case.args[0].decode(), case.args[1].decode()


def _po_line(case):
    line = case.line()
    if line not in _po_cache:
        todo = [c.line() for c in _ALL if c.args[0] == b"map_ordered"]
        if line not in todo:
            todo = [line]
        todo = [l for l in dict.fromkeys(todo) if l not in _po_cache]
        binary = BINS.get("po") or common.harness_bin("release", ("po",), "c16")
        for l, r in zip(todo, common.run_lines(binary, todo)):
            _po_cache[l] = r
    return _po_cache[line]


def _cls(case):
    kind, _ = _kind_ops(case)
    if kind not in TABLELIKE:
        return "none"
    line = "cls " + " ".join(common.hexarg(a) for a in case.args)
    if line not in _cls_cache:
        todo = ["cls " + " ".join(common.hexarg(a) for a in c.args) for c in _ALL if c.args[0].decode() in TABLELIKE]
        if line not in todo:
            todo = [line]
        todo = [l for l in dict.fromkeys(todo) if l not in _cls_cache]
        for l, r in zip(todo, common.run_lines(common.driver_bin(DRIVER_NAME), todo)):
            _cls_cache[l] = r
    return _cls_cache[line]


def extra_select(case, name):
    return case.args[0] != b"map_sorted"      # the `po` build answers `skip` for the BTreeMap configuration


def _impl(case, impl_line):
    return _po_line(case) if impl_line == "skip" else impl_line


def compare(case, model_line, impl_line):
    il = _impl(case, impl_line)
    if model_line == il:
        return None
    return "model and implementation differ"


def oracle(case, impl_line):
    kind, ops = _kind_ops(case)
    il = _impl(case, impl_line)
    if il.startswith(("PANIC", "CRASH", "TIMEOUT")):
        return "implementation crashed: " + il
    want = reference_line(kind, ops)
    if il == want:
        return None
    wo, wobs = want.split("|", 1)
    if "|" not in il:
        return "malformed line %r" % il
    io, iobs = il.split("|", 1)
    wl, ill = wo.split(";"), io.split(";")
    calls = [o for o in ops.split(";") if o]
    for n, (a, b) in enumerate(zip(wl, ill)):
        if a != b:
            return "%s: call %d `%s` returned %s, a plain ordered %s returns %s" % (
                kind, n + 1, calls[n] if n < len(calls) else "?", b, "map" if kind in MAPLIKE else "vector", a)
    return "%s: after the last call the container shows {%s}, a plain ordered %s shows {%s}" % (
        kind, iobs, "map" if kind in MAPLIKE else "vector", wobs)


def known_class(case, impl_line):
    return None      # no known class is left (C16-placeholder-residue and C16-tablelike-placeholder are repaired)


def nontrivial(case, impl_line):
    return bool(case.meta.get("nt")) or case.meta.get("kind", "").endswith("witness")


def extra_coverage(cases, impl, model):
    kinds = {}
    with_placeholder = 0
    for c in cases:
        k = c.args[0].decode()
        kinds[k] = kinds.get(k, 0) + 1
        if k in TABLELIKE and "idxm," in c.args[1].decode():
            with_placeholder += 1
    return {"histories_per_container": kinds, "histories_creating_a_placeholder": with_placeholder,
            "map_ordered_cases_run_on_preserve_order_build": len(_po_cache)}


def search(rng, ctx):
    return gen_cases(rng, "quick")


def shrink(case, il, why, run):
    """drop calls while the history still fails outside the known classes"""
    kind, ops = _kind_ops(case)
    cur = [o for o in ops.split(";") if o]
    cur_il, cur_why = il, why
    changed = True
    while changed and len(cur) > 1:
        changed = False
        cands = [mk_case(kind, cur[:i] + cur[i + 1:], "shrunk") for i in range(len(cur))]
        outs = run(cands)
        for c, l in zip(cands, outs):
            w = oracle(c, l)
            if w and not known_class(c, l):
                cur = [o for o in c.args[1].decode().split(";") if o]
                cur_il, cur_why = _impl(c, l), w
                changed = True
                break
    return mk_case(kind, cur, "shrunk"), cur_il, cur_why
