"""C16 — Tables, arrays and maps obey ordered-container laws under any call sequence.

A case is `ops <kind> <oplist>`: a history of API calls on one container
(kind: table | inline | inline_tl | array | aot | map_sorted | map_ordered; oracle-only kinds: table_tl | doc).  The harness
(harness/src/bin/c16.rs) replays it on the real container, the driver (coq/Extract/Cmd_c16.v)
on the Coq model; both print `<out of call 1>;<out of call 2>;...|<final observation>`.

Calls (fields joined by `,`, calls by `;`; k = key, p = payload `i<int>` | `T` (table) | `I` (inline table)):
  map-like : ins,k,p insf,k,p rm,k rme,k get,k getm,k gkv,k gkvm,k ck,k ct,k cv,k ca,k key,k len emp
             iter iterm keys vals clr ent,k eoi,k,p eins,k,p erm,k goi,k,p ret,<pred> sort sortby,<kdesc|vasc>
             idx,k idxm,k iset,k,p ioi,k,p ext,k,p,... from,k,p,... into          pred: kne,k | int | lt,n | all | none
  vectors  : push,z pushf,z ins,i,z insf,i,z rep,i,z repf,i,z rm,i get,i getm,i len emp iter iterm clr
             ret,<lt,n|odd|all|none> sortby,<asc|desc|mod3> sortkey ext,z,... from,z,... into idx,i iget,i iset,i,z
             (sortby,mod3 = Array::sort_by comparing `x mod 3`; sortkey = Array::sort_by_key(x mod 3): comparators with ties)
A call a container does not offer prints `na`; a panic inside a call prints `P`.

The ORACLE does not look at the Coq model: it replays the history on a plain Python ordered
dict / list (`RefMap`, `RefVec` below: insertion of an existing key keeps its position, removal keeps
the order of the rest, auto-vivifying `&mut c[k]` is a no-op) and demands the identical line.

The two `toml::Map` configurations live in two builds of the harness.  The main build answers
`skip` for `map_ordered`; `compare` and `oracle` then substitute the answer of the second build
(`EXTRA_HARNESS["po"]`, feature `po` = toml/preserve_order), obtained in one batch on first use and
cached by case line — so map_ordered cases count for the verdict exactly like all others.

Calls outside the modelled universe (lib/scan_api.py class `exercised-by-harness`; the Coq driver is not asked, `compare` skips them):
  * extra calls on the seven kinds (ORACLE_ONLY: entry_format, or_insert_with, Entry::key, OccupiedEntry::{key_mut, get_mut, into_mut},
    VacantEntry::key, IntoIterator for &C / &mut C, get_values, Map::with_capacity, toml::Value projections of a Map, IndexMut of
    InlineTable, Display for ArrayOfTables), judged by the same python reference;
  * kind `table_tl`: a standard Table through `dyn TableLike` (the calls of inline_tl), same reference;
  * kind `doc`: flag / position / formatting setters, TableLike::insert / entry with ANY item, Item conversions on every shape,
    Array::fmt / sort_by over mixed kinds, ArrayOfTables::retain / iter_mut / get_mut, replacing the root item - on a whole DocumentMut
    (see `doc_verdict`: no call panics, the text is valid TOML and holds the data of the tree, both read APIs show the same tree).
    Four known classes live here (decided on the implementation's line): C16-tablelike-insert-none-panics,
    C16-inline-read-panics-on-non-value, C16-root-not-a-table-print-panics, C16-raw-flag-setters-move-content.

Known classes of the seven modelled kinds: none.  The former class C16-placeholder-residue (write / entry paths treated an `Item::None`
placeholder left by `&mut c[k]` as a real entry: insert / remove returned Some(Item::None), entry().or_insert stored
nothing, Table::into_iter yielded it, key() was Some, InlineTable::entry turned it into `{}`, get_or_insert panicked,
the position was kept) was repaired in /repo (Table / InlineTable::remove_placeholder at the head of every write and
entry path, filters in key() / key_mut() / IntoIterator for Table), like C16-tablelike-placeholder (DESIGN.md F11,
commit acb0168) before it.  The witnesses of both stay in WITNESSES below as permanent cases and have to satisfy
the oracle like every other case; the model command `cls` answers `none` for every history.
"""
import itertools
import common
from runner import Case

PROP = "C16"
TITLE = "Tables, arrays and maps obey ordered-container laws under any call sequence"
COQ_PROPS = "Props/C16.v"
DRIVER_NAME = "c16"
HARNESS = {"bin": "c16"}
EXTRA_HARNESS = {"po": ("release", ("po",))}
EXTRA_ORACLE = ["po"]     # every other kind is also judged on the preserve_order build (the feature must not matter)
THEOREMS = [
    "C16_table / C16_inline / C16_inline_tablelike: forall h (no exclusion), outputs and final observation of the model = those of the reference ordered map",
    "C16_table_regression / C16_inline_regression / C16_inline_tablelike_regression: the former counterexamples (write/entry paths on a placeholder key) now agree with the reference",
    "C16_placeholder_calls: every call made in any reachable state answers as the reference does on the real entries",
    "C16_array / C16_aot / C16_map_sorted / C16_map_ordered: forall h, outputs and final observation of the model = reference (Array::sort_by / sort_by_key with any comparator of the vocabulary, incl. the tie-rich `x mod 3`, = the reference STABLE sort)",
    "C16_placeholder: len/is_empty/iter/get/contains_key/printed entries of Table, InlineTable and the TableLike view of InlineTable ignore Item::None entries, in every state",
]
RULE = ("random call sequences of length <= 30 over keys {a,b,c} (payloads i0..i4, T, I) on each of the 7 container kinds, "
        "plus ALL histories of length <= 4 over keys {a,b} for a reduced call set per kind; "
        "plus long containers with ties: arrays of 21..80 distinguishable integers sorted by `x mod 3` (sort_by / sort_by_key), tables and inline "
        "tables of 21..60 keys with values from {0..3} sorted by value (sort_values_by, also after sort_values / a sort by key descending), then iter / get / remove; "
        "non-trivial = at least 3 calls and at least two calls addressing the same key / index")
ASSUMPTIONS = [
    "IndexMap, BTreeMap and Vec are modelled by their functional specification (insertion-ordered / key-ordered association list, list); sort_by is a stable sort",
    "an inline table stores values only: a table payload enters inline kinds as an empty inline table (what Item::into_value does)",
    "array / array-of-tables elements are integers / tables {id = z}; only such elements are stored by the modelled calls",
]

KEYS3 = ["a", "b", "c"]
MAPLIKE = ("table", "inline", "inline_tl", "map_sorted", "map_ordered")
TABLELIKE = ("table", "inline", "inline_tl")
VECLIKE = ("array", "aot")
KINDS = MAPLIKE + VECLIKE

AVAIL = {
    "table": set("ins insf rm rme get getm gkv gkvm ck ct cv ca key len emp iter iterm clr ent eoi eins erm ret sort "
                 "sortby idx idxm iset ioi ext from into".split()),
    "inline": set("ins insf rm rme get getm gkv gkvm ck key len emp iter iterm clr ent eoi eins erm goi ret sort sortby "
                  "idx idxm iset ioi ext from into".split()),
    "inline_tl": set("ins rm get getm gkv gkvm ck key len emp iter iterm clr ent eoi eins erm sort idxm iset ioi".split()),
    "map_sorted": set("ins rm get getm gkv ck len emp iter iterm keys vals clr ent eoi eins erm ret idx idxm iset ext "
                      "from into".split()),
    "array": set("push pushf ins insf rep repf rm get getm len emp iter iterm clr ret sortby sortkey ext from into idx "
                 "iget iset".split()),
    "aot": set("push rm get getm len emp iter iterm clr ret ext from into idx iget iset".split()),
}
# calls judged by the python reference only (the Coq driver does not know them; `compare` skips such histories):
# entry_format, or_insert_with, Entry::key, OccupiedEntry::{key_mut, get_mut, into_mut}, VacantEntry::key, IntoIterator for
# &C / &mut C, get_values, Map::with_capacity, Display for ArrayOfTables (lib/scan_api.py: class exercised-by-harness)
ORACLE_ONLY = set("entf eoiw ekey emut intor intom gv cap disp vget vset varr idxmi fmt dot".split())
AVAIL["table"] |= set("entf eoiw ekey emut intor gv".split())
AVAIL["inline"] |= set("entf eoiw ekey emut intor gv idxmi".split())
AVAIL["map_sorted"] |= set("eoiw ekey emut intor intom cap vget vset varr".split())
AVAIL["inline_tl"] |= set("gv fmt dot".split())
AVAIL["table_tl"] = set(AVAIL["inline_tl"])          # a standard Table through `dyn TableLike`: oracle-only kind (no Coq counterpart)
AVAIL["array"] |= set(["intor"])
AVAIL["aot"] |= set(["intor", "disp"])
AVAIL["map_ordered"] = AVAIL["map_sorted"]


# ------------------------------------------------------------------------------------------
# the independent reference
# ------------------------------------------------------------------------------------------
def rank(p):
    return (2, int(p[1:])) if p[0] == "i" else (1, 0)


class RefMap:
    """a plain ordered map: python dict (insertion order; assignment to an existing key keeps its place)"""

    def __init__(self, kind):
        self.kind, self.d = kind, {}
        self.sorted = kind == "map_sorted"
        self.ismap = kind in ("map_sorted", "map_ordered")

    def norm(self, p):
        return "I" if (p == "T" and self.kind in ("inline", "inline_tl", "table_tl")) else p

    def items(self):
        return sorted(self.d.items()) if self.sorted else list(self.d.items())

    def show_items(self):
        return "[" + ",".join("%s=%s" % kv for kv in self.items()) + "]"

    def pred(self, f, k, p):
        if f[0] == "kne":
            return k != f[1]
        if f[0] == "int":
            return p[0] == "i"
        if f[0] == "lt":
            return p[0] == "i" and int(p[1:]) < int(f[1])
        return f[0] == "all"

    def call(self, f):
        d, n = self.d, f[0]
        if n not in AVAIL[self.kind]:
            return "na"
        k = f[1] if len(f) > 1 else None
        p = self.norm(f[2]) if len(f) > 2 and n not in ("ret", "ext", "from") else None
        if n in ("ins", "insf"):
            old = d.get(k, "-"); d[k] = p; return old
        if n == "rm":
            return d.pop(k, "-")
        if n == "rme":
            return "%s=%s" % (k, d.pop(k)) if k in d else "-"
        if n in ("get", "getm"):
            return d.get(k, "-")
        if n in ("gkv", "gkvm"):
            return "%s=%s" % (k, d[k]) if k in d else "-"
        if n in ("ck", "key"):
            return "true" if k in d else "false"
        if n == "ct":
            return "true" if d.get(k) == "T" else "false"
        if n == "cv":
            return "true" if k in d and d[k] != "T" else "false"
        if n == "ca":
            return "false"
        if n == "len":
            return str(len(d))
        if n == "emp":
            return "true" if not d else "false"
        if n in ("iter", "iterm", "into", "intor", "intom"):
            return self.show_items()
        if n == "keys":
            return "[" + ",".join(k for k, _ in self.items()) + "]"
        if n == "vals":
            return "[" + ",".join(v for _, v in self.items()) + "]"
        if n == "clr":
            d.clear(); return "u"
        if n == "ent":
            return "occ:" + d[k] if k in d else "vac"
        if n in ("eoi", "goi", "ioi", "entf", "eoiw"):
            if k not in d:
                d[k] = p
            return d[k]
        if n == "ekey":
            return k
        if n == "emut":
            if k not in d:
                return "vac:" + k
            d[k] = p
            return "occ:%s:%s" % (k, p) if self.ismap else "occ:%s/%s:%s" % (k, k, p)
        if n == "gv":           # the key/value lines: values (an inline table is one value), not sub-tables
            return str(sum(1 for v in d.values() if v != "T"))
        if n == "cap":
            self.d = {}; return "u"
        if n == "fmt":
            return "u"
        if n == "dot":
            return "false"
        if n == "vget":
            return "%s/%s" % (d.get(k, "-"), d.get(k, "-"))
        if n == "vset":
            if k not in d:
                return "none"
            d[k] = p; return p
        if n == "varr":
            vs = [v for _, v in self.items()][::-1]
            if vs:
                vs[0] = p
            return "[" + ",".join(vs) + "]"
        if n == "idxmi":
            if k not in d:
                return "P"
            d[k] = p; return "u"
        if n == "eins":
            old = d.get(k, "vac"); d[k] = p; return old
        if n == "erm":
            return d.pop(k, "vac")
        if n == "ret":
            for key in [key for key, v in d.items() if not self.pred(f[1:], key, v)]:
                del d[key]
            return "u"
        if n == "sort":
            self.d = dict(sorted(d.items(), key=lambda kv: kv[0])); return "u"
        if n == "sortby":
            if f[1] == "kdesc":
                self.d = dict(sorted(d.items(), key=lambda kv: kv[0], reverse=True))
            else:
                self.d = dict(sorted(d.items(), key=lambda kv: rank(kv[1])))
            return "u"
        if n == "idx":
            return d.get(k, "P")
        if n == "idxm":
            return d.get(k, "P" if self.ismap else "N")
        if n == "iset":
            if self.ismap and k not in d:
                return "P"
            d[k] = p; return "u"
        if n in ("ext", "from"):
            if n == "from":
                self.d = d = {}
            for i in range(1, len(f) - 1, 2):
                d[f[i]] = self.norm(f[i + 1])
            return "u"
        return "na"

    def printed(self):
        def pv(p):
            return p[1:] if p[0] == "i" else "{}"
        if self.kind in ("table", "table_tl"):
            return "".join("%s = %s\n" % (k, pv(v)) for k, v in self.d.items() if v != "T")
        if not self.d:
            return "{}"
        return "{ " + ", ".join("%s = %s" % (k, pv(v)) for k, v in self.d.items()) + " }"

    def observe(self):
        d = self.d
        s = "len=%d emp=%s iter=%s get=[%s] ck=[%s]" % (
            len(d), "true" if not d else "false", self.show_items(),
            ",".join("%s:%s" % (k, d.get(k, "-")) for k in KEYS3),
            ",".join("%s:%s" % (k, "true" if k in d else "false") for k in KEYS3))
        if not self.ismap:
            s += " print=" + common.hexarg(self.printed().encode())
        return s


class RefVec:
    """a plain vector: python list; out-of-range insert/remove/replace/index = the documented panic `P`"""

    def __init__(self, kind):
        self.kind, self.v = kind, []

    def call(self, f):
        v, n = self.v, f[0]
        if n not in AVAIL[self.kind]:
            return "na"
        a = [int(x) for x in f[1:]] if n not in ("ret", "sortby") else None
        if n in ("push", "pushf"):
            v.append(a[0]); return "u"
        if n in ("ins", "insf"):
            if a[0] > len(v):
                return "P"
            v.insert(a[0], a[1]); return "u"
        if n in ("rep", "repf", "iset"):
            if a[0] >= len(v):
                return "P"
            old = v[a[0]]; v[a[0]] = a[1]
            return "u" if n == "iset" else str(old)
        if n == "rm":
            if a[0] >= len(v):
                return "P"
            old = v.pop(a[0])
            return str(old) if self.kind == "array" else "u"
        if n in ("get", "getm", "iget"):
            return str(v[a[0]]) if a[0] < len(v) else "-"
        if n == "idx":
            return str(v[a[0]]) if a[0] < len(v) else "P"
        if n == "len":
            return str(len(v))
        if n == "emp":
            return "true" if not v else "false"
        if n in ("iter", "iterm", "into", "intor"):
            return "[" + ",".join(map(str, v)) + "]"
        if n == "disp":
            return common.hexarg(("[" + ", ".join("{ id = %d }" % x for x in v) + "]").encode())
        if n == "clr":
            del v[:]; return "u"
        if n == "ret":
            keep = {"lt": lambda x: x < int(f[2]), "odd": lambda x: x % 2 == 1,
                    "all": lambda x: True}.get(f[1], lambda x: False)
            v[:] = [x for x in v if keep(x)]; return "u"
        if n == "sortby":
            v.sort(key={"desc": lambda x: -x, "mod3": lambda x: x % 3}.get(f[1], lambda x: x)); return "u"
        if n == "sortkey":
            v.sort(key=lambda x: x % 3); return "u"
        if n == "ext":
            v.extend(a); return "u"
        if n == "from":
            v[:] = a; return "u"
        return "na"

    def observe(self):
        v = self.v
        return "len=%d emp=%s iter=[%s] get=[%s]" % (
            len(v), "true" if not v else "false", ",".join(map(str, v)),
            ",".join("%d:%s" % (i, v[i] if i < len(v) else "-") for i in range(len(v) + 1)))


def reference_line(kind, ops):
    r = RefMap(kind) if kind in MAPLIKE + ("table_tl",) else RefVec(kind)
    outs = [r.call(op.split(",")) for op in ops.split(";") if op]
    return ";".join(outs) + "|" + r.observe()


# ------------------------------------------------------------------------------------------
# kind `doc`: editing entry points no other kind reaches, on a whole DocumentMut (oracle only)
# ------------------------------------------------------------------------------------------
# ops (harness/src/bin/c16.rs doc_op; P = path below the root, `-` = the root; X = payload i<z> | T | T1 | A | A1 | N | I | I1 | Y):
#   new,<hex text>            parse the starting document
#   simp,P,b spos,P,n         Table::set_implicit / set_position          sdot,P,b   TableLike::set_dotted (Table / InlineTable)
#   kpre,P,k,<hex> kdecm,P,k,<hex> kdec,P,k kfmt,P,k    TableLike::key_mut + KeyMut::leaf_decor_mut / key_decor_mut / key_decor / KeyMut::fmt
#   insn,P,k                  Table::insert(k, Item::None)
#   tlins,P,k,X tleoi,P,k,X tlef,P,k,X    TableLike::insert / entry().or_insert / entry_format().or_insert_with with ANY item
#   oi,P,k,X                  node[k].or_insert(X)  (IndexMut + Item::or_insert)
#   intov,P intot,P intoa,P mkval,P       Item::into_value / into_table / into_array_of_tables (stored back) / make_value
#   afmt,P asort,P apush,P,X atr,P,<hex>,b  Array::fmt / sort_by over mixed kinds / push_formatted / set_trailing + set_trailing_comma
#   pre,P,<hex> dec,P,<hex>,<hex> deco,P,<hex>,<hex> dclr,P vfmt,P   InlineTable::set_preamble, decor_mut / Decor::new / set_prefix / set_suffix,
#                             Value::decorated, Decor::clear, Formatted::fmt
#   insk,P,<hex key text>,X   Key::parse + with_leaf_decor + with_dotted_decor + Table::insert_formatted
#   disp,P icl,P pitem,P,<hex>   Display for Item, From<&Item>, Item::from_str
#   aotret,P,k aotset,P,k,X   ArrayOfTables::retain / iter_mut / get_mut
#   root,X trail,<hex>        *doc.as_item_mut() = X ; DocumentMut::set_trailing
# observation: view=<tree through TableLike / Array views, flags kept> built=<tree through the inherent read API>
#              text=<hex of to_string() | P> parse=ok|ERR got=<dump of the re-parsed text>
# The oracle (no python model of the calls): no call panics; to_string() does not panic and is valid TOML; the inherent read API and
# the TableLike view show the same tree; the re-parsed text holds the data of the tree (standard tables as maps; what the API documents
# as not displayed - placeholders, implicit / dotted tables without anything printable, empty arrays of tables - left out).
def _parse_view(s):
    pos = [0]

    def entries(close):
        items = []
        if s[pos[0]] == close:
            pos[0] += 1
            return items
        while True:
            j = s.index("=", pos[0])
            k = s[pos[0]:j]
            pos[0] = j + 1
            items.append((k, node()))
            c = s[pos[0]]
            pos[0] += 1
            if c == close:
                return items
            assert c == ",", s[pos[0] - 8:pos[0] + 8]

    def seq():
        out = []
        if s[pos[0]] == "]":
            pos[0] += 1
            return out
        while True:
            out.append(node())
            c = s[pos[0]]
            pos[0] += 1
            if c == "]":
                return out
            assert c == ","

    def node():
        i = pos[0]
        if s[i] == "N" and (i + 1 == len(s) or s[i + 1] in ",}]"):
            pos[0] += 1
            return ("N",)
        if s[i] == "T" and s[i + 1:i + 4].lstrip("md").startswith("{"):
            j = s.index("{", i)
            pos[0] = j + 1
            return ("T", s[i + 1:j], entries("}"))
        if s.startswith("A[", i):
            pos[0] += 2
            return ("A", seq())
        if s[i] == "[":
            pos[0] += 1
            return ("a", seq())
        if s[i] == "{":
            dotted = s[i + 1] == "~"
            pos[0] += 2 if dotted else 1
            return ("I", "d" if dotted else "", entries("}"))
        j = i
        while j < len(s) and s[j] not in ",}]":
            j += 1
        pos[0] = j
        return ("v", s[i:j])

    n = node()
    assert pos[0] == len(s), "trailing dump text"
    return n


def _raw_in_inline(n, inside=False):
    """an inline table / array holds something that is not a value (what class C16-inline-read-panics-on-non-value is about)"""
    if n[0] in ("T", "A", "N"):
        if inside:
            return True
        kids = [c for _, c in n[2]] if n[0] == "T" else (n[1] if n[0] == "A" else [])
        return any(_raw_in_inline(c, False) for c in kids)
    if n[0] == "I":
        return any(_raw_in_inline(c, True) for _, c in n[2])
    if n[0] == "a":
        return any(_raw_in_inline(c, True) for c in n[1])
    return False


def _printable(n):
    if n[0] == "N":
        return False
    if n[0] == "A":
        return bool(n[1])
    if n[0] in ("T", "I") and n[1]:   # implicit / dotted: shown through what is below it only
        return any(_printable(c) for _, c in n[2])
    return True


def _data(n):
    """data of a (view or re-parsed) tree: tables of both kinds as maps, what is not displayed left out"""
    if n[0] == "v":
        return n[1]
    if n[0] in ("a", "A"):
        return (n[0], [_data(c) for c in n[1]])
    if n[0] in ("T", "I"):
        return {k: _data(c) for k, c in n[2] if _printable(c)}
    return None


def _strip(n):
    """the view without flags and placeholders: what the inherent read API must show"""
    if n[0] == "T":
        return "T{%s}" % ",".join("%s=%s" % (k, _strip(c)) for k, c in n[2] if c[0] != "N")
    if n[0] == "I":
        return "{%s}" % ",".join("%s=%s" % (k, _strip(c)) for k, c in n[2] if c[0] != "N")
    if n[0] == "A":
        return "A[%s]" % ",".join(_strip(c) for c in n[1])
    if n[0] == "a":
        return "[%s]" % ",".join(_strip(c) for c in n[1])
    return n[1] if n[0] == "v" else "N"


KEY_PARSE = {}


def _flag_misuse(calls):
    """set_implicit / set_dotted / set_position are raw field setters; they change what the text MEANS when used on the root table
    (its key/value lines vanish or are printed behind another header), on an element of an array of tables / of an array (a dotted
    element is not printed), or - set_position - in a document with arrays of tables (elements are reordered, sub-tables re-attach)"""
    aot = any(c.startswith("new,") and b"[[" in bytes.fromhex(c.split(",")[1]) for c in calls)
    for c in calls:
        f = c.split(",")
        if f[0] in ("simp", "sdot", "spos") and (f[1] == "-" or f[1].split("/")[-1].startswith("#") or (f[0] == "spos" and aot)):
            return True
    return False


def doc_verdict(ops, il):
    """-> (reason | None, known class | None)"""
    if "|" not in il:
        return "malformed line %r" % il, None
    outs, obs = il.split("|", 1)
    outs = outs.split(";")
    calls = [o for o in ops.split(";") if o]
    d = dict(x.split("=", 1) for x in obs.split(" "))
    for n, (c, o) in enumerate(zip(calls, outs)):
        if o == "P":
            f = c.split(",")
            known = "C16-tablelike-insert-none-panics" if (f[0] == "tlins" and f[3] == "N") else None
            return "doc: call %d `%s` panicked" % (n + 1, c), known
    view = _parse_view(d["view"])
    if d.get("tl", "ok") not in ("ok", "P"):
        # a raw table stored inside an inline table (known class) also makes that inline table's view inconsistent
        return ("doc: the TableLike view of a node disagrees with itself: %s" % d["tl"],
                "C16-inline-read-panics-on-non-value" if _raw_in_inline(view) else None)
    if d["text"] == "P":
        return ("doc: to_string() panicked (root item: %s)" % d["view"][:40],
                "C16-root-not-a-table-print-panics" if view[0] != "T" else None)
    raw = _raw_in_inline(view)
    if d["built"] == "P":
        return ("doc: the inherent read API (InlineTable::iter) panicked on the tree %s" % d["view"][:120],
                "C16-inline-read-panics-on-non-value" if raw else None)
    if not raw and d["built"] != _strip(view):
        return "doc: the inherent read API shows %s, the TableLike view %s" % (d["built"], _strip(view)), None
    misuse = "C16-raw-flag-setters-move-content" if _flag_misuse(calls) else None
    if d.get("parse") != "ok":
        return "doc: the printed text is not valid TOML: %r" % bytes.fromhex(d["text"] if d["text"] != "-" else ""), misuse
    if _data(_parse_view(d["got"])) != _data(view):
        return ("doc: the printed text %r re-parses to %s, the tree holds %s"
                % (bytes.fromhex(d["text"] if d["text"] != "-" else ""), d["got"], d["view"]),
                "C16-inline-read-panics-on-non-value" if raw else misuse)
    return None, None


DOC_BASES = [
    # (text, table-like paths, array paths, aot paths, value paths, keys per table-like path)
    (b"a = 1\nb = \"s\" # c\n[t]\nx = 1\ny = [1, 2]\n[t.u]\nz = true\n",
     ["-", "t", "t/u"], ["t/y"], [], ["a", "b", "t/x"], {"-": ["a", "b", "t"], "t": ["x", "y", "u"], "t/u": ["z"]}),
    (b"i = { p = 1, q = { r = 2 } }\nd.e.f = 1\nd.g = 2\n",
     ["-", "i", "i/q", "d", "d/e"], [], [], ["i/p", "d/g"], {"-": ["i", "d"], "i": ["p", "q"], "i/q": ["r"], "d": ["e", "g"], "d/e": ["f"]}),
    (b"[[s]]\nn = 1\n[s.sub]\nv = 1\n[[s]]\nn = 2\n[[s]]\nm = 3\n[w]\n",
     ["-", "s/#0", "s/#0/sub", "s/#1", "w"], [], ["s"], ["s/#0/n"], {"-": ["s", "w"], "s/#0": ["n", "sub"], "s/#1": ["n"], "w": []}),
    (b"m = [1, \"s\", {x = 1}, 2.5, true, \"t\", 3]\ne = []\nh = [{a = 1}, {b = 2}]\n[x.y]\n[x.z]\nk = 1\n",
     ["-", "x", "x/y", "x/z", "m/#2", "h/#0"], ["m", "e", "h"], [], ["m/#0", "x/z/k"], {"-": ["m", "e", "h", "x"], "x": ["y", "z"], "x/z": ["k"], "m/#2": ["x"], "h/#0": ["a"]}),
]
DOC_TEXTS = ["20", "2020", "2320630a", "0a", "-"]           # white space / comment texts for the formatting setters
DOC_PAY = ["i1", "i7", "T", "T1", "A", "A1", "N", "I", "I1", "Y"]
DOC_KEYTEXT = [b"k", b"\"q r\"", b"'c '", b"a.b", b"\"\""]


DOC_CALLS = ["simp", "spos", "sdot", "kpre", "kdecm", "kdec", "kfmt", "insn", "tlins", "tlins", "tleoi", "tleoi", "tlef", "oi",
             "intov", "intot", "intoa", "mkval", "afmt", "asort", "apush", "atr", "pre", "dec", "deco", "dclr", "vfmt",
             "insk", "disp", "icl", "pitem", "aotret", "aotset", "trail", "root"]
DOC_KIND_CHANGING = {"sdot", "tlins", "tleoi", "tlef", "oi", "intov", "intot", "intoa", "mkval", "pitem", "icl", "aotset", "root", "insk", "insn"}


def doc_history(rng, n_ops):
    text, tls, arrs, aots, vals, keys = rng.choice(DOC_BASES)
    ops = ["new," + text.hex()]
    fresh = ["n1", "n2"]
    # Texts with a comment / newline are legal only in front of a key/value line or a header of a STANDARD table.  What kind a node
    # has changes along a history (into_value / make_value / a converting TableLike::insert make inline tables, into_table the
    # reverse, set_dotted moves lines under another key, a parsed item replaces a value ...), so such texts are only drawn in
    # histories in which no call changes the kind or the place of any node (`calm`); everywhere else white space only.
    names = [rng.choice(DOC_CALLS) for _ in range(n_ops)]
    calm = not any(n in DOC_KIND_CHANGING for n in names)
    for r in names:
        tl = rng.choice(tls)
        k = rng.choice((keys.get(tl) or fresh) + fresh)
        anyp = rng.choice(tls + arrs + aots + vals)
        misuse = rng.random() < 0.04          # the raw flag setters where they change content (class C16-raw-flag-setters-move-content)
        plain = [t for t in tls if t != "-" and not t.split("/")[-1].startswith("#")]
        if r in ("simp", "sdot"):
            ops.append("%s,%s,%d" % (r, tl if misuse else rng.choice(plain), rng.randrange(2)))
        elif r == "spos":
            if misuse or not aots:
                ops.append("spos,%s,%d" % (tl if misuse else rng.choice(plain), rng.randrange(6)))
        elif r == "kpre":
            # a comment / newline in front of a key: only where the key starts a key/value line of a standard table
            line_key = k in [v.split("/")[-1] for v in vals] and tl in ("-", "t", "t/u", "d", "x/z", "s/#0")
            ops.append("kpre,%s,%s,%s" % (tl, k, rng.choice(DOC_TEXTS if (line_key and calm) else DOC_TEXTS[:2] + ["-"])))
        elif r == "kdecm":
            ops.append("kdecm,%s,%s,%s" % (tl, k, rng.choice(["20", "2020", "-"])))
        elif r in ("kdec", "kfmt", "insn"):
            ops.append("%s,%s,%s" % (r, tl, k))
        elif r in ("tlins", "tleoi", "tlef", "oi"):
            ops.append("%s,%s,%s,%s" % (r, tl, k, rng.choice(DOC_PAY)))
        elif r in ("intov", "intot", "intoa", "mkval", "disp", "icl", "dclr", "vfmt"):
            ops.append("%s,%s" % (r, anyp if anyp != "-" else rng.choice(vals)))
        elif r in ("afmt", "asort"):
            ops.append("%s,%s" % (r, rng.choice(arrs or ["a"])))
        elif r == "apush":
            ops.append("apush,%s,%s" % (rng.choice(arrs or ["a"]), rng.choice(["i1", "I1", "Y", "T1"])))
        elif r == "atr":
            ops.append("atr,%s,%s,%d" % (rng.choice(arrs or ["a"]), rng.choice(["20", "0a", "2320630a", "-"]), rng.randrange(2)))
        elif r == "pre":
            ops.append("pre,%s,%s" % (rng.choice(["i", "i/q", "m/#2", tl]), rng.choice(["20", "-"])))
        elif r in ("dec", "deco"):
            v = rng.choice(vals)
            std = [t for t in plain if t.split("/")[0] not in ("i", "m", "h")]
            on_table = r == "dec" and std and rng.random() < 0.3
            line_value = calm and not on_table and r == "dec" and v.split("/")[0] not in ("i", "m", "h")
            ops.append("%s,%s,%s,%s" % (r, rng.choice(std) if on_table else v, rng.choice(["20", "2020", "-"]),
                                        rng.choice(["20", "-", "2320780a"] if line_value else ["20", "-"])))
        elif r == "insk":
            ops.append("insk,%s,%s,%s%s" % (rng.choice([t for t in tls if "#" not in t or t.startswith("s")]),
                                            rng.choice(DOC_KEYTEXT).hex(), rng.choice(["i1", "T1", "I1"]), rng.choice(["", ",f"])))
        elif r == "pitem":
            ops.append("pitem,%s,%s" % (rng.choice(vals), rng.choice([b"[1, 2]", b"{x = 1}", b"\"s\"", b"1979-05-27", b"0x1f"]).hex()))
        elif r in ("aotret", "aotset"):
            a = rng.choice(aots or ["s"])
            ops.append("aotret,%s,%s" % (a, rng.choice(["n", "m"])) if r == "aotret" else "aotset,%s,%s,%s" % (a, "zz", rng.choice(["i1", "T1", "I"])))
        elif r == "trail":
            ops.append("trail," + rng.choice(["2320656e640a", "0a", "-"]))
        elif r == "root" and rng.random() < 0.3:
            ops.append("root," + rng.choice(["T1", "i1", "I1", "A1", "N"]))
    return ops


DOC_WITNESSES = [
    # TableLike::insert on an inline table: Item::Table / ArrayOfTables are converted, Item::None panics (inline_table.rs:612:
    # `value.into_value().unwrap()`), where Table's impl stores the placeholder
    (b"t = {a = 1}\n[u]\na = 1\n", "tlins,t,x,T1;tlins,t,y,A1;tlins,u,a,N;tlins,u,z,N"),
    (b"t = {a = 1}\n", "tlins,t,x,N"),
    # TableLike::entry / IndexMut + or_insert store a Table inside an inline table: InlineTable::iter panics, the printer drops it
    (b"t = {a = 1}\n", "tleoi,t,x,T1"),
    (b"t = {a = 1}\n", "oi,t,x,A1"),
    (b"t = {a = 1}\n", "tlef,t,x,N;tlef,t,y,i5"),
    # the root item replaced by something that is not a table: to_string() panics
    (b"a = 1\n", "root,i1"),
    (b"a = 1\n", "root,T1"),
    # the raw flag setters where they change what the text means
    (b"a = 1\n[t]\nx = 1\n", "sdot,-,1"),
    (b"a = 1\n[t]\nx = 1\n", "spos,-,3"),
    (b"[[s]]\nn = 1\n[[s]]\nn = 2\n", "sdot,s/#1,1"),
    (b"[[s]]\nn = 1\n[s.sub]\nv = 1\n[[s]]\nn = 2\n", "spos,s/#0/sub,4"),
    # flags, positions, key formatting
    (b"[a]\nx = 1\n[a.b]\ny = 2\n[c]\n", "simp,a,1;simp,c,1;sdot,a/b,1;spos,a,5"),
    (b"a.b.c = 1\n[t]\n", "sdot,a,0;sdot,a/b,0;simp,a,0"),
    (b"t = { a.b = 1, c = 2 }\n", "sdot,t/a,0;sdot,t,1"),
    (b"a = 1\n[t]\nb = 2\n", "kpre,-,a,2320630a;kpre,t,b,2020;kdec,-,a;kdecm,t,b,20;kdec,t,b;kfmt,t,b"),
    (b"[t]\na = 1\n", "insn,t,a;insn,t,z;tlins,t,a,i2"),
    (b"a = [1, \"s\", {x = 1}, 2.5, true, \"t\", 3]\n", "asort,a;afmt,a;atr,a,20,1;apush,a,Y"),
    (b"[t]\na = 1\n[[u]]\nx = 1\n[[u]]\ny = 2\n", "intov,t;intov,u;intoa,u;intot,t;mkval,u;disp,u;icl,t"),
    (b"[[u]]\nx = 1\n[[u]]\ny = 2\n[[u]]\nx = 3\n", "aotret,u,x;aotset,u,z,T1"),
    (b"a = 0x10 # c\n\"b\" = \"s\"\n[t]\nx = 1\n", "kfmt,-,b;vfmt,a;dec,a,2020,2320780a;dec,t,2320680a,20;disp,a;disp,t;deco,b,20,-;dclr,b"),
    (b"a = 1\n", "insk,-,2262202e2022,i5;insk,-,27632027,T1;insk,-,612e62,i1;pitem,a,5b312c20325d;trail,2320656e640a"),
]


def api_map_history(rng, kind):
    keys = ["a", "b", "c"]
    extra = [n for n in ("entf", "eoiw", "ekey", "emut", "intor", "intom", "gv", "cap", "vget", "vset", "varr", "idxmi", "fmt", "dot")
             if n in AVAIL[kind]]
    base = [n for n in ("ins", "ins", "rm", "idxm", "iter", "get", "len", "eoi", "erm") if n in AVAIL[kind]]
    ops = []
    for _ in range(rng.randrange(2, 14)):
        n = rng.choice(extra if rng.random() < 0.55 else base)
        k = rng.choice(keys)
        if n in ("ins", "eoi", "entf", "eoiw", "emut", "vset", "varr", "idxmi"):
            ops.append("%s,%s,%s" % (n, k, rand_pay(rng, kind)))
        elif n in ("iter", "len", "intor", "intom", "gv", "fmt", "dot"):
            ops.append(n)
        elif n == "cap":
            ops.append("cap,%d" % rng.randrange(5))
        else:
            ops.append("%s,%s" % (n, k))
    return ops


def api_cases(rng, quick):
    out = []
    for text, ops in DOC_WITNESSES:
        out.append(mk_api("doc", ["new," + text.hex()] + ops.split(";"), "doc-witness"))
    for _ in range(1500 if quick else 40000):
        out.append(mk_api("doc", doc_history(rng, rng.randrange(1, 6)), "doc"))
    for kind in ("table", "inline", "inline_tl", "map_sorted", "map_ordered"):
        for _ in range(250 if quick else 6000):
            out.append(mk_api(kind, api_map_history(rng, kind), "api"))
    for _ in range(600 if quick else 20000):
        ops = rand_map_history(rng, "inline_tl", KEYS3, 20)
        out.append(mk_api("table_tl", ops + rng.choice([[], ["gv"], ["fmt", "iter"], ["dot"]]), "api"))
    for kind in ("array", "aot"):
        for _ in range(40 if quick else 500):
            ops = rand_vec_history(rng, kind, 8) + ["intor"] + (["disp"] if kind == "aot" else [])
            out.append(mk_api(kind, ops, "api"))
    return out


def mk_api(kind, ops, gen):
    return Case("ops", [kind.encode(), ";".join(ops).encode()], {"kind": "%s/%s" % (kind, gen), "nt": True})


def oracle_only(case):
    kind, ops = case.args[0].decode(), case.args[1].decode()
    return kind in ("doc", "table_tl") or any(o.split(",")[0] in ORACLE_ONLY for o in ops.split(";"))


# ------------------------------------------------------------------------------------------
# generators
# ------------------------------------------------------------------------------------------
def mk_case(kind, ops, gen):
    opl = [o.split(",") for o in ops]
    keys = [o[1] for o in opl if len(o) > 1 and o[0] not in ("ret", "sortby", "ext", "from", "push", "pushf")]
    for o in opl:
        if o[0] in ("ext", "from"):
            keys += o[1::2] if kind in MAPLIKE else []
    nt = len(ops) >= 3 and len(keys) != len(set(keys))
    return Case("ops", [kind.encode(), ";".join(ops).encode()], {"kind": "%s/%s" % (kind, gen), "nt": nt})


W_TABLE = [("ins", 12), ("insf", 3), ("rm", 8), ("rme", 3), ("get", 3), ("getm", 1), ("gkv", 1), ("gkvm", 1), ("ck", 2),
           ("ct", 1), ("cv", 1), ("ca", 1), ("key", 1), ("len", 2), ("emp", 1), ("iter", 2), ("iterm", 1), ("clr", 1),
           ("ent", 2), ("eoi", 4), ("eins", 2), ("erm", 2), ("goi", 2), ("ret", 2), ("sort", 2), ("sortby", 2), ("idx", 2),
           ("iset", 4), ("ioi", 3), ("ext", 2), ("from", 1), ("into", 1), ("keys", 1), ("vals", 1)]
W_VEC = [("push", 10), ("pushf", 2), ("ins", 6), ("insf", 2), ("rep", 3), ("repf", 1), ("rm", 6), ("get", 3), ("getm", 1),
         ("len", 2), ("emp", 1), ("iter", 2), ("iterm", 1), ("clr", 1), ("ret", 2), ("sortby", 2), ("sortkey", 1), ("ext", 2),
         ("from", 1), ("into", 1), ("idx", 2), ("iget", 1), ("iset", 2)]


def rand_pay(rng, kind):
    r = rng.random()
    if r < 0.75:
        return "i%d" % rng.randrange(5)
    if kind in ("map_sorted", "map_ordered"):
        return "T"
    return "T" if r < 0.9 else "I"


def rand_map_history(rng, kind, keys, maxlen):
    names = [(n, w) for n, w in W_TABLE if n in AVAIL[kind]]
    pidx = rng.choice((0.0, 0.03, 0.1)) if kind in TABLELIKE else 0.02
    tot = float(sum(w for _, w in names))
    names = names + [("idxm", pidx * tot / (1 - pidx))] if pidx else names
    pop, wts = [n for n, _ in names], [w for _, w in names]
    ops = []
    for n in rng.choices(pop, wts, k=rng.randrange(maxlen + 1)):
        k = rng.choice(keys)
        if n in ("ins", "insf", "eoi", "eins", "goi", "iset", "ioi"):
            ops.append("%s,%s,%s" % (n, k, rand_pay(rng, kind)))
        elif n == "ret":
            ops.append("ret," + rng.choice(["kne," + k, "int", "lt,%d" % rng.randrange(5), "all", "none"]))
        elif n == "sortby":
            ops.append("sortby," + rng.choice(["kdesc", "vasc"]))
        elif n in ("ext", "from"):
            m = rng.randrange(4)
            ops.append(",".join([n] + ["%s,%s" % (rng.choice(keys), rand_pay(rng, kind)) for _ in range(m)]))
        elif n in ("len", "emp", "iter", "iterm", "keys", "vals", "clr", "sort", "into"):
            ops.append(n)
        else:
            ops.append("%s,%s" % (n, k))
    return ops


def rand_vec_history(rng, kind, maxlen):
    names = [(n, w) for n, w in W_VEC if n in AVAIL[kind]]
    pop, wts = [n for n, _ in names], [w for _, w in names]
    ref = RefVec(kind)
    ops = []
    for n in rng.choices(pop, wts, k=rng.randrange(maxlen + 1)):
        ln = len(ref.v)
        z = rng.randrange(6)
        i = rng.randrange(ln + 2) if rng.random() < 0.9 else rng.randrange(40)
        if n in ("push", "pushf"):
            op = "%s,%d" % (n, z)
        elif n in ("ins", "insf", "rep", "repf", "iset"):
            op = "%s,%d,%d" % (n, i, z)
        elif n in ("rm", "get", "getm", "idx", "iget"):
            op = "%s,%d" % (n, i)
        elif n == "ret":
            op = "ret," + rng.choice(["lt,%d" % rng.randrange(6), "odd", "all", "none"])
        elif n == "sortby":
            op = "sortby," + rng.choice(["asc", "desc", "mod3"])
        elif n in ("ext", "from"):
            op = ",".join([n] + [str(rng.randrange(6)) for _ in range(rng.randrange(4))])
        else:
            op = n
        ref.call(op.split(","))
        ops.append(op)
    return ops


# reduced call sets for the exhaustive small scope (keys a, b); the first `n` entries are used
EXH = {
    "table": ["ins,a,i1", "idxm,a", "rm,a", "ins,b,i2", "eoi,a,i3", "idxm,b", "sort", "iset,b,T", "erm,a", "ioi,a,i4",
              "rme,b", "eins,a,i5", "ret,kne,a", "sortby,vasc", "ext,b,i1,a,i0", "into"],
    "inline": ["ins,a,i1", "idxm,a", "rm,a", "ins,b,i2", "eoi,a,i3", "idxm,b", "sort", "iset,b,I", "erm,a", "ioi,a,i4",
               "goi,b,i0", "ent,a", "ret,kne,a", "sortby,vasc", "ext,b,i1,a,i0", "into"],
    "inline_tl": ["ins,a,i1", "idxm,a", "rm,a", "ins,b,i2", "eoi,a,i3", "idxm,b", "iter", "get,a", "sort", "iset,b,I",
                  "erm,a", "ioi,a,i4", "eins,b,i5", "ent,a", "clr", "getm,b"],
    "map_sorted": ["ins,b,i1", "ins,a,i2", "rm,a", "eoi,b,i3", "iset,a,i4", "rm,b", "erm,a", "ins,a,T", "eins,b,i5",
                   "ret,kne,a", "ext,b,i1,a,i0", "idxm,a", "clr", "from,b,i2,a,i1", "keys", "into"],
    "array": ["push,1", "push,0", "rm,0", "ins,1,2", "rep,0,3", "ins,0,4", "rm,1", "sortby,asc", "iset,1,5", "ret,odd",
              "sortkey", "ext,2,1", "clr", "sortby,desc", "idx,1", "into"],
    "aot": ["push,1", "push,0", "rm,0", "rm,1", "iset,0,3", "ret,odd", "ext,2,1", "clr", "from,4,5", "idx,1", "get,0",
            "iset,1,5", "into", "iter", "len", "emp"],
}
EXH["map_ordered"] = EXH["map_sorted"]

_ALL = []      # every generated case (for the lazy batches below)


# ---- long containers with ties: a sort must be STABLE (std / indexmap sorts are insertion sorts up to 20 elements,
# so an unstable variant only shows on more than 20 elements) ------------------------------------------------
def long_vec_history(rng):
    """an array of 21..80 integers over 3-4 residues mod 3 / few distinct values, all distinguishable (z = 3*j + r),
    sorted by a key with ties, then observed through iter / get / remove(i)"""
    n = rng.randrange(21, 81)
    vals = [3 * j + rng.randrange(3) for j in rng.sample(range(200), n)]
    ops = []
    if rng.random() < 0.5:
        ops.append("from," + ",".join(map(str, vals)))
    else:
        k = rng.randrange(1, n)
        ops.append("ext," + ",".join(map(str, vals[:k])))
        ops += ["push,%d" % z for z in vals[k:]]
    for _ in range(rng.choice([1, 1, 2, 3])):
        ops.append(rng.choice(["sortkey", "sortby,mod3", "sortkey", "sortby,mod3", "sortby,desc"]))
        for _ in range(rng.randrange(0, 5)):
            r = rng.random()
            i = rng.randrange(n + 1)
            if r < 0.3:
                ops.append("get,%d" % i)
            elif r < 0.55:
                ops.append("rm,%d" % i)
            elif r < 0.7:
                ops.append("ins,%d,%d" % (i, 3 * rng.randrange(200, 300) + rng.randrange(3)))
            elif r < 0.85:
                ops.append("iter")
            else:
                ops.append("idx,%d" % i)
    ops.append("iter")
    return ops


def long_map_history(rng, kind):
    """a table / inline table of 21..60 keys whose values are drawn from a few integers (ties everywhere),
    sorted by value (`sort_values_by`), possibly after a sort by key in the other direction, then observed"""
    n = rng.randrange(21, 61)
    keys = ["k%02d" % j for j in rng.sample(range(100), n)]
    pay = lambda: rng.choice(["i0", "i1", "i2", "i3", "T" if kind == "table" else "I"] if rng.random() < 0.15 else ["i0", "i1", "i2", "i3"])
    ops = []
    if rng.random() < 0.4:
        ops.append("ext," + ",".join("%s,%s" % (k, pay()) for k in keys))
    else:
        ops += ["ins,%s,%s" % (k, pay()) for k in keys]
    for _ in range(rng.choice([1, 1, 2, 3])):
        if rng.random() < 0.4:
            ops.append(rng.choice(["sort", "sortby,kdesc"]))
        ops.append("sortby,vasc")
        for _ in range(rng.randrange(0, 5)):
            r = rng.random()
            k = rng.choice(keys)
            if r < 0.3:
                ops.append("rm,%s" % k)
            elif r < 0.5:
                ops.append("ins,%s,%s" % (k, pay()))
            elif r < 0.65:
                ops.append("ins,n%02d,%s" % (rng.randrange(100), pay()))
            elif r < 0.85:
                ops.append("iter")
            else:
                ops.append("get,%s" % k)
    ops.append("iter")
    return ops


def mk_long(kind, ops):
    c = mk_case(kind, ops, "long-ties")
    c.meta["nt"] = True
    return c


def gen_cases(rng, tier):
    quick = tier == "quick"
    out = []
    # hand-written witnesses first
    for kind, ops in WITNESSES:
        out.append(mk_case(kind, ops.split(";"), "witness"))
    n_exh = 7 if quick else 14
    for kind in KINDS:
        base = EXH[kind][:n_exh]
        for ln in range(0, 5):
            for h in itertools.product(base, repeat=ln):
                out.append(mk_case(kind, list(h), "exhaustive"))
    n_rand = 1500 if quick else 100000
    for kind in KINDS:
        for _ in range(n_rand):
            if kind in MAPLIKE:
                ops = rand_map_history(rng, kind, KEYS3, 30)
            else:
                ops = rand_vec_history(rng, kind, 30)
            out.append(mk_case(kind, ops, "random"))
    n_long = 400 if quick else 8000
    for _ in range(n_long):
        out.append(mk_long("array", long_vec_history(rng)))
    for kind in ("table", "inline"):
        for _ in range(n_long * 3 // 4):
            out.append(mk_long(kind, long_map_history(rng, kind)))
    out += api_cases(rng, quick)
    del _ALL[:]
    _ALL.extend(out)
    return out


WITNESSES = [
    # F11 (repaired, commit acb0168): TableLike for InlineTable must not show the placeholder
    ("inline_tl", "idxm,a;len;emp;iter;get,a;ck,a"),
    ("inline_tl", "idxm,a;iter;iterm;get,a;getm,a;gkv,a;gkvm,a;len;emp;ck,a"),
    ("inline_tl", "idxm,a"),
    ("inline_tl", "ins,b,i1;idxm,a;idxm,c;iter;get,a;get,c;len"),
    # residue through the TableLike view
    ("inline_tl", "idxm,a;ent,a"),
    ("inline_tl", "idxm,a;key,a"),
    ("inline_tl", "idxm,a;eoi,a,i1;len"),
    ("inline_tl", "idxm,a;ins,b,i1;ins,a,i2;iter"),
    # residue: write paths on a placeholder key
    ("table", "idxm,a;ins,a,i1"),
    ("table", "idxm,a;ins,b,i1;ins,a,i2;iter"),
    ("table", "idxm,a;eoi,a,i1;len"),
    ("table", "idxm,a;rm,a"),
    ("table", "idxm,a;into"),
    ("table", "idxm,a;key,a"),
    ("inline", "idxm,a;ent,a;len"),
    ("inline", "idxm,a;goi,a,i1"),
    ("inline", "idxm,a;eoi,a,i1;iter"),
    # placeholders stay invisible to the filtered accessors
    ("table", "idxm,a;len;emp;iter;get,a;ck,a;getm,a;gkv,a;idxm,a"),
    ("inline", "idxm,a;len;emp;iter;get,a;ck,a;getm,a;gkv,a;into;rm,a"),
    ("table", "idxm,a;iset,b,i1;sort;iter;ret,all;clr"),
    ("map_sorted", "ins,c,i1;ins,a,i2;ins,b,i3;iter;rm,a;ins,a,i4;iter"),
    ("map_ordered", "ins,c,i1;ins,a,i2;ins,b,i3;iter;rm,a;ins,a,i4;iter"),
    ("array", "push,1;push,2;ins,1,3;rm,0;rep,1,4;ins,9,1;rm,9;rep,9,1"),
    ("aot", "push,1;push,2;rm,0;rm,5;iter"),
]


# ------------------------------------------------------------------------------------------
# second build (toml/preserve_order) and model classifier, in lazy batches
# ------------------------------------------------------------------------------------------
_po_cache = {}
_cls_cache = {}
BINS = {}


def _kind_ops(case):
    return case.args[0].decode(), case.args[1].decode()


def _po_line(case):
    line = case.line()
    if line not in _po_cache:
        todo = [c.line() for c in _ALL if c.args[0] == b"map_ordered"]
        if line not in todo:
            todo = [line]
        todo = [l for l in dict.fromkeys(todo) if l not in _po_cache]
        binary = BINS.get("po") or common.harness_bin("release", ("po",), "c16")
        for l, r in zip(todo, common.run_lines(binary, todo)):
            _po_cache[l] = r
    return _po_cache[line]


def _cls(case):
    kind, _ = _kind_ops(case)
    if kind not in TABLELIKE:
        return "none"
    line = "cls " + " ".join(common.hexarg(a) for a in case.args)
    if line not in _cls_cache:
        todo = ["cls " + " ".join(common.hexarg(a) for a in c.args) for c in _ALL if c.args[0].decode() in TABLELIKE]
        if line not in todo:
            todo = [line]
        todo = [l for l in dict.fromkeys(todo) if l not in _cls_cache]
        for l, r in zip(todo, common.run_lines(common.driver_bin(DRIVER_NAME), todo)):
            _cls_cache[l] = r
    return _cls_cache[line]


def extra_select(case, name):
    return case.args[0] != b"map_sorted"      # the `po` build answers `skip` for the BTreeMap configuration


def _impl(case, impl_line):
    return _po_line(case) if impl_line == "skip" else impl_line


def compare(case, model_line, impl_line):
    if oracle_only(case):
        return None               # calls the Coq model does not have: judged by the python reference alone
    il = _impl(case, impl_line)
    if model_line == il:
        return None
    return "model and implementation differ"


API_COUNTS = {}


def obligations():
    """the inventory of the public container / editing / construction API (lib/scan_api.py: pub fns and public-trait impls of the
    toml_edit node types and of toml::{Map, Table, Value}) must equal coq/Model/api_coverage.json, and every function in it must
    carry a class, a note and - where it claims coverage - the operations that call it.  A function that appears, disappears or
    changes its signature breaks the tie: the operation universes of C16 / C08 / C06 have to be revisited."""
    import scan_api
    scan_api.REPO = common.REPO
    out = [("api-inventory", d) for d in scan_api.compare()[:20]]
    out += [("api-inventory", "public function without a complete classification in coq/Model/api_coverage.json: " + scan_api.show(scan_api.key(e)))
            for e in scan_api.unclassified()[:20]]
    API_COUNTS.clear()
    API_COUNTS.update(scan_api.class_counts())
    API_COUNTS["files_scanned"] = len(scan_api.FILES)
    API_COUNTS["tie"] = "broken" if out else "holds"
    return out


def oracle(case, impl_line):
    kind, ops = _kind_ops(case)
    il = _impl(case, impl_line)
    if il.startswith(("PANIC", "CRASH", "TIMEOUT")):
        return "implementation crashed: " + il
    if kind == "doc":
        return doc_verdict(ops, il)[0]
    want = reference_line(kind, ops)
    if il == want:
        return None
    wo, wobs = want.split("|", 1)
    if "|" not in il:
        return "malformed line %r" % il
    io, iobs = il.split("|", 1)
    wl, ill = wo.split(";"), io.split(";")
    calls = [o for o in ops.split(";") if o]
    for n, (a, b) in enumerate(zip(wl, ill)):
        if a != b:
            return "%s: call %d `%s` returned %s, a plain ordered %s returns %s" % (
                kind, n + 1, calls[n] if n < len(calls) else "?", b, "map" if kind in MAPLIKE else "vector", a)
    return "%s: after the last call the container shows {%s}, a plain ordered %s shows {%s}" % (
        kind, iobs, "map" if kind in MAPLIKE else "vector", wobs)


def known_class(case, impl_line):
    """the container kinds have no known class left (C16-placeholder-residue and C16-tablelike-placeholder are repaired);
    kind `doc` (entry points outside the modelled universe) has four, decided on the implementation's own line"""
    kind, ops = _kind_ops(case)
    if kind != "doc" or impl_line.startswith(("PANIC", "CRASH", "TIMEOUT")):
        return None
    return doc_verdict(ops, impl_line)[1]


def nontrivial(case, impl_line):
    return bool(case.meta.get("nt")) or case.meta.get("kind", "").endswith("witness")


def extra_coverage(cases, impl, model):
    kinds = {}
    with_placeholder = 0
    for c in cases:
        k = c.args[0].decode()
        kinds[k] = kinds.get(k, 0) + 1
        if k in TABLELIKE and "idxm," in c.args[1].decode():
            with_placeholder += 1
    return {"histories_per_container": kinds, "histories_creating_a_placeholder": with_placeholder,
            "map_ordered_cases_run_on_preserve_order_build": len(_po_cache), "api_inventory": dict(API_COUNTS)}


def search(rng, ctx):
    return gen_cases(rng, "quick")


def shrink(case, il, why, run):
    """drop calls while the history still fails outside the known classes"""
    kind, ops = _kind_ops(case)
    cur = [o for o in ops.split(";") if o]
    cur_il, cur_why = il, why
    changed = True
    while changed and len(cur) > 1:
        changed = False
        cands = [mk_case(kind, cur[:i] + cur[i + 1:], "shrunk") for i in range(len(cur))]
        outs = run(cands)
        for c, l in zip(cands, outs):
            w = oracle(c, l)
            if w and not known_class(c, l):
                cur = [o for o in c.args[1].decode().split(";") if o]
                cur_il, cur_why = _impl(c, l), w
                changed = True
                break
    return mk_case(kind, cur, "shrunk"), cur_il, cur_why
