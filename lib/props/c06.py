"""C06 — Anything built through the API encodes to valid TOML that decodes back.

A case is a *construction script* (grammar in harness/src/bin/c06.rs): the harness runs it against
the real API (DocumentMut / Table / InlineTable / Array / ArrayOfTables / Value / Key constructors
and From impls), prints the structure, re-parses the text and dumps the re-parsed tree; the extracted
Coq model (coq/Extract/Cmd_c06.v over coq/Model/Build.v + Encode.v) builds the same tree from the
same script and prints its text.

  build <doc script>   whole documents
  val <value script>   a lone Value (Display, Value::from_str; Array / InlineTable Display too)
  key <bytes>          a lone Key (Display, Key::from_str)
  toml <kind> <value script> [key]
                       the same value script read as a toml::Value (crates/toml): kind V a lone value of any kind
                       (`Display for toml::Value`, read back through toml::de::ValueDeserializer), kind X the entry
                       `table[key]`, kind T a root table (Display of the Value, toml::to_string / to_string_pretty of the
                       Value and of the Table, `Display for toml::Table`; read back with toml::from_str / str::parse).
                       toml::Table is a BTreeMap (keys come out sorted) or, in the `po` build of the harness (feature
                       preserve_order), an IndexMap (insertion order): the oracle judges both builds, the model is
                       compared with the default one.

ORACLE (implementation line only; independent of the Coq model): the text must re-parse
(`parse=ok`), the dump of the re-parsed tree must equal the dump this module computes from the
script by itself (`expected_doc`: insertion with replace-in-place of duplicate keys; in every table
the values first, then the sub-tables / arrays of tables, each group in insertion order — that is
all a TOML document can express), printing twice / after clone must give the same text.

CORRESPONDENCE: the model's text equals the implementation's text byte for byte once the float
markers of Model/Encode.v (`<m>e<e>\\0`, the exact decimal of the shortest repr; std's float printing
is an oracle) are replaced by the positional decimal text; the model's own round trip (`rt=`: its
parser on its text, abstract trees compared — the statement of C06_document / C06_value evaluated
on this case) must be `ok`.

Known class  C06-empty-aot-dropped: an `ArrayOfTables::new()` without elements stored in a table
has no text form (no `[[k]]` header is printed): the key disappears from the printed document.
"""
import re, struct
from decimal import Decimal, ROUND_HALF_UP, getcontext

getcontext().prec = 1200

from runner import Case

PROP = "C06"
TITLE = "Anything built through the API encodes to valid TOML that decodes back"
COQ_PROPS = "Props/C06.v"
COQ_PROPS_EXTRA = ["Props/C06toml.v", "Props/C06float.v", "Props/C06wf.v"]
DRIVER_NAME = "c06"
HARNESS = {"bin": "c06"}
EXTRA_HARNESS = {"dev": ("dev", ()),      # the same scripts against a build with debug assertions and overflow checks
                 "po": ("release", ("po",))}      # toml::Table = IndexMap (insertion order): the `toml` family only
EXTRA_ORACLE = ["dev", "po"]


def extra_select(case, build):
    return build != "po" or case.cmd == "toml"
THEOREMS = []          # filled in at the end of the file
RULE = ("random finite trees (depth <= 6, fan-out <= 5) built by script through the real constructors: "
        "keys and strings with control characters, quotes, backslashes, newlines, empty / number- / date- / keyword-looking / dotted keys, any Unicode plane; "
        "i64 edges and 2^k / 10^k ladders; f64 of every class (signed zeros, infinities, NaNs of both signs, subnormal and normal edges, "
        "integral values up to 2^1023, 1-ulp neighbours, uniform bit patterns); date-times of the four shapes with field edges "
        "(year 0/9999, leap days, second 60, 1..9 fraction digits, offsets +-23:59, Z); "
        "arrays (push and collect), inline tables (insert and collect), tables holding only sub-tables, arrays of tables inside arrays of tables, "
        "mixed arrays, empty containers, duplicate keys (replace in place), values after sub-tables; lone values and keys; "
        "non-trivial = at least two nodes")
ASSUMPTIONS = [
    "strings and keys reach the API as valid UTF-8 (&str); generated that way",
    "std's `{}` on f64 is an oracle: the model prints a float without repr as the exact decimal of its shortest round-trip digits "
    "(computed here with Python's repr, an independent implementation) and the differ lays it out positionally with `.0` for integral values",
    "nesting below the parser's recursion limit (80); generated depth <= 6 (+ a ladder of deep arrays / tables up to 60)",
    "in a table, values are printed before sub-tables: key order is compared after that stable partition (a TOML document cannot say otherwise)",
    "the formatting switches (set_implicit, set_dotted, set_position, decor setters, *_formatted inserts) and Item::None are not construction",
]

I64_MIN, I64_MAX = -2 ** 63, 2 ** 63 - 1


# ------------------------------------------------------------------------------------------------
# floats: bits -> (kind, neg, m, e) with text = positional(m, e), e < 0
# ------------------------------------------------------------------------------------------------
def f64_of_bits(b):
    return struct.unpack("<d", struct.pack("<Q", b))[0]


def float_dec(bits):
    """('nan'|'inf'|'dec', neg, m, e): the decimal the TOML text of this f64 denotes."""
    neg = bits >> 63
    ex = (bits >> 52) & 0x7FF
    mant = bits & ((1 << 52) - 1)
    if ex == 0x7FF:
        return ("nan" if mant else "inf", neg, 0, 0)
    if ex == 0 and mant == 0:
        return ("dec", neg, 0, -1)
    x = abs(f64_of_bits(bits))
    short = Decimal(repr(x))
    # Python's repr breaks an exact tie between two shortest candidates to even, Rust's `{}` away from zero
    n = len(short.as_tuple().digits)
    exact = Decimal(x)
    up = exact.quantize(Decimal((0, (1,), exact.adjusted() - n + 1)), rounding=ROUND_HALF_UP)
    if up != short and float(up) == x:
        short = up
    sign, digits, exp = short.as_tuple()
    ds = "".join(map(str, digits))
    if exp >= 0:
        ip, fp = ds + "0" * exp, ""
    elif len(ds) > -exp:
        ip, fp = ds[:exp], ds[exp:]
    else:
        ip, fp = "0", "0" * (-exp - len(ds)) + ds
    ip = ip.lstrip("0") or "0"
    if fp.strip("0") == "":
        fp = ""
    if fp == "":
        fp = "0"
    return ("dec", neg, int(ip + fp), -len(fp))


def positional(neg, m, e):
    """text of FDec neg m e (e < 0): [-]ip.fp"""
    s = str(m).rjust(-e + 1, "0")
    return ("-" if neg else "") + s[:e] + "." + s[e:]


def float_text(bits):
    k, neg, m, e = float_dec(bits)
    if k == "nan":
        return "-nan" if neg else "nan"
    if k == "inf":
        return "-inf" if neg else "inf"
    return positional(neg, m, e)


MARK = re.compile(rb"(-?)(\d+)e(-?\d+)\x00")


def resolve_markers(text):
    return MARK.sub(lambda m: positional(bool(m.group(1)), int(m.group(2)), int(m.group(3))).encode(), text)


FLOAT_TOK = re.compile(rb"-?\d+\.\d+")


def same_modulo_float_ties(model_text, impl_text):
    """the two texts agree except that a float may be spelled with another shortest digit string of the
    same length denoting the same f64 (std's shortest-digits algorithm is the oracle; ties are not unique)"""
    pos = 0
    last = 0
    for m in MARK.finditer(model_text):
        lit = model_text[last:m.start()]
        if impl_text[pos:pos + len(lit)] != lit:
            return False
        pos += len(lit)
        want = positional(bool(m.group(1)), int(m.group(2)), int(m.group(3))).encode()
        t = FLOAT_TOK.match(impl_text, pos)
        if not t:
            return False
        got = t.group(0)
        if got != want and not (len(got) == len(want) and float(got) == float(want)):
            return False
        pos = t.end()
        last = m.end()
    return impl_text[pos:] == model_text[last:]


# ------------------------------------------------------------------------------------------------
# script encoding
# ------------------------------------------------------------------------------------------------
def enc_key(k):
    return struct.pack(">H", len(k)) + k


def enc_value(v):
    t = v[0]
    if t == "s":
        return b"s" + enc_key(v[1])
    if t == "i":
        return b"i" + struct.pack(">q", v[1])
    if t == "f":
        k, neg, m, e = float_dec(v[1])
        mb = m.to_bytes((m.bit_length() + 7) // 8, "big")
        return b"f" + struct.pack(">Q", v[1]) + bytes([neg, len(mb)]) + mb + struct.pack(">h", e)
    if t == "b":
        return b"b" + bytes([1 if v[1] else 0])
    if t == "d":
        date, time, off = v[1]
        flags = (1 if date else 0) | (2 if time else 0) | (4 if off == "Z" else 0) | (8 if isinstance(off, int) else 0)
        out = b"d" + bytes([flags])
        if date:
            out += struct.pack(">HBB", *date)
        if time:
            out += struct.pack(">BBBI", *time)
        if isinstance(off, int):
            out += struct.pack(">h", off)
        return out
    if t == "A":
        return b"A" + v[1].encode() + bytes([len(v[2])]) + b"".join(enc_value(e) for e in v[2])
    if t == "I":
        return b"I" + v[1].encode() + bytes([len(v[2])]) + b"".join(enc_key(k) + enc_value(e) for k, e in v[2])
    raise ValueError(t)


def enc_tbody(kvs):
    return bytes([len(kvs)]) + b"".join(enc_key(k) + enc_item(it) for k, it in kvs)


def enc_item(it):
    t = it[0]
    if t == "V":
        return b"V" + enc_value(it[1])
    if t == "T":
        return b"T" + enc_tbody(it[1])
    if t == "O":
        return b"O" + bytes([len(it[1])]) + b"".join(enc_tbody(b) for b in it[1])
    raise ValueError(t)


def enc_doc(mode, kvs):
    return mode.encode() + enc_tbody(kvs)


# ------------------------------------------------------------------------------------------------
# the reference: expected dump of the re-parsed tree (format of Extract/Show.v / harness tree.rs)
# ------------------------------------------------------------------------------------------------
def hexs(b):
    return b.hex() if b else "-"


def ordered_insert(pairs):
    """IndexMap insert semantics: a duplicate key replaces the value in place"""
    keys, vals = [], {}
    for k, v in pairs:
        if k not in vals:
            keys.append(k)
        vals[k] = v
    return [(k, vals[k]) for k in keys]


def dump_float(bits):
    k, neg, m, e = float_dec(bits)
    if k == "nan":
        return "f:-nan" if neg else "f:nan"
    if k == "inf":
        return "f:-inf" if neg else "f:inf"
    return "f:bits:%016x" % bits


def dump_dt(d):
    date, time, off = d
    ds = "%d-%d-%d" % tuple(date) if date else "none"
    ts = "%d:%d:%d.%d" % tuple(time) if time else "none"
    os_ = "none" if off is None else ("Z" if off == "Z" else "C%d" % off)
    return "dt(%s;%s;%s)" % (ds, ts, os_)


def dump_value(v):
    t = v[0]
    if t == "s":
        return "s:" + hexs(v[1])
    if t == "i":
        return "i:%d" % v[1]
    if t == "f":
        return dump_float(v[1])
    if t == "b":
        return "b:true" if v[1] else "b:false"
    if t == "d":
        return dump_dt(v[1])
    if t == "A":
        return "[" + ",".join(dump_value(e) for e in v[2]) + "]"
    if t == "I":
        return "{" + ",".join(hexs(k) + "=" + dump_value(e) for k, e in ordered_insert(v[2])) + "}"
    raise ValueError(t)


def dump_tbody(kvs, drop_empty_aot):
    kvs = ordered_insert(kvs)
    vals = [(k, it) for k, it in kvs if it[0] == "V"]
    tabs = [(k, it) for k, it in kvs if it[0] != "V"]
    parts = []
    for k, it in vals + tabs:
        if it[0] == "V":
            parts.append(hexs(k) + "=" + dump_value(it[1]))
        elif it[0] == "T":
            parts.append(hexs(k) + "=" + dump_tbody(it[1], drop_empty_aot))
        else:
            if not it[1] and drop_empty_aot:
                continue
            parts.append(hexs(k) + "=A[" + ",".join(dump_tbody(b, drop_empty_aot) for b in it[1]) + "]")
    return "T{" + ",".join(parts) + "}"


def has_empty_aot(kvs):
    for _, it in ordered_insert(kvs):
        if it[0] == "O":
            if not it[1] or any(has_empty_aot(b) for b in it[1]):
                return True
        elif it[0] == "T" and has_empty_aot(it[1]):
            return True
    return False


# ------------------------------------------------------------------------------------------------
# generators
# ------------------------------------------------------------------------------------------------
KEY_POOL = [b"a", b"b", b"c", b"key", b"x-y_z", b"", b" ", b"a.b", b"a b", b"1", b"-1", b"1.5", b"1e3", b"0x10", b"1979-05-27",
            b"07:32:00", b"true", b"false", b"inf", b"nan", b"-inf", b"+1", b"_", b"-", b"\"", b"'", b"\"'", b"\\", b"a\nb", b"\t",
            b"\r", b"\x00", b"\x7f", b"#", b"=", b"[a]", b"[[a]]", b"{a}", b"a,b", "é".encode(), "\U0001F600".encode(),
            "日本語".encode(), b"'''", b'"""', b"a=b", b"k" * 40, b"$__toml_private_datetime", b"\x1b[0m", "\u0085".encode(),
            " ".encode(), "﻿".encode()]
STR_POOL = [b"", b"a", b"hello world", b'"', b"'", b'""', b"''", b'"""', b"'''", b'a"b\'c', b"\\", b"\\n", b"a\\", b"\n", b"\n\n",
            b"a\nb", b"\r\n", b"\r", b"\t", b"\x00", b"\x01\x02", b"\x7f", b"\x08\x0c", b"\x1f", b"#not a comment", b"[x]", b"{}", b", ",
            b"1", b"true", b"1979-05-27", b"inf", "é".encode(), "\U0001F600".encode(), "퟿".encode(), "\U0010ffff".encode(),
            b'\n"""', b"'''\n", b'"\'"\'"\'', b"''''", b'""""', b"x" * 100, b"a\n'''b\"\"\"c", b"trailing space ", b" leading",
            "\u0085 ".encode(), b"\\u0041", b"\\\"", b'ends with "', b"ends with '"]
INT_POOL = [0, 1, -1, 42, -42, I64_MAX, I64_MIN, I64_MAX - 1, I64_MIN + 1, 255, 256, -128, 10 ** 18, -10 ** 18, 2 ** 62, -2 ** 62,
            2 ** 32, 2 ** 31 - 1, 999999999999999999, 1000000]
F64_POOL = [0x0000000000000000, 0x8000000000000000, 0x7ff0000000000000, 0xfff0000000000000, 0x7ff8000000000000, 0xfff8000000000000,
            0x7ff0000000000001, 0xfff0000000000001, 0x7fffffffffffffff, 0x0000000000000001, 0x8000000000000001, 0x000fffffffffffff,
            0x0010000000000000, 0x7fefffffffffffff, 0xffefffffffffffff, 0x3ff0000000000000, 0xbff0000000000000, 0x3ff0000000000001,
            0x3fefffffffffffff, 0x4340000000000000, 0x433fffffffffffff, 0x4340000000000001, 0x3fb999999999999a, 0x3fd5555555555555,
            0x400921fb54442d18, 0x4024000000000000, 0x444b1ae4d6e2ef50, 0x3e7ad7f29abcaf48, 0x7fe0000000000000, 0x0020000000000000,
            0x4059000000000000, 0x40c3880000000000, 0x3f50624dd2f1a9fc, 0x15ae43fd00000000]


def leap(y):
    return y % 4 == 0 and (y % 100 != 0 or y % 400 == 0)


class Gen:
    def __init__(self, rng, max_depth=6, fan=5):
        self.r = rng
        self.max_depth = max_depth
        self.fan = fan
        self.budget = 10 ** 9      # nodes left for the current tree (the shared parser model is super-linear in document size)

    def spend(self, n=1):
        self.budget -= n
        return self.budget > 0

    def key(self):
        r = self.r
        x = r.random()
        if x < 0.45:
            return r.choice(KEY_POOL[:5])
        if x < 0.8:
            return r.choice(KEY_POOL)
        if x < 0.9:
            return bytes(r.choice(b"abcxyz_-0129") for _ in range(r.randrange(1, 8)))
        return self.string()

    def string(self):
        r = self.r
        x = r.random()
        if x < 0.45:
            return r.choice(STR_POOL)
        if x < 0.75:
            return bytes(r.choice(b"ab \"'\\\n\r\t#=[]{}.,_-0\x00\x7f\x1b") for _ in range(r.randrange(0, 14)))
        out = []
        for _ in range(r.randrange(0, 9)):
            c = r.choice([r.randrange(0x20, 0x7f), r.randrange(0, 0x20), 0x7f, r.randrange(0x80, 0x800), r.randrange(0x800, 0xd800),
                          r.randrange(0xe000, 0x10000), r.randrange(0x10000, 0x110000), 0x22, 0x27, 0x5c, 0x0a])
            out.append(chr(c))
        return "".join(out).encode("utf-8")

    def integer(self):
        r = self.r
        x = r.random()
        if x < 0.4:
            return r.choice(INT_POOL)
        if x < 0.55:
            k = r.randrange(0, 63)
            return r.choice([1, -1]) * (2 ** k + r.choice([-1, 0, 1]))
        if x < 0.7:
            return max(I64_MIN, min(I64_MAX, r.choice([1, -1]) * (10 ** r.randrange(0, 19) + r.choice([-1, 0, 1]))))
        if x < 0.85:
            return r.randrange(-1000, 1000)
        return r.randrange(I64_MIN, I64_MAX + 1)

    def float_bits(self):
        r = self.r
        x = r.random()
        if x < 0.35:
            return r.choice(F64_POOL)
        if x < 0.5:      # 2^k with 1-ulp neighbours
            b = ((r.randrange(1, 0x7ff)) << 52) + r.choice([0, 1, (1 << 52) - 1])
            return b | (r.randrange(2) << 63)
        if x < 0.6:      # integral values
            v = float(r.choice([1, 3, 10 ** r.randrange(0, 23), r.randrange(1, 2 ** 53), 2 ** r.randrange(0, 1024)]))
            return struct.unpack("<Q", struct.pack("<d", v))[0] | (r.randrange(2) << 63)
        if x < 0.75:     # short decimals
            v = float("%de%d" % (r.randrange(1, 10 ** r.randrange(1, 8)), r.randrange(-30, 30)))
            return struct.unpack("<Q", struct.pack("<d", v))[0] | (r.randrange(2) << 63)
        if x < 0.8:      # subnormals
            return r.randrange(1, 1 << 52) | (r.randrange(2) << 63)
        return r.getrandbits(64)

    def datetime(self):
        r = self.r
        y = r.choice([0, 1, 1979, 2000, 2024, 9999, 1900, 2100, r.randrange(10000)])
        m = r.randrange(1, 13)
        mdays = [31, 29 if leap(y) else 28, 31, 30, 31, 30, 31, 31, 30, 31, 30, 31][m - 1]
        d = r.choice([1, mdays, r.randrange(1, mdays + 1)])
        if r.random() < 0.1:
            y = r.choice([2000, 2024, 1600, 4])
            m, d = 2, 29
        ns = r.choice([0, 0, 500000000, 999999999, 1, 10, 100, 123456789, 120000000, r.randrange(10 ** 9), r.randrange(1000) * 10 ** 6,
                       10 ** r.randrange(0, 9)])
        t = (r.choice([0, 23, r.randrange(24)]), r.choice([0, 59, r.randrange(60)]), r.choice([0, 59, 60, r.randrange(61)]), ns)
        off = r.choice(["Z", 0, -420, 60, 1439, -1439, -1, 1, r.randrange(-1439, 1440)])
        shape = r.randrange(4)
        if shape == 0:
            return ((y, m, d), t, off)
        if shape == 1:
            return ((y, m, d), t, None)
        if shape == 2:
            return ((y, m, d), None, None)
        return (None, t, None)

    def scalar(self):
        r = self.r
        k = r.randrange(7)
        if k <= 1:
            return ("s", self.string())
        if k == 2:
            return ("i", self.integer())
        if k == 3:
            return ("f", self.float_bits())
        if k == 4:
            return ("b", r.random() < 0.5)
        if k == 5:
            return ("d", self.datetime())
        return ("i", self.integer())

    def value(self, depth):
        r = self.r
        if depth >= self.max_depth or r.random() < 0.5 or not self.spend():
            return self.scalar()
        n = r.choice([0, 1, 1, 2, 2, 3, 4, self.fan])
        if r.random() < 0.5:
            return ("A", r.choice("pc"), [self.value(depth + 1) for _ in range(n)])
        return ("I", r.choice("ic"), self.keyed(n, lambda: self.value(depth + 1)))

    def keyed(self, n, mk):
        r = self.r
        out = []
        for _ in range(n):
            if out and r.random() < 0.04:
                k = r.choice(out)[0]          # duplicate key: replace in place
            else:
                k = self.key()
            out.append((k, mk()))
        return out

    def item(self, depth, shape):
        r = self.r
        x = r.random()
        if depth >= self.max_depth or not self.spend():
            return ("V", self.value(depth))
        p_tab = {"mixed": 0.3, "tables": 0.85, "values": 0.0, "aot": 0.6}[shape]
        if x >= p_tab:
            return ("V", self.value(depth + 1))
        if r.random() < (0.6 if shape == "aot" else 0.3):
            n = r.choice([1, 1, 2, 2, 3, 3, 4]) if r.random() < 0.9 else r.choice([0, self.fan])
            return ("O", [self.tbody(depth + 1, shape) for _ in range(n)])
        return ("T", self.tbody(depth + 1, shape))

    def tbody(self, depth, shape):
        r = self.r
        n = r.choice([0, 1, 1, 2, 2, 3, 3, 4, self.fan])
        if depth >= 3:
            n = min(n, r.choice([1, 2, 3]))
        return self.keyed(n, lambda: self.item(depth, shape))


def count_nodes_value(v):
    if v[0] == "A":
        return 1 + sum(count_nodes_value(e) for e in v[2])
    if v[0] == "I":
        return 1 + sum(count_nodes_value(e) for _, e in v[2])
    return 1


def count_nodes(kvs):
    n = 1
    for _, it in kvs:
        if it[0] == "V":
            n += count_nodes_value(it[1])
        elif it[0] == "T":
            n += count_nodes(it[1])
        else:
            n += 1 + sum(count_nodes(b) for b in it[1])
    return n



# ------------------------------------------------------------------------------------------------
# the toml::Value / toml::Table family (crates/toml: Display, to_string, to_string_pretty)
# ------------------------------------------------------------------------------------------------
NAN_POS = 0x7ff8000000000000


def tv_canon(v, po, for_got):
    """the toml::Value the script builds: a repeated key replaces the value (BTreeMap: sorted by key bytes = String's Ord;
    IndexMap under `po`: the first position is kept); for_got: a NaN loses its sign when written (serialize_f64: copysign)"""
    t = v[0]
    if t == "f" and for_got and float_dec(v[1])[0] == "nan":
        return ("f", NAN_POS)
    if t == "A":
        return ("A", "c", [tv_canon(e, po, for_got) for e in v[2]])
    if t == "I":
        es = ordered_insert([(k, tv_canon(e, po, for_got)) for k, e in v[2]])
        if not po:
            es.sort(key=lambda kv: kv[0])
        return ("I", "c", es)
    return v


def _tv_pass(v):
    """the three loops of `impl Serialize for toml::Value` over a table (Model/TomlDisplay.v c_pass1 / 2 / 3)"""
    if v[0] == "I":
        return 3
    if v[0] == "A" and any(e[0] == "I" for e in v[2]):
        return 2
    return 1


def _tv_in_order(three, ent):
    return sorted(ent, key=lambda e: _tv_pass(e[1])) if three else list(ent)      # sorted() is stable


def tv_val_order(v):
    """what an inline text reads back as, in text order (Model/TomlDisplay.v val_order)"""
    if v[0] == "A":
        return ("A", "c", [tv_val_order(e) for e in v[2]])
    if v[0] == "I":
        return ("I", "c", [(k, tv_val_order(x)) for k, x in _tv_in_order(True, v[2])])
    return v


def _tv_aot_able(l):
    return bool(l) and all(e[0] == "I" for e in l)


def _tv_is_line(v):
    return v[0] != "I" and not (v[0] == "A" and _tv_aot_able(v[2]))


def tv_tab_order(v):
    """a table written with headers: key/value lines first, then arrays of tables and sub-tables (tab_order)"""
    if v[0] == "A":
        return ("A", "c", [tv_tab_order(e) for e in v[2]]) if _tv_aot_able(v[2]) else tv_val_order(v)
    if v[0] == "I":
        return ("I", "c", tv_root_order(True, v[2]))
    return v


def tv_root_order(three, m):
    lines = [(k, x) for k, x in m if _tv_is_line(x)]
    rest = [(k, x) for k, x in m if not _tv_is_line(x)]
    return [(k, tv_tab_order(x)) for k, x in _tv_in_order(three, lines) + _tv_in_order(three, rest)]


def toml_case(kind, v, key=None, label="toml"):
    script = kind.encode() + enc_value(v) + (enc_key(key) if kind == "X" else b"")
    return Case("toml", [script], {"kind": label + "-" + kind, "nodes": count_nodes_value(v) + (1 if kind != "T" else 0)})


DT_SHAPES = [((1979, 5, 27), (7, 32, 0, 0), "Z"), ((1979, 5, 27), (0, 32, 0, 999999000), -420), ((1979, 5, 27), (7, 32, 0, 0), None),
             ((1979, 5, 27), None, None), (None, (7, 32, 0, 500000000), None), ((0, 1, 1), (0, 0, 0, 0), 0),
             ((9999, 12, 31), (23, 59, 60, 999999999), 1439), ((2000, 2, 29), (23, 59, 59, 1), -1439), (None, (23, 59, 60, 1), None)]


def toml_hand_cases():
    out = []
    leaves = ([("s", x) for x in STR_POOL] + [("i", z) for z in INT_POOL] + [("f", b) for b in F64_POOL]
              + [("b", True), ("b", False)] + [("d", d) for d in DT_SHAPES])
    for l in leaves:                                         # a lone value of every kind; the same as the entry table[k]
        out.append(toml_case("V", l, label="toml-pool"))
        out.append(toml_case("X", ("I", "i", [(b"z", ("i", 0)), (b"k", l), (b"a", ("I", "i", []))]), b"k", label="toml-pool"))
        out.append(toml_case("T", ("I", "i", [(b"v", l), (b"a", ("A", "p", [l, l])), (b"t", ("I", "i", [(b"w", l)])),
                                              (b"o", ("A", "p", [("I", "i", [(b"u", l)])]))]), label="toml-pool"))
    one = ("i", 1)
    tab = lambda es: ("I", "i", es)
    arr = lambda es: ("A", "p", es)
    roots = [
        [],
        [(b"a", one)],
        [(b"", one)],
        [(b"t", tab([]))],
        [(b"t", tab([(b"u", tab([(b"v", tab([]))]))]))],
        [(b"only", tab([(b"sub1", tab([])), (b"sub2", tab([(b"subsub", tab([]))]))]))],
        [(b"e", arr([]))],
        [(b"e", arr([arr([]), arr([arr([])])]))],
        [(b"aot", arr([tab([])]))],
        [(b"aot", arr([tab([]), tab([])]))],
        [(b"aot", arr([tab([(b"x", one)]), tab([(b"y", tab([(b"z", one)]))])]))],
        [(b"aot", arr([tab([(b"in", arr([tab([(b"c", one)]), tab([])]))]), tab([(b"in", arr([tab([])]))])]))],
        [(b"mixed", arr([one, tab([(b"a", tab([(b"b", one)]))])]))],                  # holds a table but is not an array of tables
        [(b"nest", arr([arr([tab([(b"a", one)])])]))],
        [(b"z", one), (b"t", tab([(b"y", one)])), (b"a", one)],                     # a value after a sub-table, unsorted
        [(b"t", tab([(b"y", one)])), (b"m", arr([one, tab([])])), (b"x", one), (b"o", arr([tab([])]))],
        [(b"a", one), (b"a", ("s", b"again"))],                                     # repeated key
        [(b"a", tab([])), (b"b", one), (b"a", one)],
        [(b"a.b", tab([(b"c.d", one)]))],
        [(b"$__toml_private_datetime", ("s", b"1979-05-27"))],
        [(b"t", tab([(b"$__toml_private_datetime", ("s", b"x"))]))],
        [(b"d", ("d", DT_SHAPES[0])), (b"$__toml_private_datetime", ("d", DT_SHAPES[3]))],
        [(b"f", ("f", 0x8000000000000000)), (b"g", ("f", 0xfff8000000000001)), (b"h", ("f", 0xfff0000000000000)),
         (b"i", ("i", I64_MIN)), (b"j", ("i", I64_MAX))],
    ]
    for m in roots:
        out.append(toml_case("T", tab(m), label="toml-hand"))
        for k in {k for k, _ in m}:
            out.append(toml_case("X", tab(m), k, label="toml-hand"))
    for k in KEY_POOL:
        out.append(toml_case("T", tab([(k, one), (k + b"2", tab([(k, tab([(k, one)]))])), (b"o", arr([tab([(k, ("s", k))])]))]),
                             label="toml-pool-key"))
    for depth in (1, 2, 7, 20, 40, 60):
        for how in ("A", "I", "mix"):
            out.append(toml_case("V", nest_value(depth, ("i", depth), how), label="toml-deep"))
            out.append(toml_case("T", tab([(b"r", nest_value(depth, ("i", depth), how))]), label="toml-deep"))
    return out


def toml_gen_cases(rng, g, n):
    out = []
    for _ in range(n):
        g.max_depth = rng.choice([1, 2, 3, 4, 5])
        g.budget = rng.choice([10, 30, 60])
        x = rng.random()
        if x < 0.25:
            out.append(toml_case("V", g.value(0) if rng.random() < 0.7 else g.scalar()))
            continue
        m = g.keyed(rng.choice([0, 1, 2, 3, 4, 5]), lambda: g.value(1))
        root = ("I", "i", m)
        if x < 0.4 and m:
            out.append(toml_case("X", root, rng.choice(m)[0]))
        else:
            out.append(toml_case("T", root))
    return out


def tv_edit_dump_table(three, m):
    """the document a table is written as, as toml_edit's parser reads it back (harness tree.rs show_table), in text order:
    key/value lines (values inline), then arrays of tables A[T{..},..] and sub-tables T{..} (Model/TomlDisplay.v tv_doc)"""
    lines = [(k, x) for k, x in m if _tv_is_line(x)]
    rest = [(k, x) for k, x in m if not _tv_is_line(x)]
    parts = [hexs(k) + "=" + dump_value(tv_val_order(x)) for k, x in _tv_in_order(three, lines)]
    for k, x in _tv_in_order(three, rest):
        if x[0] == "I":
            parts.append(hexs(k) + "=" + tv_edit_dump_table(True, x[2]))
        else:
            parts.append(hexs(k) + "=A[" + ",".join(tv_edit_dump_table(True, e[2]) for e in x[2]) + "]")
    return "T{" + ",".join(parts) + "}"


def toml_expected(tree, po):
    """{field: expected dump} of the observation line for this case and this kind of map"""
    kind, v, key = tree
    exp = {}
    got = tv_canon(v, po, True)
    built = tv_canon(v, po, False)
    if kind == "X":
        got = dict(got[2])[key]
        built = dict(built[2])[key]
    exp["built"] = dump_value(built)
    exp["got_vd"] = dump_value(tv_val_order(got) if po else got)
    exp["e_vd"] = dump_value(tv_val_order(got))
    if kind == "T":
        for name, three in (("e_vs", True), ("e_vp", True), ("e_td", False), ("e_tp", False)):
            exp[name] = tv_edit_dump_table(three, got[2])
        for name, three in (("got_vs", True), ("got_vp", True), ("got_td", False), ("got_tp", False)):
            exp[name] = dump_value(("I", "c", tv_root_order(three, got[2])) if po else got)
    return exp


PRIVATE_KEY = b"$__toml_private_datetime"


def _has_private_key(v):
    if v[0] == "A":
        return any(_has_private_key(e) for e in v[2])
    if v[0] == "I":
        return any(k == PRIVATE_KEY or _has_private_key(e) for k, e in v[2])
    return False


def _judge_toml(case, line, reading=True):
    f = fields(line)
    tree = decode_case(case)
    if "vd" not in f or f.get("map") not in ("bt", "po"):
        return "malformed observation line: %s" % line[:200]
    exp = toml_expected(tree, f["map"] == "po")
    for name, want in exp.items():
        got = f.get(name)
        text = name[4:] if name.startswith("got_") else name[2:] if name.startswith("e_") else None
        if name.startswith("got_") and not reading:
            continue
        shown = (b"" if f.get(text, "-") == "-" else bytes.fromhex(f[text])).decode("utf-8", "replace")[:300] if text else ""
        if got == "ERR":
            return "the text printed by %s does not parse: %r" % (TOML_ENTRY[text], shown)
        if got != want:
            if text:
                return "the text printed by %s decodes to a different tree (%s): text %r, expected %s, got %s" % (
                    TOML_ENTRY[text], "toml's reader" if name.startswith("got_") else "toml_edit's parser, text order", shown, want[:300], (got or "")[:300])
            return "the tree built from the script is not the expected one: expected %s, got %s" % (want[:300], (got or "")[:300])
    for k in ("twice", "ix", "tseq"):
        if k in f and f[k] != "ok":
            return {"twice": "printing is not a pure function of the value (printed twice / after clone)",
                    "ix": "Value[key] and Table[key] print differently",
                    "tseq": "Display for toml::Table and toml::to_string(&Table) differ"}[k]
    return None


TOML_ENTRY = {"vd": "Display for toml::Value", "vs": "toml::to_string(&Value)", "vp": "toml::to_string_pretty(&Value)",
              "td": "Display for toml::Table", "tp": "toml::to_string_pretty(&Table)"}


def _compare_toml(case, model_line, impl_line):
    mf, f = fields(model_line), fields(impl_line)
    if f.get("map") != "bt":
        return None
    names = ("vd", "vs", "td") if decode_case(case)[0] == "T" else ("vd",)
    for n in names:
        if n not in mf or n not in f:
            return "malformed line (model: %s)" % model_line[:120]
        mt = b"" if mf[n] == "-" else bytes.fromhex(mf[n])
        it = b"" if f[n] == "-" else bytes.fromhex(f[n])
        if resolve_markers(mt) != it and not same_modulo_float_ties(mt, it):
            return "the text of %s differs: model %r, implementation %r" % (TOML_ENTRY[n], resolve_markers(mt)[:200], it[:200])
        if mf.get("rt_" + n) != "ok":
            return "the model's own round trip of %s is %s" % (TOML_ENTRY[n], mf.get("rt_" + n))
    return None


TREES = {}      # case line -> python tree (the oracle recomputes from the script if missing)


def doc_case(mode, kvs, kind):
    script = enc_doc(mode, kvs)
    return Case("build", [script], {"kind": kind, "nodes": count_nodes(kvs)})


def val_case(v, kind):
    return Case("val", [enc_value(v)], {"kind": kind, "nodes": count_nodes_value(v)})


def nest_value(depth, leaf, how):
    v = leaf
    for i in range(depth):
        v = ("A", "p", [v]) if how == "A" or (how == "mix" and i % 2) else ("I", "i", [(b"k", v)])
    return v


def hand_cases():
    out = []
    one = ("V", ("i", 1))
    s = lambda x: ("V", ("s", x))
    docs = [
        [],
        [(b"a", one)],
        [(b"", one)],
        [(b"a", ("T", []))],
        [(b"a", ("T", [(b"b", ("T", [(b"c", ("T", []))]))]))],
        [(b"a", ("T", [(b"b", ("T", [(b"c", one)]))]))],
        [(b"a", ("O", []))],
        [(b"a", ("O", [[]]))],
        [(b"a", ("O", [[], []]))],
        [(b"a", ("O", [[(b"b", ("O", [[(b"c", one)], []]))], [(b"b", ("O", [[]]))]]))],
        [(b"t", ("T", [(b"x", ("O", []))])), (b"u", one)],
        [(b"x", one), (b"t", ("T", [(b"y", one)])), (b"z", one)],              # value after a sub-table
        [(b"t", ("T", [(b"y", one)])), (b"x", one)],
        [(b"a", one), (b"a", s(b"again"))],                                     # duplicate key
        [(b"a", ("T", [])), (b"a", one)],
        [(b"a", one), (b"b", ("T", [])), (b"a", ("T", [(b"q", one)]))],
        [(b"a.b", ("T", [(b"c.d", one)]))],
        [(b"1", ("T", [(b"2", ("T", [(b"3", one)]))]))],
        [(b"a", ("V", ("A", "p", [])))],
        [(b"a", ("V", ("I", "i", [])))],
        [(b"a", ("V", ("A", "p", [("A", "p", []), ("I", "i", []), ("A", "c", [("I", "c", [])])])))],
        [(b"a", ("V", ("I", "i", [(b"x", ("I", "i", [(b"y", ("A", "p", [("i", 1), ("s", b"two"), ("f", 0x4008000000000000)]))]))])))],
        [(b"a", ("V", ("f", 0x8000000000000000))), (b"b", ("V", ("f", 0xfff8000000000000))), (b"c", ("V", ("f", 0x7ff0000000000000)))],
        [(b"d", ("V", ("d", ((1979, 5, 27), (7, 32, 0, 0), "Z")))), (b"e", ("V", ("d", ((1979, 5, 27), None, None)))),
         (b"f", ("V", ("d", (None, (7, 32, 0, 500000000), None)))), (b"g", ("V", ("d", ((1979, 5, 27), (0, 32, 0, 999999000), -420))))],
        [(b"i", ("V", ("I", "i", [(b"d", ("d", ((2000, 2, 29), None, None)))])))],     # a date before ` }`
        [(b"i", ("V", ("A", "p", [("d", ((2000, 2, 29), None, None)), ("d", (None, (23, 59, 60, 1), None))])))],
        [(b"only", ("T", [(b"sub1", ("T", [])), (b"sub2", ("T", [(b"subsub", ("T", []))]))]))],
        [(b"a", ("T", [(b"x", one)])), (b"b", ("O", [[(b"x", one)], [(b"y", ("T", [(b"z", one)]))]])), (b"c", ("T", []))],
    ]
    for i, d in enumerate(docs):
        for mode in "nf":
            out.append(doc_case(mode, d, "hand"))
    # every pool key / string once, as a root key, a table name, an inline key and a string value
    for k in KEY_POOL:
        out.append(doc_case("n", [(k, one), (k + b"2", ("T", [(k, one)])), (b"i", ("V", ("I", "i", [(k, ("s", k))]))),
                                  (b"o", ("O", [[(k, one)]]))], "pool-key"))
        out.append(Case("key", [k], {"kind": "key", "nodes": 2}))
    for x in STR_POOL:
        out.append(doc_case("n", [(b"s", s(x)), (b"a", ("V", ("A", "p", [("s", x), ("s", x)])))], "pool-string"))
        out.append(val_case(("s", x), "val-pool"))
    for z in INT_POOL:
        out.append(val_case(("i", z), "val-pool"))
        out.append(val_case(("A", "p", [("i", z), ("i", z)]), "val-pool"))
    for b in F64_POOL:
        out.append(val_case(("f", b), "val-pool"))
        out.append(val_case(("I", "i", [(b"f", ("f", b)), (b"g", ("A", "c", [("f", b)]))]), "val-pool"))
    # nesting ladders (the parser's recursion limit is 80)
    for depth in (1, 2, 7, 20, 40, 60):
        for how in ("A", "I", "mix"):
            out.append(val_case(nest_value(depth, ("i", depth), how), "deep-value"))
        t = [(b"leaf", one)]
        for _ in range(depth):
            t = [(b"t", ("T", t))]
        out.append(doc_case("n", t, "deep-table"))
        t = [(b"leaf", one)]
        for _ in range(depth):
            t = [(b"o", ("O", [t]))]
        out.append(doc_case("n", t, "deep-aot"))
    return out


def gen_cases(rng, tier):
    out = hand_cases() + toml_hand_cases()
    g = Gen(rng)
    n_docs = 4000 if tier == "quick" else 60000      # the shared parser model is super-linear in document size: ~20 ms per document
    n_vals = 4000 if tier == "quick" else 100000
    n_keys = 1000 if tier == "quick" else 20000
    for i in range(n_docs):
        shape = rng.choice(["mixed", "mixed", "mixed", "tables", "values", "aot"])
        g.max_depth = rng.choice([1, 2, 3, 4, 5, 6])
        g.budget = rng.choice([10, 30, 60, 100]) if tier == "quick" else rng.choice([10, 30, 60, 100, 200, 400])
        out.append(doc_case(rng.choice("nf"), g.tbody(0, shape), "doc-" + shape))
    for i in range(n_vals):
        g.max_depth = rng.choice([0, 1, 2, 3, 4, 5, 6])
        g.budget = rng.choice([10, 30, 60, 200])
        out.append(val_case(g.value(0), "val"))
    for i in range(n_keys):
        out.append(Case("key", [g.key() if rng.random() < 0.5 else g.string()], {"kind": "key", "nodes": 2}))
    out += toml_gen_cases(rng, g, 3000 if tier == "quick" else 60000)
    return out


# ------------------------------------------------------------------------------------------------
# script decoding (for the oracle: the case carries only the script)
# ------------------------------------------------------------------------------------------------
class Rd:
    def __init__(self, b):
        self.b, self.i = b, 0

    def take(self, n):
        s = self.b[self.i:self.i + n]
        self.i += n
        return s

    def u8(self):
        return self.take(1)[0]

    def key(self):
        n = struct.unpack(">H", self.take(2))[0]
        return self.take(n)


def rd_value(r):
    t = chr(r.u8())
    if t == "s":
        return ("s", r.key())
    if t == "i":
        return ("i", struct.unpack(">q", r.take(8))[0])
    if t == "f":
        bits = struct.unpack(">Q", r.take(8))[0]
        r.u8()
        r.take(r.u8())
        r.take(2)
        return ("f", bits)
    if t == "b":
        return ("b", r.u8() != 0)
    if t == "d":
        flags = r.u8()
        date = struct.unpack(">HBB", r.take(4)) if flags & 1 else None
        time = struct.unpack(">BBBI", r.take(7)) if flags & 2 else None
        off = "Z" if flags & 4 else (struct.unpack(">h", r.take(2))[0] if flags & 8 else None)
        return ("d", (date, time, off))
    if t == "A":
        mode = chr(r.u8())
        n = r.u8()
        return ("A", mode, [rd_value(r) for _ in range(n)])
    if t == "I":
        mode = chr(r.u8())
        n = r.u8()
        out = []
        for _ in range(n):
            k = r.key()
            out.append((k, rd_value(r)))
        return ("I", mode, out)
    raise ValueError(t)


def rd_tbody(r):
    n = r.u8()
    out = []
    for _ in range(n):
        k = r.key()
        out.append((k, rd_item(r)))
    return out


def rd_item(r):
    t = chr(r.u8())
    if t == "V":
        return ("V", rd_value(r))
    if t == "T":
        return ("T", rd_tbody(r))
    if t == "O":
        n = r.u8()
        return ("O", [rd_tbody(r) for _ in range(n)])
    raise ValueError(t)


def decode_case(case):
    r = Rd(case.args[0])
    if case.cmd == "build":
        mode = chr(r.u8())
        return (mode, rd_tbody(r))
    if case.cmd == "val":
        return rd_value(r)
    if case.cmd == "toml":
        kind = chr(r.u8())
        v = rd_value(r)
        return (kind, v, r.key() if kind == "X" else None)
    return case.args[0]


# ------------------------------------------------------------------------------------------------
# oracle / compare
# ------------------------------------------------------------------------------------------------
def fields(line):
    out = {}
    for part in line.split(" "):
        k, _, v = part.partition("=")
        out[k] = v
    return out


def _text(f):
    t = f.get("t", "-")
    return b"" if t == "-" else bytes.fromhex(t)


def _judge(case, line, drop_empty_aot):
    if case.cmd == "toml":
        return _judge_toml(case, line)
    f = fields(line)
    if "t" not in f or "parse" not in f:
        return "malformed observation line: %s" % line[:200]
    shown = _text(f).decode("utf-8", "replace")[:300]
    if f["parse"] != "ok":
        return "printed text does not parse: %r" % shown
    tree = decode_case(case)
    if case.cmd == "build":
        want = dump_tbody(tree[1], drop_empty_aot)
    elif case.cmd == "val":
        want = dump_value(tree)
    else:
        want = hexs(tree)
    if f.get("got") != want:
        return "decodes to a different tree: text %r, expected %s, got %s" % (shown, want[:300], f.get("got", "")[:300])
    for k in ("twice", "clone", "own"):
        if k in f and f[k] != "ok":
            return "printing is not a pure function of the structure (%s): %r" % (k, shown)
    return None


def oracle(case, line):
    return _judge(case, line, False)


def known_class(case, line):
    if case.cmd == "toml" and line is not None and not line.startswith(("PANIC", "CRASH")):
        # F14 (in-band signalling, known class private-datetime-key of C07 / C13): a table whose first key spells
        # toml_datetime's private field name is taken for a date-time when the text is READ; writing is not affected
        if _has_private_key(decode_case(case)[1]) and _judge_toml(case, line, reading=False) is None:
            return "private-datetime-key"
        return None
    if case.cmd != "build" or line is None or line.startswith(("PANIC", "CRASH")):
        return None
    tree = decode_case(case)
    if has_empty_aot(tree[1]) and _judge(case, line, True) is None:
        return "C06-empty-aot-dropped"
    return None


def compare(case, model_line, impl_line):
    if model_line is None or impl_line is None:
        return "missing line"
    if case.cmd == "toml":
        return _compare_toml(case, model_line, impl_line)
    mf, f = fields(model_line), fields(impl_line)
    if "t" not in mf or "t" not in f:
        return "malformed line (model: %s)" % model_line[:120]
    if resolve_markers(_text(mf)) != _text(f) and not same_modulo_float_ties(_text(mf), _text(f)):
        return "printed text differs"
    if mf.get("rt") != "ok":
        return "the model's own round trip is %s" % mf.get("rt")
    return None


def nontrivial(case, line):
    return case.meta.get("nodes", 2) >= 2


def _features(kvs, acc, depth=1):
    seen_table = False
    keys = set()
    for k, it in kvs:
        if k in keys:
            acc["duplicate_key"] = 1
        keys.add(k)
        if it[0] == "V":
            if seen_table:
                acc["value_after_table"] = 1
            _vfeatures(it[1], acc)
        elif it[0] == "T":
            seen_table = True
            acc["tables"] = acc.get("tables", 0) + 1
            if it[1] and all(x[1][0] != "V" for x in it[1]):
                acc["table_of_tables_only"] = 1
            _features(it[1], acc, depth + 1)
        else:
            seen_table = True
            acc["aot"] = 1
            if not it[1]:
                acc["empty_aot"] = 1
            for b in it[1]:
                if any(x[1][0] == "O" for x in b):
                    acc["aot_in_aot"] = 1
                _features(b, acc, depth + 1)
    acc["depth"] = max(acc.get("depth", 0), depth)


def _vfeatures(v, acc):
    t = v[0]
    if t == "f":
        acc["float"] = 1
    elif t == "d":
        acc["datetime"] = 1
    elif t == "A":
        acc["array"] = 1
        if len({e[0] for e in v[2]}) > 1:
            acc["mixed_array"] = 1
        if not v[2]:
            acc["empty_array"] = 1
        for e in v[2]:
            _vfeatures(e, acc)
    elif t == "I":
        acc["inline"] = 1
        if not v[2]:
            acc["empty_inline"] = 1
        for _, e in v[2]:
            _vfeatures(e, acc)


def extra_coverage(cases, impl, model):
    kinds = {"documents": 0, "values": 0, "keys": 0, "toml_lone_values": 0, "toml_indexed_entries": 0, "toml_root_tables": 0,
             "max_text_bytes": 0, "max_depth": 0}
    feats = {}
    for c, l in zip(cases, impl):
        if c.cmd == "toml":
            tk, tv, _ = decode_case(c)
            kinds[{"V": "toml_lone_values", "X": "toml_indexed_entries", "T": "toml_root_tables"}[tk]] += 1
            acc = {}
            _vfeatures(tv, acc)
            for k in acc:
                feats["toml_" + k] = feats.get("toml_" + k, 0) + 1
            continue
        kinds["documents" if c.cmd == "build" else "values" if c.cmd == "val" else "keys"] += 1
        if l and not l.startswith(("PANIC", "CRASH")):
            kinds["max_text_bytes"] = max(kinds["max_text_bytes"], len(_text(fields(l))))
        acc = {}
        if c.cmd == "build":
            _features(decode_case(c)[1], acc)
        elif c.cmd == "val":
            _vfeatures(decode_case(c), acc)
        kinds["max_depth"] = max(kinds["max_depth"], acc.pop("depth", 0))
        acc.pop("tables", None)
        for k in acc:
            feats[k] = feats.get(k, 0) + 1
    kinds["cases_with"] = feats
    return {"c06": kinds}


def search(rng, ctx):
    pre = [c for c, il, ml, d in ctx["divergences"][:50]]
    return pre + gen_cases(rng, "quick")


THEOREMS = [
    "C06_value: BuiltValue scalar_ok key_ok v -> value_depth v < LIMIT -> top_plain v -> parse_value_raw (display_value (render_value float_text v)) = POk v' /\\ abs_value v' = abs_value v  (arrays / inline tables nested to any depth below the recursion limit; leaves: UTF-8 strings, i64, nan/inf/decimals below the overflow threshold, in-range date-times)",
    "C06_key: utf8 k -> parse_key (key_display_repr (key_new k)) = POk (_, k)",
    "C06_document: BuiltTbl scalar_ok key_ok t -> tbl_hdepth t < LIMIT -> tbl_vdepth t < LIMIT -> parse_document (display_document (render_tbl float_text t)) = POk d /\\ abs_tbl (doc_root d) = printed_entries (abs_tbl t)  (values before sub-tables in every table, empty arrays of tables dropped: all a TOML document can say)",
    "C06_built_value / C06_built_document: everything the construction terms (Value::from, Array::new+push / collect, InlineTable::new+insert / collect, Table::new+insert, ArrayOfTables::new+push, DocumentMut::new / from(Table)) evaluate to is inside Built",
    "C06_value_constructed / C06_document_constructed: the two round trips stated on the construction terms themselves",
    "C06_text: the printer's text of a constructed value is the structural text `txt` between its decor (no fuel; printing is a function of the tree: purity holds by construction in Gallina - there is no theorem to state - and is checked on the implementation by printing twice and printing a clone)",
    "C06_toml_display / C06_toml_value_built (Props/C06toml.v): the trees toml's serializers hand to the printer for Display of toml::Value / toml::Table and toml::to_string are inside Built; the text parses back to the value, maps in printed order, NaN without its sign — tied to the implementation by the `toml` command (lone values of every kind, table[k], root tables; BTreeMap and IndexMap builds; toml's reader and toml_edit's parser on every text; model text byte for byte for Display and to_string)",
    "Built_WF / C06_constructed_WF / C06_constructed_print_parse / C06_constructed_both (Props/C06wf.v, proofs by eng-c14 in Proofs/WFBuilt.v): a constructed document without an empty array of tables is well-formed (Spec/WF.v), its text is accepted and decodes to Display's data WITH table kinds; on the same premises C06_document's conclusion holds of the same parsed document",
    "Examples: nesting 79 is read back and 80 refused (values and header paths); a value taken out of an array keeps its blank and does not parse alone; nasty document with value after sub-table, repeated key, empty array of tables",
]
