"""C04 — No input makes the library panic, abort or hang.

`fuzz` runs every entry point (document, value, key, key path, standalone date-time, serde from text
and from bytes) on the same bytes and then prints / debug-prints / clones / drops / re-stringifies /
deserialises what was returned, or renders the error — in a release build and in a build with debug
assertions and overflow checks.  "What was returned" is walked node by node (harness/src/fuzz.rs walk_nodes /
walk_value / walk_toml): Display, Debug, Clone and the read accessors of every Item, Table, ArrayOfTables, Value,
Array, InlineTable, Key and Formatted scalar of both the owned document (DocumentMut) and the span-keeping one
(ImDocument, no into_mut), the Visit / VisitMut traversals, ValueDeserializer on every value, and for toml::Value
Display / Debug / try_into / try_from / to_string / to_string_pretty of every sub-value.  Oracle (implementation only): never `PANIC`, never a crashed process,
never over the linear time budget.  The verdicts are compared with the extracted model's.
"""
from runner import Case
import gen_toml as G
import c01

PROP = "C04"
COQ_PROPS = "Props/C04.v"
COQ_PROPS_EXTRA = ["Props/C04std.v"]
HARNESS = {"bin": "core"}
EXTRA_HARNESS = {"dev": ("dev", ())}
EXTRA_ORACLE = ["dev"]
THEOREMS = ["Props/C04.v: no byte string reaches a panic site of the model through parse_document / parse_value_raw / parse_key / parse_key_path; every loop ends within fuel S(length input); state-machine invariant; error offsets in range; rendering total",
            "Props/C04std.v: the standalone toml_datetime parser and printer on a checked transcription (every u8 / u16 / u32 / i16 operation explicit) never panic (names in coverage.theorem_names)"]
RULE = ("malformed byte stream (invalid UTF-8, truncated sequences, NUL/control bytes, unterminated constructs, extreme numbers "
        "and dates) + valid documents, their mutations and truncations + the toml-test corpus; non-trivial = input of >= 4 bytes")
ASSUMPTIONS = ["wall-clock time is measured against a generous linear budget, not proved; the model proves linear fuel only",
               "memory safety is reduced to: no panic, no abort, `unsafe` preconditions (UTF-8 validity) hold in the model"]

NASTY = [b"", b"\x00", b"\xff", b"\xc3", b"\xe2\x82", b"\xf0\x9f\x98", b"\xed\xa0\x80", b"\xf4\x90\x80\x80", b"\xc0\xaf", b"\xef\xbb\xbf",
         b"\xef\xbb", b"a = \"", b"a = '", b"a = \"\"\"", b"a = '''", b"a = [", b"a = {", b"[", b"[[", b"[a", b"[[a]", b"a.", b"a =", b"=",
         b"a = \"\\", b"a = \"\\u", b"a = \"\\u12", b"a = \"\\U0010FFFF\"", b"a = \"\\UFFFFFFFF\"", b"a = 1e", b"a = 1e99999999999999999999",
         b"a = " + b"9" * 400, b"a = 0x" + b"f" * 100, b"a = -" + b"9" * 100 + b"." + b"9" * 100, b"a = 0." + b"0" * 400 + b"1",
         b"a = 9999-99-99", b"a = 0000-00-00", b"a = 1979-05-27T", b"a = 1979-05-27T07", b"a = 1979-05-27T07:32:00.", b"a = 07:32:00+",
         b"a = 1979-05-27T07:32:00." + b"9" * 50 + b"Z", b"a = 99:99:99", b"a = 1979-02-30", b"a = +", b"a = -", b"a = _", b"a = .",
         b"a = 0x", b"a = 0b", b"a = 0o", b"a = inf" + b"f" * 10, b"a = nan_", b"\r", b"\r\r\n", b"a = 1\r", b"# c\r", b"a = [\r]",
         b"a = {b = 1,}", b"a = {b = 1\n}", b"a = [1,,2]", b"a = [,]", b"\"\" = 1", b"'' = 1", b"\"\".'' = 1", b". = 1", b"a..b = 1",
         b"a = 1 b = 2", b"[a]]", b"[[a]", b"[a.]", b"[.a]", b"[]", b"[[]]", b"a = \"\"\"\"\"\"\"\"\"", b"a = '''''''''", b"a = \"\"\"\\",
         b"a = \"\"\"\\ x\"\"\"", b"\x7f = 1", b"a\x00b = 1", b"a = \x00", b"#\x00", b"a = \"\x1f\"", b"a = '\x7f'", b"24:00:00", b"1979-05-27",
         b"1979-05-27T07:32:00+24:00", b"12:34", b"1:2:3", b"\xe2\x80\xa8 = 1", b"a = \xe2\x80\xa8",
         b"a = \'\'\'" + b'"' * 300 + b"\'\'\'", b'a = "' + b"'" * 300 + b'"', b"a = '" + b'"' * 256 + b"'", b'"' + b"'" * 256 + b'" = 1']


def gen_cases(rng, tier):
    out = []

    def add(b, kind):
        out.append(Case("fuzz", [b], {"kind": kind}))
    for b in NASTY:
        add(b, "nasty")
        add(b + b"\n", "nasty")
        add(b"x = 1\n" + b, "nasty")
    # the serde tunnel of date-times is in-band: a table whose key spells the private field name is handed to
    # `Datetime::from_str` by the Datetime / Date / Time targets and by toml::Value — with ANY string as its value; and the
    # standalone parser's own results are fed back through `Value::Datetime(..).try_into::<Date | Time | Datetime>()`
    PRIV = b'"$__toml_private_datetime"'
    DT_STRINGS = [b"07:32:00Z", b"07:32:00+01:00", b"07:32:00-00:00", b"07:32:00z", b"1979-05-27", b"1979-05-27T07:32:00", b"1979-05-27 07:32:00Z",
                  b"1979-05-27T07:32:00.999999999999+23:59", b"1979-05-27Z", b"1979-05-27+01:00", b"T07:32:00", b"07:32", b"", b" ", b"x", b"24:00:00",
                  b"1979-13-01", b"0000-01-01T00:00:60Z", b"9999-12-31T23:59:60.999999999-23:59", b"07:32:00.", b"07:32:00.1Z"]
    for d in DT_STRINGS:
        add(d, "datetime-string")
        q = b'"' + d + b'"'
        for doc in (b"t = { " + PRIV + b" = " + q + b" }\n", b"[t]\n" + PRIV + b" = " + q + b"\n", PRIV + b" = " + q + b"\n",
                    b"t = [{ " + PRIV + b" = " + q + b" }]\n", b"t = { " + PRIV + b" = " + q + b", x = 1 }\n", b"t = { " + PRIV + b" = 1 }\n",
                    b"t = { " + PRIV + b" = [" + q + b"] }\n"):
            add(doc, "datetime-tunnel")
    for doc in (b"t = {}\n", b"[t]\n", b"t = [{}]\n", b"[[t]]\n", b"# only a comment\n", b"t = { x = 1 }\n"):
        add(doc, "datetime-tunnel")
    n_rand = 6000 if tier == "quick" else 600000
    for _ in range(n_rand):
        n = rng.choice([1, 2, 3, 5, 8, 16, 40, 100])
        x = rng.random()
        if x < 0.3:
            b = bytes(rng.randrange(256) for _ in range(n))
        elif x < 0.7:
            b = bytes(rng.choice(b" \t\n\r\"'\\#=.[]{},_-+:0123456789aeEtTzZxobinftrue\x00\x7f\xc3\xa9\xff") for _ in range(n))
        else:
            b = b"".join(rng.choice(G.TOKENS) for _ in range(n // 2 + 1))
        add(b, "random")
    # valid documents, mutations, truncations
    n_docs = 1500 if tier == "quick" else 60000
    docs = []
    for _ in range(n_docs):
        tg = G.TreeGen(rng, small_keys=rng.random() < 0.3)
        st = tg.statements(tg.tree())
        if rng.random() < 0.3:
            st = tg.perturb(st)
        t = G.Renderer(rng).document(st)
        docs.append(t)
        add(t, "document")
    pool = docs + [d for _n, d in c01.corpus_files()]
    for _n, d in c01.corpus_files():
        add(d, "corpus")
    n_mut = 12000 if tier == "quick" else 1500000
    for _ in range(n_mut):
        add(G.mutate(rng, rng.choice(pool), rng.choice([1, 1, 2, 3, 5])), "mutation")
    for base in pool[: (20 if tier == "quick" else 400)]:
        for i in range(len(base)):
            add(base[:i], "truncation")
    # single tokens through the value/key/date-time entry points
    for _ in range(3000 if tier == "quick" else 100000):
        tg = G.TreeGen(rng)
        rn = G.Renderer(rng)
        t = rn.value(tg.value())
        add(t, "value")
        add(G.mutate(rng, t, 1), "value-mutation")
        add(rn.key(tg.key()), "key")
        add(rn.key_path([tg.key() for _ in range(rng.randrange(1, 4))]), "key-path")
    return out


SITE_COUNTS = {}


def obligations():
    """the panic / unsafe site inventory of the anchored files (parser, printer, node types, deserializers, serializers,
    toml front end, toml_write, serde_spanned, toml_datetime: lib/scan_sites.py FILES) must equal coq/Model/sites.json, and
    every site in it must carry one of the four classes and a reason (DESIGN.md 5.2).  The counts per class go into
    the evidence (`site_inventory`)."""
    import scan_sites
    scan_sites.REPO = __import__("common").REPO
    out = [("site-inventory", d) for d in scan_sites.compare()[:20]]
    out += [("site-inventory", "site without a class / reason in coq/Model/sites.json: %s:%s [%s] %s" % scan_sites.key(e))
            for e in scan_sites.unclassified()[:20]]
    SITE_COUNTS.clear()
    SITE_COUNTS.update(scan_sites.class_counts())
    SITE_COUNTS["files_scanned"] = len(scan_sites.FILES)
    SITE_COUNTS["tie"] = "broken" if out else "holds"
    return out


def oracle(case, line):
    if "SLOW=" in line:
        return "over the time budget: %s" % line.split("SLOW=")[1]
    if "PANIC" in line:
        return "panic: %s" % line[:200]
    return None


PRIVATE_NAMES = (b"$__toml_private_datetime", b"$__toml_private_Datetime", b"$__serde_spanned_private_")


def compare(case, model_line, impl_line):
    il = impl_line.split(" SLOW=")[0]
    if model_line == il:
        return None
    if any(p in case.args[0] for p in PRIVATE_NAMES):
        # F14 (known finding private-datetime-key, registered under C01 / C07 / C13 / C14): the serde front ends take a table whose
        # key spells the private name for a date-time; the `fuzz` line of the model does not follow that in-band signalling, so only
        # the verdicts of toml_edit's own entry points are compared on such inputs (the panic / time oracle is unaffected)
        own = lambda l: " ".join(x for x in l.split(" ") if x.split("=")[0] in ("utf8", "doc", "val", "key", "kp", "dt"))
        return None if own(model_line) == own(il) else "entry-point verdicts differ"
    return "entry-point verdicts differ"


def nontrivial(case, line):
    return len(case.args[0]) >= 4


def extra_coverage(cases, impl, model):
    import collections
    c = collections.Counter()
    for l in impl:
        if l and l.startswith("utf8="):
            c["utf8=" + l.split(" ")[0][5:]] += 1
            for part in l.split(" ")[1:]:
                if part.startswith("doc="):
                    c[part] += 1
    return {"input_split": dict(c), "site_inventory": dict(SITE_COUNTS)}


def search(rng, ctx):
    return gen_cases(rng, "quick")
