"""C04 — No input makes the library panic, abort or hang.

`fuzz` runs every entry point (document, value, key, key path, standalone date-time, serde from text
and from bytes) on the same bytes and then prints / debug-prints / clones / drops / re-stringifies /
deserialises what was returned, or renders the error — in a release build and in a build with debug
assertions and overflow checks.  Oracle (implementation only): never `PANIC`, never a crashed process,
never over the linear time budget.  The verdicts are compared with the extracted model's.
"""
from runner import Case
import gen_toml as G
import c01

PROP = "C04"
COQ_PROPS = "Props/C04.v"
COQ_PROPS_EXTRA = ["Props/C04std.v"]
HARNESS = {"bin": "core"}
EXTRA_HARNESS = {"dev": ("dev", ())}
EXTRA_ORACLE = ["dev"]
THEOREMS = ["see Props/C04.v"]
RULE = ("malformed byte stream (invalid UTF-8, truncated sequences, NUL/control bytes, unterminated constructs, extreme numbers "
        "and dates) + valid documents, their mutations and truncations + the toml-test corpus; non-trivial = input of >= 4 bytes")
ASSUMPTIONS = ["wall-clock time is measured against a generous linear budget, not proved; the model proves linear fuel only",
               "memory safety is reduced to: no panic, no abort, `unsafe` preconditions (UTF-8 validity) hold in the model"]

NASTY = [b"", b"\x00", b"\xff", b"\xc3", b"\xe2\x82", b"\xf0\x9f\x98", b"\xed\xa0\x80", b"\xf4\x90\x80\x80", b"\xc0\xaf", b"\xef\xbb\xbf",
         b"\xef\xbb", b"a = \"", b"a = '", b"a = \"\"\"", b"a = '''", b"a = [", b"a = {", b"[", b"[[", b"[a", b"[[a]", b"a.", b"a =", b"=",
         b"a = \"\\", b"a = \"\\u", b"a = \"\\u12", b"a = \"\\U0010FFFF\"", b"a = \"\\UFFFFFFFF\"", b"a = 1e", b"a = 1e99999999999999999999",
         b"a = " + b"9" * 400, b"a = 0x" + b"f" * 100, b"a = -" + b"9" * 100 + b"." + b"9" * 100, b"a = 0." + b"0" * 400 + b"1",
         b"a = 9999-99-99", b"a = 0000-00-00", b"a = 1979-05-27T", b"a = 1979-05-27T07", b"a = 1979-05-27T07:32:00.", b"a = 07:32:00+",
         b"a = 1979-05-27T07:32:00." + b"9" * 50 + b"Z", b"a = 99:99:99", b"a = 1979-02-30", b"a = +", b"a = -", b"a = _", b"a = .",
         b"a = 0x", b"a = 0b", b"a = 0o", b"a = inf" + b"f" * 10, b"a = nan_", b"\r", b"\r\r\n", b"a = 1\r", b"# c\r", b"a = [\r]",
         b"a = {b = 1,}", b"a = {b = 1\n}", b"a = [1,,2]", b"a = [,]", b"\"\" = 1", b"'' = 1", b"\"\".'' = 1", b". = 1", b"a..b = 1",
         b"a = 1 b = 2", b"[a]]", b"[[a]", b"[a.]", b"[.a]", b"[]", b"[[]]", b"a = \"\"\"\"\"\"\"\"\"", b"a = '''''''''", b"a = \"\"\"\\",
         b"a = \"\"\"\\ x\"\"\"", b"\x7f = 1", b"a\x00b = 1", b"a = \x00", b"#\x00", b"a = \"\x1f\"", b"a = '\x7f'", b"24:00:00", b"1979-05-27",
         b"1979-05-27T07:32:00+24:00", b"12:34", b"1:2:3", b"\xe2\x80\xa8 = 1", b"a = \xe2\x80\xa8",
         b"a = \'\'\'" + b'"' * 300 + b"\'\'\'", b'a = "' + b"'" * 300 + b'"', b"a = '" + b'"' * 256 + b"'", b'"' + b"'" * 256 + b'" = 1']


def gen_cases(rng, tier):
    out = []

    def add(b, kind):
        out.append(Case("fuzz", [b], {"kind": kind}))
    for b in NASTY:
        add(b, "nasty")
        add(b + b"\n", "nasty")
        add(b"x = 1\n" + b, "nasty")
    n_rand = 6000 if tier == "quick" else 600000
    for _ in range(n_rand):
        n = rng.choice([1, 2, 3, 5, 8, 16, 40, 100])
        x = rng.random()
        if x < 0.3:
            b = bytes(rng.randrange(256) for _ in range(n))
        elif x < 0.7:
            b = bytes(rng.choice(b" \t\n\r\"'\\#=.[]{},_-+:0123456789aeEtTzZxobinftrue\x00\x7f\xc3\xa9\xff") for _ in range(n))
        else:
            b = b"".join(rng.choice(G.TOKENS) for _ in range(n // 2 + 1))
        add(b, "random")
    # valid documents, mutations, truncations
    n_docs = 1500 if tier == "quick" else 60000
    docs = []
    for _ in range(n_docs):
        tg = G.TreeGen(rng, small_keys=rng.random() < 0.3)
        st = tg.statements(tg.tree())
        if rng.random() < 0.3:
            st = tg.perturb(st)
        t = G.Renderer(rng).document(st)
        docs.append(t)
        add(t, "document")
    pool = docs + [d for _n, d in c01.corpus_files()]
    for _n, d in c01.corpus_files():
        add(d, "corpus")
    n_mut = 12000 if tier == "quick" else 1500000
    for _ in range(n_mut):
        add(G.mutate(rng, rng.choice(pool), rng.choice([1, 1, 2, 3, 5])), "mutation")
    for base in pool[: (20 if tier == "quick" else 400)]:
        for i in range(len(base)):
            add(base[:i], "truncation")
    # single tokens through the value/key/date-time entry points
    for _ in range(3000 if tier == "quick" else 100000):
        tg = G.TreeGen(rng)
        rn = G.Renderer(rng)
        t = rn.value(tg.value())
        add(t, "value")
        add(G.mutate(rng, t, 1), "value-mutation")
        add(rn.key(tg.key()), "key")
        add(rn.key_path([tg.key() for _ in range(rng.randrange(1, 4))]), "key-path")
    return out


def obligations():
    """the panic / unsafe site inventory of the anchored files must equal coq/Model/sites.json (DESIGN.md 5.2)"""
    import scan_sites
    scan_sites.REPO = __import__("common").REPO
    return [("site-inventory", d) for d in scan_sites.compare()[:20]]


def oracle(case, line):
    if "SLOW=" in line:
        return "over the time budget: %s" % line.split("SLOW=")[1]
    if "PANIC" in line:
        return "panic: %s" % line[:200]
    return None


def compare(case, model_line, impl_line):
    il = impl_line.split(" SLOW=")[0]
    return None if model_line == il else "entry-point verdicts differ"


def nontrivial(case, line):
    return len(case.args[0]) >= 4


def extra_coverage(cases, impl, model):
    import collections
    c = collections.Counter()
    for l in impl:
        if l and l.startswith("utf8="):
            c["utf8=" + l.split(" ")[0][5:]] += 1
            for part in l.split(" ")[1:]:
                if part.startswith("doc="):
                    c[part] += 1
    return {"input_split": dict(c)}


def search(rng, ctx):
    return gen_cases(rng, "quick")
