"""C08 — Edits change exactly what was asked and keep everything else verbatim.

A case is `edit <document> <ops>`: a valid document (lib/gen_toml.py: random tree, random layout,
comments / whitespace in every decor slot) and a list of structural edits on paths into it.  The
harness (harness/src/bin/c08.rs) parses the document as `DocumentMut`, applies each edit with the real
API and prints after EVERY step the text, the verdict of re-parsing it, the canonical dump of the
re-parsed tree and the own formatting ("fragment") of every entry of the re-parsed tree; the driver
(coq/Extract/Cmd_c08.v, Model/Edit.v) prints the first four of these from the Coq model.

Operations (fields joined by `,`, operations by `;`; P = r/k<hex key>/i<index>..., K = k<hex>):
  ins,P,K,V   Table::insert(k, value(v)) / InlineTable::insert         rm,P,K     Table/InlineTable::remove
  instab,P,K  Table::insert(k, Item::Table(Table::new()))              insaot,P,K Table::insert(k, aot of one Table::new())
  push,P,V  ains,P,I,V  arep,P,I,V  arm,P,I    Array::push / insert / replace / remove
  tpush,P   trm,P,I                            ArrayOfTables::push(Table::new()) / remove
  sort,P    Table/InlineTable::sort_values     fmt,P   Table/InlineTable/Array::fmt
  sortby,P,C  Table/InlineTable::sort_values_by with the closure C = kdesc (keys descending) | rank (placeholders, then
              everything that is not an integer - all tied -, then integers by value; ties pin the stability of the sort)
  mkval,P,K Item::make_value   intotab,P,K Item::into_table   intoaot,P,K Item::into_array_of_tables (stored back in the slot)
  iset,P,X  doc[k1][k2]... = X  (IndexMut with auto-vivification; X = V or N = table())
  V = I<int>. | S<hex>. | T | F | A V* ] | M (<hex>=V)* }
An operation that is not offered at its place (a typed accessor returns None) or panics is skipped (`s`).

The ORACLE looks at the implementation's line only.  It keeps a plain ordered tree (class Node: keys,
order, scalar dumps, table kind std/inline, dotted / implicit bits) initialised from the re-parsed
UNEDITED print (step 0) and replays every operation on it with `Ref.apply` — a re-implementation of
Spec/EditSpec.v `spec_apply` plus the applicability conditions, written from the API documentation.
After every step:
  * the operation was applied iff the reference says it is applicable,
  * the printed text re-parses,
  * content: the re-parsed tree equals the reference tree (tables as maps; arrays, arrays of tables in order),
  * order: in every table the key/value lines (through dotted sub-tables) come in the reference's order —
    surviving entries in their original relative order, new entries last / where the API documents them
    (TOML syntax forces the key/value lines of a table before its sub-tables, so the relative order of
    values and sub-tables is not observable in text; sub-tables are placed by `doc_position`),
  * sub-table order: the original sub-tables of a table that have a header line of their own (not implicit, not dotted;
    arrays of tables whose first element is the original one) and are still there come in their original relative order,
  * verbatim: every entry of the ORIGINAL document no operation has touched so far (not the edited
    entry, not inside a reformatted / converted container) has, at its current path, byte-identical own
    formatting (key decor + spelling, value decor + spelling, header decor) to step 0.
Known classes (decided on the reference tree; the first two are then CONFIRMED by comparing against the
reference with exactly the affected parts pruned):
  C06-table-in-inline (DESIGN.md F13)   a Table / ArrayOfTables stored under an inline table is dropped by the printer
  C08-empty-container-vanishes          an implicit or dotted table left without anything printable below it, or an
                                        array of tables left without elements, has no TOML spelling and disappears
  C08-unpositioned-element-misplaced    an array-of-tables element created through the API has no `doc_position`; the printer gives
                                        it the position of its predecessor in tree order, so after `sort_values` has reordered the
                                        sub-tables of the previous element its `[[header]]` is printed BEFORE some of them and they
                                        re-attach to the new element (content changes).  Confirmed by `eq_relaxed`: everything is
                                        exact (order of the elements, their lines, the sub-tables created through the API under
                                        their own element) except which element an ORIGINAL sub-table hangs from.
  C08-key-decor-in-header               a value entry whose key carries a comment / newline in its decor is turned into a
                                        table (Item::into_table / into_array_of_tables stored back, `doc[k] = table()`):
                                        the header is printed as `[<comment>\nkey]`, which is not valid TOML
"""
import common
import floatnorm
import gen_toml as G
from runner import Case

PROP = "C08"
TITLE = "Edits change exactly what was asked and keep everything else verbatim"
COQ_PROPS = "Props/C08.v"
DRIVER_NAME = "c08"
HARNESS = {"bin": "c08"}
THEOREMS = [
    "C08_step_content: forall t o t', apply o t = Some t' -> abs t' = spec_apply o (abs t)  (all 17 operation kinds, sort_values_by included)",
    "C08_history_content / C08_history_content_all: the same folded over any operation list (inapplicable operations skipped)",
    "C08_order_abs / _insert / _remove / _sort / _array_insert: abs keeps storage order; where spec_apply puts new entries and that survivors keep their relative order",
    "C08_verbatim: apply o t = Some t' -> untouched o p = true -> entry_repr t p = Some e -> snd e <> INone -> entry_repr t' (reloc o p) = Some e  (key repr + decor, value repr + decor, container decor of every untouched entry are identical; all 17 operation kinds)",
    "C08_history_verbatim: the same along any applicable operation list",
    "C08_step_wf / C08_history_wf: no operation leaves an Item::None placeholder (no_none (abs t) is preserved)",
    "C08_text_content_refuted_table_in_inline / _empty_container / _unpositioned_element: the text-level half is false of the model on the three known classes (witnesses replayed on the implementation); the fourth former class (comments inside the header brackets) is repaired (fd87fcd) and kept as a regression Example",
    "C08_fragment / C08_history_fragment: the print fragment (FLine: stored key path in the section + whole value; FHead: stored header key path + decor) of every untouched entry is identical after the operation",
    "C08_print_sections: display_document = root prefix ++ (per section in printing order: header fragment ++ entry fragments) ++ suffix ++ trailing",
    "C08_line_printed / C08_header_printed: every line fragment of a tree occurs in its printed text; every header fragment too unless the table is implicit without lines",
    "C08_verbatim_text / C08_history_verbatim_text: the text printed after an edit contains, byte for byte, the key/value line of every untouched entry",
    "C08_step_tbl_wf / C08_step_wf_text / C08_history_wf_text: every operation (all 17 kinds) preserves Spec/WF.v (tbl_wf proved per operation under the decidable `wf_side`; limits and section order under the boolean checks of the result `lim_side` / `order_side`, proved sound); C08_order_free: array operations and fmt never break order_ok",
    "TEXT ROUND TRIP, closed against the WF backbone (Proofs/EditTextClose.v; no premise left): C08_text_roundtrip_closed: WF t -> apply_seq ops t = Some t' -> "
    "history_side ops t = true -> the text printed after the history is ACCEPTED and its data = text_data (abs t') = text_data (spec_apply_all ops (abs t)) "
    "(data with table kinds / inline flags erased, each standard table listed key/value lines first - what the text forces: a value inserted behind [t] prints in front "
    "of it); C08_text_roundtrip_exact_order: storage order itself when lines_first holds; C08_bridge_parsed / _printed / C08_lines_first: the two abstractions related; "
    "ex_roundtrip_exact_refuted: exact storage-order equality is false in general (why the old premise was unprovable)",
    "C08_parsed_text_roundtrip: for a document that was PARSED first (parse_WF discharges well-formedness) the only premise on the tree is the decidable order_ok; "
    "C08_parsed_text_roundtrip_any_order (premise: the closed boolean replay_ok t') and C08_parsed_text_roundtrip_unordered (same data up to the order of table entries) "
    "need no order condition; C08_history_slots: the side conditions preserve the three WF clauses other than order_ok",
    "sort_values_by (17th operation kind, Table and InlineTable, comparators kdesc / rank): C08_sort_by_content: abs t' = spec_at p (spec_sort_by c) (abs t) - the caller's "
    "comparator orders the table AND, recursively, its dotted tables; C08_order_sort_by: the result is a permutation, sorted by the comparator, and STABLE (any class of "
    "pairwise tied entries keeps its order); C08_sort_inline_order: on an inline table sorting cannot break order_ok (on a table the side condition is order_side, as for "
    "sort_values); C08_sort_by_defined: the model defines sort_values_by on key-distinct association lists (IndexMap invariant) - every well-formed node is one",
    "NOT proved (checked by the oracle on the implementation): relative order of the fragments across sections as one theorem",
]
RULE = ("(1) gen_toml documents (random layout, comments and whitespace in every decor slot) x random operation lists "
        "(length <= 12 quick) on existing / missing / wrongly typed paths over the document's own keys plus fresh keys; "
        "(2) documents with 21..64 [headers] of 2-4 interleaved parents (standard tables and arrays of tables) x histories that push 2-5 new "
        "array-of-tables elements / insert new tables, each followed by a nested table or value under the new element, interleaved with ordinary edits; "
        "(3) documents whose tables (root, [standard], { inline }) hold groups of dotted keys with 2-5 children (nested once more at times), integer values with ties and "
        "non-integers x histories of sort_values_by (kdesc / rank) on the tables, the dotted tables and the inline tables, interleaved with ordinary edits; "
        "non-trivial = at least two operations applied")
ASSUMPTIONS = [
    "IndexMap = insertion-ordered association list, sort_keys / sort_by = stable sort, Vec = list; sort_values_by is modelled on association lists with distinct keys (the IndexMap invariant; every well-formed tree: C08_sort_by_defined)",
    "the text-level half is proved for histories meeting the decidable side conditions (exactly where the known classes live); outside them it is checked on the implementation",
]


# ------------------------------------------------------------------------------------------
# plain ordered tree
# ------------------------------------------------------------------------------------------
class Node:
    __slots__ = ("kind", "val", "elems", "items", "inl", "dotted", "implicit", "orig", "badkey")

    def __init__(self, kind, **kw):
        self.kind = kind            # 'v' scalar | 'a' array | 'A' array of tables | 't' table
        self.val = kw.get("val")
        self.elems = kw.get("elems")
        self.items = kw.get("items")      # [[key bytes, Node]]
        self.inl = kw.get("inl", False)
        self.dotted = kw.get("dotted", False)
        self.implicit = kw.get("implicit", False)
        self.orig = kw.get("orig")        # path in the step-0 text while untouched
        self.badkey = kw.get("badkey", False)   # the stored key's leaf decor holds a comment or a newline

    def get(self, k):
        for kk, n in self.items:
            if kk == k:
                return n
        return None

    def index(self, k):
        for i, (kk, _) in enumerate(self.items):
            if kk == k:
                return i
        return None

    def is_value(self):
        return self.kind in ("v", "a") or (self.kind == "t" and self.inl)

    def is_std(self):
        return self.kind == "t" and not self.inl


def hx(b):
    return b.hex()


def seg_key(k):
    return "k" + hx(k)


# ---- parser of the canonical dump ---------------------------------------------------------
def parse_dump(s):
    pos = [0]

    def entries(close):
        items = []
        if s[pos[0]] == close:
            pos[0] += 1
            return items
        while True:
            j = s.index("=", pos[0])
            ks = s[pos[0]:j]
            k = b"" if ks == "-" else bytes.fromhex(ks)
            pos[0] = j + 1
            items.append([k, node()])
            c = s[pos[0]]
            pos[0] += 1
            if c == close:
                return items
            assert c == ",", (c, s[pos[0] - 5:pos[0] + 5])

    def seq(close):
        out = []
        if s[pos[0]] == close:
            pos[0] += 1
            return out
        while True:
            out.append(node())
            c = s[pos[0]]
            pos[0] += 1
            if c == close:
                return out
            assert c == ","

    def node():
        if s.startswith("T{", pos[0]):
            pos[0] += 2
            return Node("t", items=entries("}"))
        if s.startswith("A[", pos[0]):
            pos[0] += 2
            return Node("A", elems=seq("]"))
        if s[pos[0]] == "[":
            pos[0] += 1
            return Node("a", elems=seq("]"))
        if s[pos[0]] == "{":
            pos[0] += 1
            return Node("t", items=entries("}"), inl=True)
        j = pos[0]
        while j < len(s) and s[j] not in ",}]":
            j += 1
        v = s[pos[0]:j]
        pos[0] = j
        return Node("v", val=v)

    n = node()
    assert pos[0] == len(s), "trailing dump text"
    return n


def parse_frags(s):
    out = {}
    if s == "-":
        return out
    for part in s.split(";"):
        p, f = part.split("=", 1)
        out[p] = f
    return out


def norm_frag(f):
    """the own formatting of an entry, without the implicit / dotted bits of tables (an implicit table
    that receives a value is printed with its header from then on; a dotted table whose key/value
    lines are gone but which holds a sub-table is re-read as an implicit super-table): they are
    structure, not source text"""
    pieces = f.split("~")
    return "~".join("T" if (len(p) == 3 and p[0] == "T" and p[1] in "ie" and p[2] in "ds") else p for p in pieces)


def has_nl_or_comment(h):
    return h not in ("-", "_", "?") and any(h[i:i + 2] in ("0a", "23") for i in range(0, len(h), 2))


def annotate(n, path, frags, set_orig):
    """flags of tables from the fragments; orig paths"""
    if set_orig:
        n.orig = path
        f = frags.get(path)
        if f is not None and path.rsplit("/", 1)[-1].startswith("k"):
            ps = f.split("~")
            n.badkey = has_nl_or_comment(ps[0]) or has_nl_or_comment(ps[2])
    if n.kind == "t":
        f = frags.get(path)
        if f is not None:
            for p in f.split("~"):
                if not n.inl and len(p) == 3 and p[0] == "T" and p[1] in "ie" and p[2] in "ds":
                    n.implicit = p[1] == "i"
                    n.dotted = p[2] == "d"
                if n.inl and len(p) >= 3 and p[0] == "I" and p[1] in "ds":
                    n.dotted = p[1] == "d"
        for k, c in n.items:
            annotate(c, path + "/" + seg_key(k), frags, set_orig)
    elif n.kind in ("a", "A"):
        for i, c in enumerate(n.elems):
            annotate(c, "%s/i%d" % (path, i), frags, set_orig)


# ---- payloads -------------------------------------------------------------------------------
def pv_node(v):
    k = v[0]
    if k == "I":
        return Node("v", val="i:%d" % v[1])
    if k == "S":
        return Node("v", val="s:" + (hx(v[1]) if v[1] else "-"))
    if k == "B":
        return Node("v", val="b:true" if v[1] else "b:false")
    if k == "A":
        return Node("a", elems=[pv_node(e) for e in v[1]])
    t = Node("t", items=[], inl=True)
    for kk, e in v[1]:
        put(t, kk, pv_node(e))
    return t


def pv_text(v):
    k = v[0]
    if k == "I":
        return "I%d." % v[1]
    if k == "S":
        return "S%s." % hx(v[1])
    if k == "B":
        return "T" if v[1] else "F"
    if k == "A":
        return "A" + "".join(pv_text(e) for e in v[1]) + "]"
    return "M" + "".join("%s=%s" % (hx(kk), pv_text(e)) for kk, e in v[1]) + "}"


def parse_pv_text(s, i=0):
    c = s[i]
    if c == "I":
        j = s.index(".", i)
        return ("I", int(s[i + 1:j])), j + 1
    if c == "S":
        j = s.index(".", i)
        return ("S", bytes.fromhex(s[i + 1:j])), j + 1
    if c == "T":
        return ("B", True), i + 1
    if c == "F":
        return ("B", False), i + 1
    if c == "A":
        i += 1
        out = []
        while s[i] != "]":
            v, i = parse_pv_text(s, i)
            out.append(v)
        return ("A", out), i + 1
    if c == "M":
        i += 1
        out = []
        while s[i] != "}":
            j = s.index("=", i)
            k = bytes.fromhex(s[i:j])
            v, i = parse_pv_text(s, j + 1)
            out.append((k, v))
        return ("M", out), i + 1
    raise ValueError(s[i:])


def put(t, k, n):
    """an existing key keeps its position, a new key goes last"""
    i = t.index(k)
    if i is None:
        t.items.append([k, n])
    else:
        t.items[i][1] = n


def parse_path(s):
    segs = s.split("/")
    assert segs[0] == "r"
    out = []
    for x in segs[1:]:
        out.append(bytes.fromhex(x[1:]) if x[0] == "k" else int(x[1:]))
    return out


def path_text(p):
    return "/".join(["r"] + [seg_key(x) if isinstance(x, bytes) else "i%d" % x for x in p])


# ------------------------------------------------------------------------------------------
# the reference interpreter of operations
# ------------------------------------------------------------------------------------------
def forget(n):
    """the entry and everything inside it is no longer `untouched`"""
    n.orig = None
    if n.kind == "t":
        for _, c in n.items:
            forget(c)
    elif n.kind in ("a", "A"):
        for c in n.elems:
            forget(c)


def make_value(n):
    """Item::make_value: a table becomes an inline table, an array of tables an array, all the way down"""
    if n.kind == "t" and not n.inl:
        return Node("t", items=[[k, make_value(c)] for k, c in n.items], inl=True)
    if n.kind == "A":
        return Node("a", elems=[make_value(c) for c in n.elems])
    return n


class Ref:
    def __init__(self, root):
        self.root = root

    def walk(self, p):
        """the typed accessors: get_mut of Table / InlineTable / Array / ArrayOfTables"""
        n = self.root
        for s in p:
            if isinstance(s, bytes):
                if n.kind != "t":
                    return None
                c = n.get(s)
                if c is None:
                    return None
                if n.inl and not c.is_value():
                    return None
                n = c
            else:
                if n.kind == "a":
                    if s >= len(n.elems) or not n.elems[s].is_value():
                        return None
                elif n.kind == "A":
                    if s >= len(n.elems):
                        return None
                else:
                    return None
                n = n.elems[s]
        return n

    def apply(self, f):
        """True = applicable (and done); False = not offered / panics (nothing changed)"""
        name = f[0]
        if name == "iset":
            return self.iset(parse_path(f[1]), f[2])
        n = self.walk(parse_path(f[1]))
        if n is None:
            return False
        if name == "ins":
            if n.kind != "t":
                return False
            if n.inl:
                n.orig = None          # the braces' own blank (preamble) is re-attributed when re-parsed
            put(n, bytes.fromhex(f[2][1:]), pv_node(parse_pv_text(f[3])[0]))
            return True
        if name in ("instab", "insaot"):
            if not n.is_std():
                return False
            new = Node("t", items=[]) if name == "instab" else Node("A", elems=[Node("t", items=[])])
            put(n, bytes.fromhex(f[2][1:]), new)
            return True
        if name == "rm":
            if n.kind != "t":
                return False
            k = bytes.fromhex(f[2][1:])
            i = n.index(k)
            if i is not None:
                del n.items[i]
            if n.inl:
                n.orig = None
            return True
        if name in ("push", "ains", "arep", "arm"):
            if n.kind != "a":
                return False
            n.orig = None              # the brackets' own trailing blank / comma is re-attributed when re-parsed
            if name == "push":
                n.elems.append(pv_node(parse_pv_text(f[2])[0]))
                return True
            i = int(f[2])
            if name == "ains":
                if i > len(n.elems):
                    return False
                n.elems.insert(i, pv_node(parse_pv_text(f[3])[0]))
                return True
            if i >= len(n.elems):
                return False
            if name == "arep":
                n.elems[i] = pv_node(parse_pv_text(f[3])[0])
            else:
                del n.elems[i]
            return True
        if name in ("tpush", "trm"):
            if n.kind != "A":
                return False
            if name == "tpush":
                n.elems.append(Node("t", items=[]))
                return True
            i = int(f[2])
            if i >= len(n.elems):
                return False
            del n.elems[i]
            return True
        if name == "sort":
            if n.kind != "t":
                return False
            self.sort(n)
            return True
        if name == "sortby":
            if n.kind != "t" or f[2] not in ("kdesc", "rank"):
                return False
            self.sort_by(n, f[2])
            return True
        if name == "fmt":
            if n.kind == "t":
                for _, c in n.items:
                    if c.is_value():
                        c.orig = None
                return True
            if n.kind == "a":
                n.orig = None
                for c in n.elems:
                    c.orig = None
                return True
            return False
        if name in ("mkval", "intotab", "intoaot"):
            if not n.is_std():
                return False
            k = bytes.fromhex(f[2][1:])
            i = n.index(k)
            if i is None:
                return False
            c = n.items[i][1]
            forget(c)
            if name == "mkval":
                n.items[i][1] = make_value(c)
            elif name == "intotab":
                if c.kind == "t" and c.inl:
                    n.items[i][1] = Node("t", items=c.items)
            else:
                if c.kind == "a" and c.elems and all(e.kind == "t" and e.inl for e in c.elems):
                    n.items[i][1] = Node("A", elems=[Node("t", items=e.items) for e in c.elems])
            n.items[i][1].badkey = c.badkey      # the stored key stays as it is
            return True
        raise ValueError(name)

    def sort(self, t):
        """stable sort by key; dotted sub-tables of the same kind belong to the syntactic table"""
        for _, c in t.items:
            if c.kind == "t" and c.dotted and c.inl == t.inl:
                self.sort(c)
        t.items.sort(key=lambda kv: kv[0])

    def sort_by(self, t, cmp):
        """sort_values_by, from the API documentation: the entries of the syntactic table are sorted with the caller's
        comparison (a stable sort), and so are the entries of the dotted tables of the same kind below it.  A table's
        closure sees (key, item); an inline table's closure sees (key, value): entries of an inline table that are
        not values come first, tied."""
        def rank(c):
            if c.kind == "v" and c.val.startswith("i:"):
                return (2, int(c.val[2:]))
            return (1, 0)

        def compare(a, b):
            (ka, ca), (kb, cb) = a, b
            if t.inl:
                va, vb = ca.is_value(), cb.is_value()
                if not (va and vb):
                    return (1 if va else 0) - (1 if vb else 0)
            if cmp == "kdesc":
                return (ka < kb) - (ka > kb)
            ra, rb = rank(ca), rank(cb)
            return (ra > rb) - (ra < rb)

        # insertion sort written out (stable by construction), so that the reference does not lean on a library sort
        out = []
        for e in t.items:
            i = len(out)
            while i > 0 and compare(out[i - 1], e) > 0:
                i -= 1
            out.insert(i, e)
        t.items[:] = out
        for _, c in t.items:
            if c.kind == "t" and c.dotted and c.inl == t.inl:
                self.sort_by(c, cmp)

    def iset(self, keys, x):
        if not keys or not all(isinstance(k, bytes) for k in keys):
            return False
        # is the whole walk possible?  (indexing anything but a table / inline table / missing entry panics)
        n = self.root
        for k in keys:
            if n is None:
                break                      # from a missing entry on, inline tables are created
            if n.kind != "t":
                return False
            n = n.get(k)
        new = Node("t", items=[]) if x == "N" else pv_node(parse_pv_text(x)[0])
        n = self.root
        for k in keys[:-1]:
            c = n.get(k)
            if c is None:
                c = Node("t", items=[], inl=True)
                if n.inl:
                    n.orig = None
                n.items.append([k, c])
            n = c
        if n.inl:
            n.orig = None                      # the braces' own blank (preamble) is re-attributed when re-parsed
        old = n.get(keys[-1])
        if old is not None:
            new.badkey = old.badkey             # IndexMut assigns the item, the stored key stays
        put(n, keys[-1], new)
        return True


# ------------------------------------------------------------------------------------------
# what the printed text can show of a tree
# ------------------------------------------------------------------------------------------
def clone(n):
    m = Node(n.kind, val=n.val, inl=n.inl, dotted=n.dotted, implicit=n.implicit, orig=n.orig, badkey=n.badkey)
    if n.kind == "t":
        m.items = [[k, clone(c)] for k, c in n.items]
    elif n.kind in ("a", "A"):
        m.elems = [clone(c) for c in n.elems]
    return m


def has_line(t):
    """some key/value line is printed for this table (through dotted sub-tables of its kind)"""
    for _, c in t.items:
        if c.kind == "t" and c.dotted and (c.inl or not t.inl):
            if has_line(c):
                return True
        elif c.is_value():
            return True
    return False


def printable(n):
    """is there any trace of the entry in the printed text?"""
    if n.kind == "A":
        return len(n.elems) > 0
    if n.kind == "t" and not n.inl:
        if not n.implicit and not n.dotted:
            return True                                   # its header
        return has_line(n) or any(printable(c) for _, c in n.items if c.kind == "A" or c.is_std())
    if n.kind == "t" and n.inl and n.dotted:
        return has_line(n)
    return True


def prune(n, drop_in_inline, drop_empty, under_inline=False):
    """the tree without the parts the known classes lose; returns (tree, set of classes used)"""
    used = set()
    if n.kind == "t":
        items = []
        for k, c in n.items:
            if (under_inline or n.inl) and (c.kind == "A" or c.is_std()):
                if drop_in_inline:
                    used.add("C06-table-in-inline")
                    continue
            elif drop_empty and not printable(c):
                used.add("C08-empty-container-vanishes")
                continue
            c2, u = prune(c, drop_in_inline, drop_empty, under_inline or n.inl)
            used |= u
            items.append([k, c2])
        m = Node("t", items=items, inl=n.inl, dotted=n.dotted, implicit=n.implicit, orig=n.orig, badkey=n.badkey)
        return m, used
    if n.kind in ("a", "A"):
        elems = []
        for c in n.elems:
            c2, u = prune(c, drop_in_inline, drop_empty, under_inline or n.kind == "a")
            used |= u
            elems.append(c2)
        return Node(n.kind, elems=elems, orig=n.orig, badkey=n.badkey), used
    return n, used


def header_with_key_decor(n, parent_std=True):
    """a table / array of tables whose stored key carries a comment or a newline: the header
    `[<prefix>key<suffix>]` cannot hold them"""
    if n.kind == "t":
        if not n.inl and n.badkey and parent_std:
            return True
        return any(header_with_key_decor(c, not n.inl) for _, c in n.items)
    if n.kind == "A":
        if n.badkey and parent_std and n.elems:
            return True
        return any(header_with_key_decor(c, True) for c in n.elems)
    return False


def is_tablelike(n):
    return n.kind == "A" or n.is_std()


def flagged_aots(p, path="r", out=None):
    """arrays of tables holding an element the API created (`doc_position` None)"""
    out = set() if out is None else out
    if p.kind == "A":
        if any(e.orig is None for e in p.elems):
            out.add(path)
        for i, e in enumerate(p.elems):
            flagged_aots(e, "%s/i%d" % (path, i), out)
    elif p.kind == "t":
        for k, c in p.items:
            flagged_aots(c, path + "/" + seg_key(k), out)
    elif p.kind == "a":
        for i, e in enumerate(p.elems):
            flagged_aots(e, "%s/i%d" % (path, i), out)
    return out


def eq_relaxed(p, r, flagged, path="r"):
    """content equality (standard tables as maps) where, below a flagged array of tables, an ORIGINAL
    (positioned) sub-table of one element may hang from another element.  Everything else is exact:
    the order of the elements, their key/value lines, and the sub-tables created through the API
    (they must be under the very element they were put under)."""
    if p.kind != r.kind:
        return False
    if p.kind == "v":
        return p.val == r.val
    if p.kind == "a":
        return len(p.elems) == len(r.elems) and all(
            eq_relaxed(a, b, flagged, "%s/i%d" % (path, i)) for i, (a, b) in enumerate(zip(p.elems, r.elems)))
    if p.kind == "t":
        if p.inl != r.inl and not (p.inl and p.dotted and r.dotted):
            return False
        pk, rk = [k for k, _ in p.items], [k for k, _ in r.items]
        if sorted(pk) != sorted(rk) or (p.inl and r.inl and pk != rk):
            return False
        return all(eq_relaxed(c, r.get(k), flagged, path + "/" + seg_key(k)) for k, c in p.items)
    if len(p.elems) != len(r.elems):
        return False
    if path not in flagged:
        return all(eq_relaxed(a, b, flagged, "%s/i%d" % (path, i)) for i, (a, b) in enumerate(zip(p.elems, r.elems)))
    pool_p, pool_r = [], []
    for i, (e, re_) in enumerate(zip(p.elems, r.elems)):
        ep = "%s/i%d" % (path, i)
        ev = [(k, c) for k, c in e.items if not is_tablelike(c)]
        rv = [(k, c) for k, c in re_.items if not is_tablelike(c)]
        if [k for k, _ in ev] != [k for k, _ in rv]:
            return False
        if not all(eq_relaxed(c, rc, flagged, ep + "/" + seg_key(k)) for (k, c), (_, rc) in zip(ev, rv)):
            return False
        stay = set()
        for k, c in e.items:
            if not is_tablelike(c):
                continue
            if c.orig is None:                       # created through the API: must be exactly here
                rc = re_.get(k)
                if rc is None or not is_tablelike(rc) or not eq_relaxed(c, rc, flagged, ep + "/" + seg_key(k)):
                    return False
                stay.add(k)
            else:
                pool_p.append((k, c))
        pool_r += [(k, rc) for k, rc in re_.items if is_tablelike(rc) and k not in stay]
    if len(pool_p) != len(pool_r):
        return False
    for k, c in pool_p:
        for n_, (k2, rc) in enumerate(pool_r):
            if k2 == k and eq_relaxed(c, rc, flagged, path + "/*"):
                del pool_r[n_]
                break
        else:
            return False
    return True


def lines(t, prefix=()):
    """the key paths of the key/value lines of a table, in printing order"""
    out = []
    for k, c in t.items:
        if c.kind == "t" and c.dotted and (c.inl or not t.inl):
            out += lines(c, prefix + (k,))
        elif c.is_value():
            out.append(prefix + (k,))
    return out


def diff(p, r, path="r"):
    """None if the re-parsed tree r shows the reference tree p, else a reason"""
    if p.kind != r.kind:
        return "%s: reference has %s, text has %s" % (path, p.kind, r.kind)
    if p.kind == "v":
        return None if p.val == r.val else "%s: value %s, reference %s" % (path, r.val, p.val)
    if p.kind in ("a", "A"):
        if len(p.elems) != len(r.elems):
            return "%s: %d elements, reference %d" % (path, len(r.elems), len(p.elems))
        for i, (a, b) in enumerate(zip(p.elems, r.elems)):
            d = diff(a, b, "%s/i%d" % (path, i))
            if d:
                return d
        return None
    if p.inl != r.inl and not (p.inl and p.dotted and r.dotted):
        # (a dotted inline table that sits in a standard table is printed as dotted keys: accepted)
        return "%s: reference has %s table, text has %s table" % (path, "inline" if p.inl else "standard", "inline" if r.inl else "standard")
    pk, rk = [k for k, _ in p.items], [k for k, _ in r.items]
    if sorted(pk) != sorted(rk):
        return "%s: keys %s, reference %s" % (path, [k.decode("utf-8", "replace") for k in rk], [k.decode("utf-8", "replace") for k in pk])
    for k, c in p.items:
        d = diff(c, r.get(k), path + "/" + seg_key(k))
        if d:
            return d
    if not p.dotted:
        lp, lr = lines(p), lines(r)
        if lp != lr:
            return "%s: order of key/value lines %s, reference %s" % (path, lr, lp)
    if p.inl and r.inl and pk != rk:
        return "%s: order of inline-table keys %s, reference %s" % (path, rk, pk)
    return None


def ranks0(n, path, out):
    """position of every entry among its siblings in the step-0 text"""
    if n.kind == "t":
        for i, (k, c) in enumerate(n.items):
            cp = path + "/" + seg_key(k)
            out[cp] = i
            ranks0(c, cp, out)
    elif n.kind in ("a", "A"):
        for i, c in enumerate(n.elems):
            cp = "%s/i%d" % (path, i)
            out[cp] = i
            ranks0(c, cp, out)
    return out


def anchored(c):
    """an original sub-table whose place in the text is its own header: a [table] that is neither implicit
    nor dotted, or an array of tables whose first element is the original first element"""
    if c.orig is None:
        return False
    if c.kind == "t":
        return not c.inl and not c.implicit and not c.dotted
    if c.kind == "A":
        return bool(c.elems) and c.elems[0].orig is not None and c.elems[0].orig.endswith("/i0")
    return False


def table_order(p, r, rank0, path="r"):
    """the original sub-tables of every standard table that are still there come in their original relative order"""
    if p.kind == "t":
        if not p.inl and r.kind == "t":
            seq = []
            for k, rc in r.items:
                c = p.get(k)
                if c is not None and anchored(c) and c.orig in rank0:
                    seq.append((c.orig.rsplit("/", 1)[0], rank0[c.orig], k))
            last = {}
            for parent, rk, k in seq:
                if parent in last and last[parent][0] > rk:
                    return "%s: original sub-tables %r and %r have changed their relative order in the text" % (
                        path, last[parent][1].decode("utf-8", "replace"), k.decode("utf-8", "replace"))
                last[parent] = (rk, k)
        for k, c in p.items:
            rc = r.get(k) if r.kind == "t" else None
            if rc is not None:
                d = table_order(c, rc, rank0, path + "/" + seg_key(k))
                if d:
                    return d
    elif p.kind == "A" and r.kind == "A":
        for i, (a, b) in enumerate(zip(p.elems, r.elems)):
            d = table_order(a, b, rank0, "%s/i%d" % (path, i))
            if d:
                return d
    return None


def refresh_badkey(p, path, frags):
    f = frags.get(path)
    if f is not None and path.rsplit("/", 1)[-1].startswith("k"):
        ps = f.split("~")
        p.badkey = has_nl_or_comment(ps[0]) or has_nl_or_comment(ps[2])
    if p.kind == "t":
        for k, c in p.items:
            refresh_badkey(c, path + "/" + seg_key(k), frags)
    elif p.kind in ("a", "A"):
        for i, c in enumerate(p.elems):
            refresh_badkey(c, "%s/i%d" % (path, i), frags)


def verbatim(p, path, frags0, frags):
    # (a header-less implicit super-table has no source text of its own: `[a.b]` spells `a` only
    #  as part of b's header; once it receives a value it is printed with a header of its own)
    if p.orig is not None and not (p.kind == "t" and not p.inl and p.implicit and not p.dotted):
        a, b = frags0.get(p.orig), frags.get(path)
        if a is None or b is None:
            return "entry %s (originally %s): no fragment in the %s text" % (path, p.orig, "original" if a is None else "new")
        if norm_frag(a) != norm_frag(b):
            return "untouched entry %s (originally %s): formatting changed from %s to %s" % (path, p.orig, a, b)
    if p.kind == "t":
        for k, c in p.items:
            d = verbatim(c, path + "/" + seg_key(k), frags0, frags)
            if d:
                return d
    elif p.kind in ("a", "A"):
        for i, c in enumerate(p.elems):
            d = verbatim(c, "%s/i%d" % (path, i), frags0, frags)
            if d:
                return d
    return None


# ------------------------------------------------------------------------------------------
# analysis of one implementation line
# ------------------------------------------------------------------------------------------
_cache = {}


def split_ops(ops):
    return [o.split(",") for o in ops.split(";") if o]


def analyse(case, il):
    """returns (reason | None, known class | None, number of applied steps)"""
    key = (case.line(), il)
    if key in _cache:
        return _cache[key]
    res = _analyse(case, il)
    if len(_cache) > 200000:
        _cache.clear()
    _cache[key] = res
    return res


def _analyse(case, il):
    ops = split_ops(case.args[1].decode())
    if il == "err":
        return ("the generated document is rejected", None, 0) if case.meta.get("valid") else (None, None, 0)
    steps = il.split("|")
    if len(steps) != len(ops) + 1:
        return ("malformed line: %d steps for %d operations" % (len(steps), len(ops)), None, 0)
    f0 = steps[0].split("@")
    if len(f0) != 5 or f0[0] != "a":
        return ("malformed step 0", None, 0)
    if f0[2] != "ok":
        return ("the unedited print does not re-parse", None, 0)
    root = parse_dump(f0[3])
    frags0 = parse_frags(f0[4])
    annotate(root, "r", frags0, True)
    rank0 = ranks0(root, "r", {})
    want = case.meta.get("dump")
    if want is not None and want != f0[3]:
        return ("the decoded content of the unedited document differs from the reference interpreter's: %s vs %s" % (f0[3], want), None, 0)
    ref = Ref(root)
    applied = 0
    known = set()
    for i, (f, st) in enumerate(zip(ops, steps[1:])):
        what = "step %d `%s`" % (i + 1, ",".join(f))
        try:
            ok = ref.apply(f)
        except Exception as e:      # malformed operation text
            return ("%s: bad operation (%r)" % (what, e), None, applied)
        if st == "s":
            if ok:
                return ("%s: the reference applies it, the implementation refuses or panics" % what, None, applied)
            continue
        if not ok:
            return ("%s: not applicable by the reference, applied by the implementation" % what, None, applied)
        applied += 1
        fs = st.split("@")
        if len(fs) != 5:
            return ("%s: malformed step" % what, None, applied)
        if fs[2] != "ok":
            # (C08-key-decor-in-header was repaired in /repo fd87fcd: a key's comments are written in front of the header;
            #  an invalid text is a violation again, whatever the stored key's decor)
            return ("%s: the printed text is not valid TOML: %r" % (what, bytes.fromhex(fs[1]) if fs[1] != "-" else b""), None, applied)
        got = parse_dump(fs[3])
        frags = parse_frags(fs[4])
        annotate(got, "r", frags, False)
        refresh_badkey(ref.root, "r", frags)
        d = diff(ref.root, got)
        shown = ref.root
        if d:
            # is the difference exactly one of the known losses?
            for a, b in ((True, False), (False, True), (True, True)):
                pr, used = prune(ref.root, a, b)
                if used:
                    if diff(pr, got) is None:
                        known |= used
                        shown = pr
                        d = None
                        break
        skip_verbatim = False
        if d:
            # sub-tables re-attached to another element of an array of tables with an unpositioned element?
            fl = flagged_aots(ref.root)
            if fl:
                for a, b in ((False, False), (True, False), (False, True), (True, True)):
                    pr, used = prune(ref.root, a, b)
                    if eq_relaxed(pr, got, fl):
                        known |= used | {"C08-unpositioned-element-misplaced"}
                        d = None
                        skip_verbatim = True
                        break
        if d:
            return ("%s: %s" % (what, d), None, applied)
        if skip_verbatim:
            continue
        v = verbatim(shown, "r", frags0, frags) or table_order(shown, got, rank0)
        if v:
            return ("%s: %s" % (what, v), None, applied)
    if known:
        k = sorted(known)[0]
        what = []
        if "C08-key-decor-in-header" in known:
            what.append("the printed text is not valid TOML: a key's comment / newline decor is printed inside a [header]")
        if "C08-unpositioned-element-misplaced" in known:
            what.append("sub-tables are printed under another element of their array of tables")
        if known - {"C08-key-decor-in-header", "C08-unpositioned-element-misplaced"}:
            what.append("entries of the edited tree are missing from the printed text")
        return ("%s (%s)" % ("; ".join(what), ", ".join(sorted(known))), k, applied)
    return (None, None, applied)


def oracle(case, impl_line):
    if impl_line.startswith(("PANIC", "CRASH", "TIMEOUT")):
        return "implementation crashed: " + impl_line
    return analyse(case, impl_line)[0]


def known_class(case, impl_line):
    if impl_line.startswith(("PANIC", "CRASH", "TIMEOUT")):
        return None
    return analyse(case, impl_line)[1]


def nontrivial(case, impl_line):
    if impl_line.startswith(("PANIC", "CRASH", "TIMEOUT")):
        return False
    return analyse(case, impl_line)[2] >= 2


def compare(case, model_line, impl_line):
    """the model prints the first four fields of every step"""
    il = "|".join("@".join(s.split("@")[:4]) for s in impl_line.split("|"))
    if floatnorm.norm(model_line) == il:
        return None
    ms, is_ = floatnorm.norm(model_line).split("|"), il.split("|")
    for n, (a, b) in enumerate(zip(ms, is_)):
        if a != b:
            return "model and implementation differ at step %d" % n
    return "model and implementation differ"


# ------------------------------------------------------------------------------------------
# generation
# ------------------------------------------------------------------------------------------
FRESH_KEYS = [b"new", b"n2", b"zz", b"A", b"k 1", b"", "é".encode(), b"a.b", b"\"q\"", b"x-y", b"0"]
STRS = [b"", b"hi", b"with space", b"\"quoted\"", b"it's", b"back\\slash", b"tab\there", b"line1\nline2", "é 日本 😀".encode(),
        b"'''", b'"""', b"#not comment", b"\x00nul", b"\x7f", b"a=b"]


def rand_pv(rng, depth=0):
    x = rng.random()
    if depth >= 2 or x < 0.65:
        k = rng.randrange(3)
        if k == 0:
            return ("I", rng.choice([0, 1, -1, 42, 2 ** 63 - 1, -2 ** 63, rng.randrange(-1000, 1000)]))
        if k == 1:
            return ("S", rng.choice(STRS))
        return ("B", rng.random() < 0.5)
    if x < 0.85:
        return ("A", [rand_pv(rng, depth + 1) for _ in range(rng.choice([0, 1, 2, 3]))])
    ks = []
    for _ in range(rng.choice([0, 1, 2, 3])):
        ks.append((rng.choice([b"a", b"b", b"c", b"x y", b""]), rand_pv(rng, depth + 1)))
    return ("M", ks)


def collect(n, p, out):
    """every node of the reference tree with its path"""
    out.append((p, n))
    if n.kind == "t":
        for k, c in n.items:
            collect(c, p + [k], out)
    elif n.kind in ("a", "A"):
        for i, c in enumerate(n.elems):
            collect(c, p + [i], out)


def gen_ops(rng, root, n_ops, kinds, ref=None):
    """ops drawn against the evolving reference tree (so that paths mostly exist)"""
    ref = ref or Ref(clone(root))
    ops = []
    for _ in range(n_ops):
        nodes = []
        collect(ref.root, [], nodes)
        tabs = [(p, n) for p, n in nodes if n.kind == "t"]
        stds = [(p, n) for p, n in tabs if not n.inl]
        arrs = [(p, n) for p, n in nodes if n.kind == "a"]
        aots = [(p, n) for p, n in nodes if n.kind == "A"]
        kind = rng.choice(kinds)

        def a_key(t, fresh_p=0.4):
            if t.items and rng.random() > fresh_p:
                return rng.choice(t.items)[0]
            return rng.choice(FRESH_KEYS)

        def pick(l):
            # mostly a node of the right type, sometimes any node
            if l and rng.random() < 0.92:
                return rng.choice(l)
            return rng.choice(nodes)

        f = None
        if kind == "ins":
            p, t = pick(tabs)
            k = a_key(t) if t.kind == "t" else rng.choice(FRESH_KEYS)
            f = ["ins", path_text(p), seg_key(k), pv_text(rand_pv(rng))]
        elif kind in ("instab", "insaot"):
            p, t = pick(stds)
            k = a_key(t, 0.7) if t.kind == "t" else rng.choice(FRESH_KEYS)
            f = [kind, path_text(p), seg_key(k)]
        elif kind == "rm":
            p, t = pick(tabs)
            k = a_key(t, 0.15) if t.kind == "t" else rng.choice(FRESH_KEYS)
            f = ["rm", path_text(p), seg_key(k)]
        elif kind == "push":
            p, a = pick(arrs)
            f = ["push", path_text(p), pv_text(rand_pv(rng))]
        elif kind in ("ains", "arep", "arm"):
            p, a = pick(arrs)
            ln = len(a.elems) if a.kind == "a" else 1
            i = rng.randrange(0, ln + 2) if rng.random() < 0.2 else rng.randrange(0, max(1, ln + (1 if kind == "ains" else 0)))
            f = [kind, path_text(p), str(i)] + ([pv_text(rand_pv(rng))] if kind != "arm" else [])
        elif kind == "tpush":
            p, a = pick(aots)
            f = ["tpush", path_text(p)]
        elif kind == "trm":
            p, a = pick(aots)
            ln = len(a.elems) if a.kind == "A" else 1
            f = ["trm", path_text(p), str(rng.randrange(0, ln + 1))]
        elif kind == "sort":
            p, t = pick(tabs)
            f = ["sort", path_text(p)]
        elif kind == "sortby":
            p, t = pick(tabs)
            f = ["sortby", path_text(p), rng.choice(["kdesc", "rank", "rank"])]
        elif kind == "fmt":
            p, t = pick(tabs + arrs)
            f = ["fmt", path_text(p)]
        elif kind in ("mkval", "intotab", "intoaot"):
            p, t = pick(stds)
            k = a_key(t, 0.1) if t.kind == "t" else rng.choice(FRESH_KEYS)
            f = [kind, path_text(p), seg_key(k)]
        elif kind == "iset":
            # an existing prefix, possibly extended by fresh keys
            p, t = pick(tabs)
            keys = [s for s in p if isinstance(s, bytes)] if all(isinstance(s, bytes) for s in p) else []
            for _ in range(rng.choice([1, 1, 2, 3])):
                keys = keys + [a_key(t) if (t.kind == "t" and rng.random() < 0.5) else rng.choice(FRESH_KEYS)]
            x = "N" if rng.random() < 0.3 else pv_text(rand_pv(rng))
            f = ["iset", path_text(keys), x]
        if f is None:
            continue
        try:
            ref.apply(f)
        except Exception:
            pass
        ops.append(",".join(f))
    return ops


CORE_KINDS = ["ins", "ins", "rm", "rm", "push", "ains", "arep", "arm", "instab", "insaot", "tpush", "trm",
              "sort", "sortby", "fmt", "mkval", "intotab", "intoaot", "iset"]


def mk_case(text, ops, kind, extra=None):
    meta = {"kind": kind, "valid": True}
    if extra:
        meta.update(extra)
    return Case("edit", [text, ";".join(ops).encode()], meta)


def tree_from_tab(t):
    """gen_toml's reference tree -> Node (for drawing operations before anything is run)"""
    if isinstance(t, G.Val):
        return value_node(t.v)
    if isinstance(t, G.Aot):
        return Node("A", elems=[tree_from_tab(e) for e in t.elems])
    return Node("t", items=[[k, tree_from_tab(n)] for k, n in t.items], inl="inline" in t.flags,
                dotted="dotted" in t.flags, implicit="super" in t.flags or "dotted" in t.flags)


def value_node(v):
    if v[0] == "a":
        return Node("a", elems=[value_node(e) for e in v[1]])
    if v[0] == "t":
        n = tree_from_tab(G._inline_to_tab(v[1]))

        def mark(x):
            if x.kind == "t":
                x.inl = True
                for _, c in x.items:
                    mark(c)
        mark(n)
        return n
    return Node("v", val=G.dump_value(v))


def gen_doc(rng):
    while True:
        tg = G.TreeGen(rng, small_keys=rng.random() < 0.3, max_depth=2)
        st = tg.statements(tg.tree())
        st = [(s[0], s[1], tg.group_value(s[2])) if s[0] == "kv" else s for s in st]
        v = G.ref_eval(st)
        if v[0] != "valid" or not G.within_limits(st) or len(st) > 14:
            continue
        rn = G.Renderer(rng, plain=rng.random() < 0.05, consistent=True, comment_p=0.5, ws_p=0.4)
        text = rn.document(st)
        return text, v[1]


# ---- documents with many interleaved [headers] and histories that create position-less tables ------------
PARENTS = [b"tools", b"deps", b"srv", b"pkg"]


def gen_interleaved(rng):
    """21..64 headers over 2-4 parents whose [parent.child] / [[parent.arr]] headers are interleaved, so that
    the depth-first order of the tables is not their order in the text; returns (text, reference tree)"""
    parents = rng.sample(PARENTS, rng.choice([2, 2, 3, 4]))
    with_aot = [p for p in parents if rng.random() < 0.6]
    n = rng.randrange(21, 65)
    root = Node("t", items=[])
    out = []
    cm = lambda: rng.choice([b"", b"", b"  # c%d" % rng.randrange(100), b" # pinned"])
    if rng.random() < 0.7:
        out.append(b"title = \"demo\"" + cm())
        root.items.append([b"title", Node("v", val="s:" + hx(b"demo"))])
        out.append(b"")

    def parent_node(pk):
        n_ = root.get(pk)
        if n_ is None:
            n_ = Node("t", items=[], implicit=True)
            root.items.append([pk, n_])
        return n_

    last_elem = {}
    for i in range(n):
        pk = parents[i % len(parents)] if rng.random() < 0.8 else rng.choice(parents)
        pn = parent_node(pk)
        x = rng.random()
        if pk in with_aot and x < 0.25:
            a = pn.get(b"task")
            if a is None:
                a = Node("A", elems=[])
                pn.items.append([b"task", a])
            e = Node("t", items=[[b"name", Node("v", val="s:" + hx(b"e%d" % i))]])
            a.elems.append(e)
            last_elem[pk] = e
            out.append(b"[[%s.task]]" % pk + cm())
            out.append(b"name = \"e%d\"" % i + cm())
        elif pk in last_elem and x < 0.35 and last_elem[pk].get(b"env") is None:
            sub = Node("t", items=[[b"id", Node("v", val="i:%d" % i)]])
            last_elem[pk].items.append([b"env", sub])
            out.append(b"[%s.task.env]" % pk + cm())
            out.append(b"id = %d" % i)
        else:
            ck = b"c%d" % i
            t = Node("t", items=[])
            pn.items.append([ck, t])
            out.append(rng.choice([b"", b"", b"# about %s\n" % ck]) + b"[%s.%s]" % (pk, ck) + cm())
            for j in range(rng.choice([0, 1, 1, 2])):
                vk = [b"v", b"version", b"w"][j]
                t.items.append([vk, Node("v", val="i:%d" % (i + j))])
                out.append(vk + b" = %d" % (i + j) + cm())
        if rng.random() < 0.5:
            out.append(b"")
    return b"\n".join(out) + b"\n", root, parents


def gen_unpositioned_history(rng, root, parents):
    """push 2-5 new [[parent.task]] elements and/or insert new tables, each followed by a nested table / value
    under the new element, interleaved with a few ordinary edits"""
    ref = Ref(clone(root))
    ops = []

    def do(f):
        try:
            ref.apply(f)
        except Exception:
            pass
        ops.append(",".join(f))

    def ordinary(k):
        for o in gen_ops(rng, None, k, ["ins", "ins", "rm", "sort", "fmt", "push", "arm"], ref=ref):
            ops.append(o)

    pk = rng.choice(parents)
    pp = [pk]
    for _ in range(rng.randrange(2, 6)):
        if rng.random() < 0.2:
            pk = rng.choice(parents)
            pp = [pk]
        pn = ref.root.get(pk)
        if pn is None or not pn.is_std():
            break
        if rng.random() < 0.75:
            a = pn.get(b"task")
            if a is None or a.kind != "A":
                do(["insaot", path_text(pp), seg_key(b"task")])        # one new (empty) element
                pn = ref.root.get(pk)
                a = pn.get(b"task") if (pn is not None and pn.is_std()) else None
            else:
                do(["tpush", path_text(pp + [b"task"])])
            if a is None or a.kind != "A" or not a.elems:
                continue
            ep = pp + [b"task", len(a.elems) - 1]
            if rng.random() < 0.8:
                do(["ins", path_text(ep), seg_key(b"name"), pv_text(("S", b"new%d" % len(ops)))])
            if rng.random() < 0.85:
                do(["instab", path_text(ep), seg_key(b"env")])
                if rng.random() < 0.8:
                    do(["ins", path_text(ep + [b"env"]), seg_key(b"id"), pv_text(("I", len(ops)))])
        else:
            nk = b"n%d" % len(ops)
            do(["instab", path_text(pp), seg_key(nk)])
            if rng.random() < 0.8:
                do(["instab", path_text(pp + [nk]), seg_key(b"sub")])
                do(["ins", path_text(pp + [nk, b"sub"]), seg_key(b"id"), pv_text(("I", len(ops)))])
        if rng.random() < 0.4:
            ordinary(rng.choice([1, 1, 2]))
    return ops


# ---- documents with dotted-key groups and sort_values_by histories -----------------------------------------
DOT_KEYS = [b"alpha", b"mid", b"zeta", b"beta", b"k1", b"k2", b"omega", b"b", b"a", b"z"]


def gen_dotted(rng):
    """tables (root, [standard], { inline }) whose key/value lines include groups of dotted keys `g.x = ..` with 2-5
    children (sometimes nested once more), in an order that is neither ascending nor descending; integer values with
    ties and non-integers, so that the `rank` comparator has ties to keep in place.  Returns (text, reference tree)"""
    def scalar():
        x = rng.random()
        if x < 0.6:
            v = rng.choice([1, 2, 3, 1, 2, 7, -1])
            return (b"%d" % v, Node("v", val="i:%d" % v))
        if x < 0.8:
            w = rng.choice([b"s", b"t", b"uv"])
            return (b'"' + w + b'"', Node("v", val="s:" + hx(w)))
        if x < 0.9:
            b_ = rng.random() < 0.5
            return (b"true" if b_ else b"false", Node("v", val="b:true" if b_ else "b:false"))
        return (b"[1, 2]", Node("a", elems=[Node("v", val="i:1"), Node("v", val="i:2")]))

    def body(inl, depth):
        """[(key path, text of value)], Node items (groups stored once, at the place of their first line)"""
        n_plain = rng.randrange(0, 4)
        n_groups = rng.choice([1, 1, 2]) if depth == 0 else rng.choice([0, 1])
        keys = rng.sample(DOT_KEYS, min(len(DOT_KEYS), n_plain + n_groups))
        entries, items = [], []
        for i, k in enumerate(keys):
            if i < n_groups:
                sub_lines, sub_items = [], []
                cks = rng.sample(DOT_KEYS, rng.randrange(2, 6))
                for ck in cks:
                    if depth == 0 and rng.random() < 0.2:
                        ls, its = body(inl, depth + 1)
                        if not ls:
                            continue
                        sub_lines += [((ck,) + kp, tx) for kp, tx in ls]
                        sub_items.append([ck, Node("t", items=its, inl=inl, dotted=True, implicit=True)])
                    else:
                        tx, nd = scalar()
                        sub_lines.append(((ck,), tx))
                        sub_items.append([ck, nd])
                if not sub_items:
                    continue
                entries.append([((k,) + kp, tx) for kp, tx in sub_lines])
                items.append([k, Node("t", items=sub_items, inl=inl, dotted=True, implicit=True)])
            else:
                tx, nd = scalar()
                entries.append([((k,), tx)])
                items.append([k, nd])
        order = list(range(len(entries)))
        rng.shuffle(order)
        flat = [l for i in order for l in entries[i]]
        return flat, [items[i] for i in order]

    cm = lambda: rng.choice([b"", b"", b"", b"  # c%d" % rng.randrange(100)])
    out = []
    root = Node("t", items=[])
    ls, its = body(False, 0)
    for kp, tx in ls:
        out.append(b".".join(kp) + b" = " + tx + cm())
    root.items += its
    if rng.random() < 0.7:
        ls, its = body(True, 0)
        if ls:
            k = b"inl"
            out.append(k + b" = { " + b", ".join(b".".join(kp) + b" = " + tx for kp, tx in ls) + b" }" + cm())
            root.items.append([k, Node("t", items=its, inl=True)])
    for ti in range(rng.choice([0, 1, 2])):
        tk = b"t%d" % ti
        out.append(b"")
        out.append(b"[" + tk + b"]" + cm())
        ls, its = body(False, 0)
        for kp, tx in ls:
            out.append(b".".join(kp) + b" = " + tx + cm())
        root.items.append([tk, Node("t", items=its)])
    return b"\n".join(out) + b"\n", root


WITNESSES = [
    (b"# c\na = 1 # x\nb = [1, 2] \n[t]\nk = { x = 1 }\n",
     "ins,r,k63,I5.;rm,r,k61;push,r/k62,S6869.;ins,r/k74/k6b,k79,T;arm,r/k62,0;instab,r,k6e;sort,r;fmt,r/k74;arm,r/k62,7"),
    # F13: a table assigned under an inline-table parent is dropped by the printer
    (b"t = {a = 1}\n", "iset,r/k74/k78,N;iset,r/k74/k78/k79,I1."),
    (b"a.b = 1\n[x.y]\nk = 1\n", "rm,r/k61,k62;rm,r/k78/k79,k6b;rm,r/k78,k79"),
    (b"[[a]]\nx = 1\n", "trm,r/k61,0"),
    (b"a = [ { x = 1 } , { y = 2 } ] # c\n[t]\nu.v = 1\n", "intoaot,r,k61;mkval,r,k74;intotab,r,k74;mkval,r,k61"),
    # C08-key-decor-in-header: the comment above the entry ends up inside the header brackets
    (b"# c\nc = { x = 1 }\n", "intotab,r,k63"),
    (b"# c\nc = { x = 1 }\n", "iset,r/k63,N"),
    (b"# c\nc = [ { x = 1 } ]\n", "intoaot,r,k63"),
    # C08-unpositioned-element-misplaced: [c.a] ends up under the second [[c]]
    (b"[[c]]\n[[c.b]]\n[c.a]\nx = 1\n", "tpush,r/k63;sort,r/k63/i0"),
    # sort_values_by: the comparator goes down into the dotted tables; ties (rank) keep their order
    (b"version = 1\nname = \"x\"\ndep.mid = 2\ndep.zeta = 3\ndep.alpha = 1\n", "sortby,r,kdesc;sortby,r,rank"),
    (b"t = { b = 2, g.y = 1, g.x = \"s\", g.z = 1, a = 2 }\n", "sortby,r/k74,rank;sortby,r/k74,kdesc"),
]


def gen_cases(rng, tier):
    quick = tier == "quick"
    out = []
    for text, ops in WITNESSES:
        out.append(mk_case(text, [o for o in ops.split(";") if o], "witness"))
    n_docs = 4000 if quick else 60000
    for _ in range(n_docs):
        text, tab = gen_doc(rng)
        root = tree_from_tab(tab)
        n_ops = rng.randrange(1, 13) if quick or rng.random() < 0.8 else rng.randrange(13, 40)
        ops = gen_ops(rng, root, n_ops, CORE_KINDS)
        out.append(mk_case(text, ops, "random", {"dump": G.dump_tab(tab)}))
    # many interleaved headers + position-less tables (the printer's sort must be stable)
    for _ in range(150 if quick else 6000):
        text, root, parents = gen_interleaved(rng)
        out.append(mk_case(text, gen_unpositioned_history(rng, root, parents), "interleaved"))
    # dotted-key groups x sort_values_by (the comparator must reach the dotted tables; ties stay in place)
    for _ in range(250 if quick else 8000):
        text, root = gen_dotted(rng)
        ops = gen_ops(rng, root, rng.randrange(1, 7), ["sortby", "sortby", "sortby", "sort", "ins", "rm", "fmt", "iset"])
        out.append(mk_case(text, ops, "dotted"))
    return out


def search(rng, ctx):
    return gen_cases(rng, "quick")


def shrink(case, il, why, run):
    """drop operations first, then lines of the document, while the case still fails outside the known classes"""
    text, ops = case.args[0], [o for o in case.args[1].decode().split(";") if o]

    def fails(c, l):
        if l.startswith(("PANIC", "CRASH", "TIMEOUT")):
            return "implementation crashed: " + l
        w, k, _ = analyse(c, l)
        return w if (w and not k) else None

    cur = (mk_case(text, ops, "shrunk"), il, why)
    changed = True
    while changed:
        changed = False
        text, ops = cur[0].args[0], [o for o in cur[0].args[1].decode().split(";") if o]
        cands = [mk_case(text, ops[:i] + ops[i + 1:], "shrunk") for i in range(len(ops))] if len(ops) > 1 else []
        ls = text.split(b"\n")
        if len(ls) > 1:
            cands += [mk_case(b"\n".join(ls[:i] + ls[i + 1:]), ops, "shrunk", {"valid": False}) for i in range(len(ls))]
        if not cands:
            break
        outs = run(cands)
        for c, l in zip(cands, outs):
            if l == "err":
                continue
            w = fails(c, l)
            if w:
                cur = (c, l, w)
                changed = True
                break
    return cur


def extra_coverage(cases, impl, model):
    kinds, applied, skipped, known = {}, 0, 0, {}
    for c, l in zip(cases, impl):
        if l is None or l.startswith(("PANIC", "CRASH", "TIMEOUT")) or l == "err":
            continue
        steps = l.split("|")[1:]
        for o, s in zip(split_ops(c.args[1].decode()), steps):
            d = kinds.setdefault(o[0], [0, 0])
            if s == "s":
                d[1] += 1
                skipped += 1
            else:
                d[0] += 1
                applied += 1
    return {"operations_applied": applied, "operations_skipped": skipped,
            "per_operation_applied_skipped": {k: tuple(v) for k, v in sorted(kinds.items())}}
