"""C10 — String and key quoting is exact for every string in every offered style."""
import itertools
from runner import Case

PROP = "C10"
TITLE = "String and key quoting is exact for every string in every offered style"
COQ_PROPS = "Props/C10.v"
DRIVER_NAME = "c10"
HARNESS = {"bin": "c10"}
EXTRA_HARNESS = {"dev": ("dev", ())}      # debug assertions + overflow checks: the u8 quote-run counters must saturate, not overflow
EXTRA_ORACLE = ["dev"]
THEOREMS = [
    "C10_value_styles: forall s st t, utf8_valid s -> write_string st s = Some t -> string_ reads t back as s consuming all of it, and Value::from_str's parser returns the string scalar s",
    "C10_key_styles: forall s st t, utf8_valid s -> write_key st s = Some t -> simple_key reads t back as s consuming all of it",
    "C10_default_total: forall s, write_string default s <> None /\\ write_key default s <> None",
    "C10_in_document: default key token ++ ' = ' ++ default value token ++ LF parses to the one-entry root table k -> string v",
    "C10_counters_saturate: the u8 quote-run counters of the metrics pass never exceed 255 (fixed defect: they overflowed at 256 quotes)",
]
RULE = ("exhaustive: all strings of length <= 4 (quick) / <= 6 (thorough) over one representative per byte class the "
        "encoder distinguishes (\", ', \\, LF, CR, tab, space, NUL, ESC, DEL, #, a, e-acute, U+1F600), each as a value "
        "(7 styles) and as a key (5 styles); random long strings (<= 40 symbols) with runs of 3..6 quotes of both kinds "
        "in the middle and at both ends; runs of 254..768 quotes (saturation of the u8 counters), also in a build with overflow checks; "
        "non-trivial = every case (each exercises at least the default and the basic style)")
ASSUMPTIONS = [
    "strings reach the builders as valid UTF-8 (&str); generated that way",
    "the u8 run counters saturate (repo commit 245f548); the same cases run in a release build and in a build with debug assertions and overflow checks",
    "Value::from_str / Key::from_str / DocumentMut::from_str are the observation points for the parsers",
]

ALPHABET = [b'"', b"'", b"\\", b"\n", b"\r", b"\t", b" ", b"\x00", b"\x1b", b"\x7f", b"#", b"a",
            "é".encode(), "\U0001F600".encode()]
VSTYLES = ["default", "literal", "ml_literal", "basic_pretty", "ml_basic_pretty", "basic", "ml_basic"]
KSTYLES = ["default", "unquoted", "literal", "basic_pretty", "basic"]


def gen_cases(rng, tier):
    out = []
    seen = set()

    def add(s, kind, keys=True):
        if s in seen:
            return
        seen.add(s)
        out.append(Case("wstr", [s], {"kind": kind}))
        if keys:
            out.append(Case("wkey", [s], {"kind": kind + "-key"}))

    maxlen = 4 if tier == "quick" else 6
    # keys: exhaustive one level lower than values (the key writer has no run counters)
    key_len = 3 if tier == "quick" else 5
    for n in range(0, maxlen + 1):
        for tup in itertools.product(ALPHABET, repeat=n):
            add(b"".join(tup), "exhaustive", keys=(n <= key_len))
    # hand-picked nasties
    for s in [b'"""', b"''", b"'''", b'a""', b'""', b'"', b"'", b"a\r\nb", b"\x00", b"\x7f", "\U0001F600".encode(), b"back\\",
              b'""""""', b"''''''", b'a"""""', b'"""""a', b"\n", b"\n\n", b'\n"""', b"'''\n", b'"\'"\'"\'', b"bare-Key_09",
              b"a.b", b" ", b"\t", b"#", b"=", b"k = v", b'\\"', b"\\'", b"\\\\", b'""\\', b"\x08\x0c", b"\x1f\x7f"]:
        add(s, "nasty")
    # random long strings with quote runs
    n_rand = 3000 if tier == "quick" else 200000
    filler = [b"a", b" ", b"\\", b"\n", b"\t", b"#", "é".encode(), "\U0001F600".encode(), b"\r", b"\x00", b"-", b"_", b"Z", b"7"]
    for _ in range(n_rand):
        parts = []
        n = rng.randrange(1, 41)
        quiet = rng.random() < 0.5          # half of the strings avoid control characters so literal styles are offered
        kinds = rng.choice([(b'"',), (b"'",), (b'"', b"'")])
        while len(parts) < n:
            r = rng.random()
            if r < 0.35:
                q = rng.choice(kinds)
                parts.extend([q] * rng.choice((1, 2, 3, 3, 4, 5, 6, 7)))
            else:
                parts.append(rng.choice(filler[:8] if quiet else filler))
        s = b"".join(parts)
        if rng.random() < 0.3:
            s = rng.choice(kinds) * rng.choice((1, 2, 3, 4, 5, 6)) + s
        if rng.random() < 0.3:
            s = s + rng.choice(kinds) * rng.choice((1, 2, 3, 4, 5, 6))
        add(s, "random-runs", keys=(rng.random() < 0.25))
    # saturation of the u8 run counters: these must still round-trip (and not overflow in a checked build)
    for q in (b'"', b"'"):
        for n in (254, 255, 256, 257, 258, 511, 512, 513, 768):
            add(q * n, "wrap", keys=False)
            add(b"a" + q * n, "wrap", keys=False)
            add(q * n + b"a", "wrap", keys=False)
            add(q * n + b"\n" + q * 3, "wrap", keys=False)
    return out


def parse(line):
    """'name=tok,rt,doc name=none ...' -> {name: None | (tok, rt, doc)}"""
    res = {}
    for part in line.split(" "):
        name, _, val = part.partition("=")
        if val == "none":
            res[name] = None
        else:
            f = val.split(",")
            if len(f) != 3:
                return None
            res[name] = tuple(f)
    return res


def oracle(case, line):
    if line.startswith("IMPLDIFF"):
        return "an entry point of toml_write writes this string differently from the default style of the builder: %s" % line[:300]
    styles = VSTYLES if case.cmd == "wstr" else KSTYLES
    f = parse(line)
    if f is None or sorted(f) != sorted(styles):
        return "malformed observation line: %s" % line[:200]
    if f["default"] is None:
        return "no default style offered"
    for st in styles:
        if f[st] is None:
            continue
        tok, rt, doc = f[st]
        if rt != "ok" or doc != "ok":
            what = "value" if case.cmd == "wstr" else "key"
            t = bytes.fromhex(tok).decode("utf-8", "replace") if tok != "-" else ""
            return "%s style %s wrote %r for %r: alone=%s in-document=%s" % (what, st, t[:80], case.args[0][:80], rt, doc)
    return None


def nontrivial(case, line):
    return True


def extra_coverage(cases, impl, model):
    offered = {}
    for c, l in zip(cases, impl):
        f = parse(l) if l and not l.startswith(("PANIC", "CRASH")) else None
        if not f:
            continue
        for st, v in f.items():
            if v is not None:
                k = ("value:" if c.cmd == "wstr" else "key:") + st
                offered[k] = offered.get(k, 0) + 1
    return {"styles_offered_and_round_tripped": offered}


def search(rng, ctx):
    pre = []
    for c, il, ml, d in ctx["divergences"][:50]:
        pre.append(c)
        s = c.args[0]
        for i in range(len(s) + 1):
            for a in ALPHABET:
                pre.append(Case(c.cmd, [s[:i] + a + s[i:]], {"kind": "neighbour"}))
    return pre + gen_cases(rng, "thorough" if len(pre) == 0 else "quick")


def _valid_utf8(b):
    try:
        b.decode("utf-8")
        return True
    except UnicodeDecodeError:
        return False


def shrink(case, il, why, run):
    cur, cur_il, cur_why = case, il, why
    changed = True
    while changed:
        changed = False
        s = cur.args[0]
        cands = [Case(cur.cmd, [s[:i] + s[j:]], cur.meta) for i in range(len(s)) for j in (i + 1, i + 2, i + 4) if j <= len(s)]
        cands = [c for c in cands if _valid_utf8(c.args[0])][:400]
        if not cands:
            break
        outs = run(cands)
        for c, l in zip(cands, outs):
            w = "crash" if (l is None or l.startswith("PANIC") or l.startswith("CRASH")) else oracle(c, l)
            if w:
                cur, cur_il, cur_why = c, l, w
                changed = True
                break
    return cur, cur_il, cur_why
