"""C19 — The toml! macro builds the same table as parsing the same text.

Every case is one TOML document drawn as abstract statements WITH their spelling choices (the `astmt` of
coq/Spec/MacroSpec.v), restricted to spellings rustc tokenises the way MacroSpec.tokens_of says.
The same rendered text is embedded twice in a generated Rust program (/verif/harness_macro is the template;
the generated crate lives in /verif/build/c19/crate): inside `toml::toml!{ ... }` and as a string literal
parsed at run time with `str::parse::<toml::Table>()`.  The program is compiled offline against the working
tree of /repo and prints, per document, a key-sorted dump of both tables.

  oracle          macro dump == runtime-parse dump (judged on the real code only)
  correspondence  the extracted Coq model (driver_c19 `macro <serialised statements>`) prints
                  `supported=<b> macro=<dump> ref=<dump>`; the line assembled from the Rust program's output
                  must be byte-identical (floats through lib/floatnorm.py)

The generic runner feeds the case lines to the `core` harness binary as well (it answers `unknown-command`);
that line is ignored: the implementation's observation for a case comes from the generated program and is
kept in `case.meta["impl"]` (recomputed by compiling a one-document program when a case is replayed).
"""
import fcntl, hashlib, os, random, re, shutil, struct

import common
import floatnorm
import gen_toml as G
from runner import Case

PROP = "C19"
TITLE = "The toml! macro builds the same table as parsing the same text"
COQ_PROPS = "Props/C19.v"
DRIVER_NAME = "c19"
HARNESS = {"bin": "core"}

TEMPLATE = os.path.join(common.VERIF, "harness_macro")
WORK = os.path.join(common.BUILD, "c19")

N_DOCS = {"quick": 4000, "thorough": 30000}
PER_PROGRAM = 400


# ---------------------------------------------------------------------------------------------
# spelled statements  (mirror of Spec/MacroSpec.v)
#   path  = [seg]      seg = ('q', bytes) | ('b', [('i', bytes) | ('n', bytes)])
#   value = ('s', bytes) | ('i', sign, text) | ('f', sign, text) | ('x', sign, 'n'|'i') | ('T',) | ('F',)
#         | ('d', dt) | ('a', trailing, [value]) | ('l', [(path, value)])
#   dt    = (date|None, delim, time|None, off)   date = (y, m, d) texts; time = (hh, mi, ss, frac|None)
#           off = None | ('z', b'Z'|b'z') | ('o', neg, hh, mm)
#   stmt  = ('H', path) | ('A', path) | ('K', path, value)
# ---------------------------------------------------------------------------------------------
def _n(k):
    return b"%d;" % k


def _s(b):
    return _n(len(b)) + b


def ser_path(p):
    out = _n(len(p))
    for seg in p:
        if seg[0] == "q":
            out += b"q" + _s(seg[1])
        else:
            out += b"b" + _n(len(seg[1])) + b"".join((b"i" if t == "i" else b"n") + _s(s) for t, s in seg[1])
    return out


def ser_dt(d):
    date, delim, time, off = d
    out = (b"D" + _s(date[0]) + _s(date[1]) + _s(date[2])) if date else b"_"
    out += delim
    if time:
        out += b"t" + _s(time[0]) + _s(time[1]) + _s(time[2]) + ((b"." + _s(time[3])) if time[3] is not None else b"_")
    else:
        out += b"_"
    if off is None:
        out += b"_"
    elif off[0] == "z":
        out += b"z" + off[1]
    else:
        out += b"o" + (b"-" if off[1] else b"+") + _s(off[2]) + _s(off[3])
    return out


SIGN = {"": b"0", "+": b"+", "-": b"-"}


def ser_val(v):
    k = v[0]
    if k == "s":
        return b"s" + _s(v[1])
    if k in ("i", "f"):
        return k.encode() + SIGN[v[1]] + _s(v[2])
    if k == "x":
        return b"x" + SIGN[v[1]] + v[2].encode()
    if k in ("T", "F"):
        return k.encode()
    if k == "d":
        return b"d" + ser_dt(v[1])
    if k == "a":
        return b"a" + (b"1" if v[1] else b"0") + _n(len(v[2])) + b"".join(ser_val(e) for e in v[2])
    if k == "l":
        return b"l" + _n(len(v[1])) + b"".join(ser_path(p) + ser_val(e) for p, e in v[1])
    raise ValueError(k)


def ser_doc(stmts):
    out = _n(len(stmts))
    for st in stmts:
        out += st[0].encode() + ser_path(st[1]) + (ser_val(st[2]) if st[0] == "K" else b"")
    return out


# ---- text (read by rustc's lexer inside toml!{} and by the TOML parser from the string) ----
BIDI = set(range(0x202A, 0x202F)) | set(range(0x2066, 0x206A))


def string_text(rng, b):
    """a basic string both languages read as the same value: plain characters and the escapes
    \\n \\t \\r \\\\ \\" (a tab may also stand for itself)"""
    out = ['"']
    for ch in b.decode("utf-8"):
        o = ord(ch)
        if ch == '"':
            out.append('\\"')
        elif ch == "\\":
            out.append("\\\\")
        elif ch == "\n":
            out.append("\\n")
        elif ch == "\r":
            out.append("\\r")
        elif ch == "\t":
            out.append("\\t" if rng.random() < 0.5 else "\t")
        else:
            assert o >= 0x20 and o != 0x7f and o not in BIDI, "unspellable character %r" % ch
            out.append(ch)
    out.append('"')
    return "".join(out)


def path_text(rng, p):
    segs = []
    for seg in p:
        if seg[0] == "q":
            segs.append(string_text(rng, seg[1]))
        else:
            segs.append("-".join(s.decode() for _, s in seg[1]))
    return ".".join(segs)


def dt_text(d):
    date, delim, time, off = d
    out = ""
    if date:
        out += "-".join(x.decode() for x in date)
    if date and time:
        out += delim.decode()
    if time:
        out += ":".join(x.decode() for x in time[:3])
        if time[3] is not None:
            out += "." + time[3].decode()
        if off is not None:
            out += off[1].decode() if off[0] == "z" else ("-" if off[1] else "+") + off[2].decode() + ":" + off[3].decode()
    return out


def val_text(rng, v):
    k = v[0]
    if k == "s":
        return string_text(rng, v[1])
    if k in ("i", "f"):
        return v[1] + v[2].decode()
    if k == "x":
        return v[1] + ("nan" if v[2] == "n" else "inf")
    if k == "T":
        return "true"
    if k == "F":
        return "false"
    if k == "d":
        return dt_text(v[1])
    if k == "a":
        sp = rng.choice(["", " "])
        body = ("," + rng.choice(["", " "])).join(val_text(rng, e) for e in v[2])
        return "[" + sp + body + ("," if v[1] else "") + sp + "]"
    if k == "l":
        sp = rng.choice(["", " "])
        body = ("," + rng.choice(["", " "])).join(path_text(rng, p) + rng.choice([" = ", "=", "= "]) + val_text(rng, e) for p, e in v[1])
        return "{" + sp + body + sp + "}"
    raise ValueError(k)


def doc_text(rng, stmts):
    lines = []
    for st in stmts:
        if st[0] == "H":
            lines.append("[" + path_text(rng, st[1]) + "]")
        elif st[0] == "A":
            lines.append("[[" + path_text(rng, st[1]) + "]]")
        else:
            lines.append(path_text(rng, st[1]) + rng.choice([" = ", " = ", "=", " ="]) + val_text(rng, st[2]))
    return "\n".join(lines) + "\n"


# ---------------------------------------------------------------------------------------------
# generator: gen_toml.TreeGen (valid by construction; dotted keys, inline tables, headers, arrays of tables,
# a super-table's header after its sub-tables') over a vocabulary the macro supports, then spelled
# ---------------------------------------------------------------------------------------------
IDENT = re.compile(rb"^[A-Za-z_][A-Za-z0-9_]*$")
INTKEY = re.compile(rb"^(0|[1-9][0-9]*)$")

KEYS_BARE = [b"a", b"b", b"c", b"key", b"_x", b"x1", b"k-1", b"a-b", b"dev-dependencies", b"crates-io", b"1", b"42", b"0",
             b"1979", b"1-2", b"x-1-y", b"a_b-c", b"fn", b"type", b"self", b"Self", b"crate", b"true", b"false", b"inf", b"nan",
             b"T", b"Z", b"e5", b"E", b"r", b"br", b"__", b"_1", b"u8", b"f64", b"1-a", b"2147483648", b"99999999999999999999"]
KEYS_QUOTED = [b"", b"a b", b"a.b", "é".encode(), b'q"q', b"back\\slash", b"05", b"1_000", b"0x10", b"1e5", b"1.5", b"-x", b"x-",
               b"a--b", "日本".encode(), b"tab\there", b"new\nline", b"#h", b"=", b"[t]", b"_", b"1979-05-27", b"-", b" ", b"'s'",
               "😀".encode(), b"cfg(windows)", b"\r"]
STRINGS = [b"", b"hello", b"with space", b'"quoted"', b"it's", b"back\\slash", b"tab\there", b"line1\nline2", b"\nlead",
           b"crlf\r\nhere", "é ü 日本 😀".encode(), b"'''", b'"""', b"#not comment", b"a=b", b"[x]", b"trailing\\", b"  ",
           b"{}", b"{0}", b"\\u0041", b"\\n", b"1979-05-27", b"true", b"$x", b"/* c */", b"// c", b"r#\"raw\"#", b"\\", b'\\"']


def bare_parts(k):
    """the parts of a key written bare, or None when it cannot be (for the macro)"""
    if k == b"":
        return None
    parts = []
    for p in k.split(b"-"):
        if IDENT.match(p) and p != b"_":
            parts.append(("i", p))
        elif INTKEY.match(p):
            parts.append(("n", p))
        else:
            return None
    return parts


class MGen(G.TreeGen):
    def key(self):
        r = self.rng
        if self.small:
            return r.choice([b"a", b"b", b"c", b"1"])
        x = r.random()
        if x < 0.45:
            return r.choice(KEYS_BARE[:8])
        if x < 0.75:
            return r.choice(KEYS_BARE)
        if x < 0.92:
            return r.choice(KEYS_QUOTED)
        n = r.randrange(1, 6)
        return bytes(r.choice(b"abcxyz_-019") for _ in range(n))

    def string(self):
        r = self.rng
        x = r.random()
        if x < 0.5:
            return r.choice(STRINGS)
        if x < 0.8:
            n = r.randrange(0, 12)
            return bytes(r.choice(b"ab \"'\\\n\t\r#=[]{}.,_-0") for _ in range(n))
        out = []
        for _ in range(r.randrange(0, 8)):
            while True:
                c = r.choice([r.randrange(0x20, 0x7f), 9, 10, r.randrange(0x80, 0x800), r.randrange(0x800, 0xd800),
                              r.randrange(0xe000, 0x10000), r.randrange(0x10000, 0x110000)])
                if c not in BIDI:
                    break
            out.append(chr(c))
        return "".join(out).encode("utf-8")

    # ---- spelled scalars ----
    def us(self, digits):
        """sprinkle single underscores between digits"""
        r = self.rng
        if len(digits) < 2 or r.random() < 0.7:
            return digits
        out = digits[0]
        for ch in digits[1:]:
            out += ("_" if r.random() < 0.3 else "") + ch
        return out

    def int_value(self):
        r = self.rng
        n = r.choice([0, 1, 7, 42, 255, 1000, 65536, 1000000, 2 ** 31 - 1, 2 ** 31 - 2, r.randrange(2 ** 31), r.randrange(1000),
                      2 ** r.randrange(0, 31)])
        x = r.random()
        if x < 0.6:
            sign = r.choice(["", "", "+", "-", "-"])
            if sign == "-" and r.random() < 0.4:          # a negative integer is an i64 in the macro (macros::number)
                n = r.choice([2 ** 31, 2 ** 31 + 1, 2 ** 32, 3000000000, 2 ** 63, 2 ** 63 - 1, r.randrange(2 ** 31, 2 ** 63 + 1),
                              2 ** r.randrange(31, 64)])
            return ("i", sign, self.us(str(n)).encode())
        if x < 0.75:
            h = "%x" % n
            h = "".join(c.upper() if r.random() < 0.3 else c for c in h)
            return ("i", "", ("0x" + self.us(h)).encode())
        if x < 0.88:
            return ("i", "", ("0o" + self.us("%o" % n)).encode())
        return ("i", "", ("0b" + self.us(format(n, "b"))).encode())

    def float_value(self):
        r = self.rng
        x = r.random()
        sign = r.choice(["", "", "+", "-", "-"])
        if x < 0.15:
            return ("x", sign, r.choice("ni"))
        if x < 0.4:
            t = r.choice(["0.0", "1.0", "3.14", "0.01", "5e+22", "1e06", "2E-2", "6.626e-34", "224_617.445_991_228", "1e308",
                          "1.7976931348623157e308", "4.9e-324", "1e-400", "0e0", "0e-0", "9_007_199_254_740_993.0", "0.1",
                          "1.0e0", "1.5E3", "1e1_0", "0.000_1", "2.2250738585072011e-308", "123456789012345678901234567890.0"])
            return ("f", sign, t.encode())
        ip = self.us(str(r.choice([0, 1, 7, 10, 123, 99999, r.randrange(0, 10 ** r.randrange(1, 18))])))
        frac = "." + self.us("".join(r.choice("0123456789") for _ in range(r.randrange(1, 8))))
        ex = r.choice("eE") + r.choice(["", "+", "-"]) + self.us(str(r.choice([0, 1, 5, 22, 200, r.randrange(0, 280)])))
        return ("f", sign, (ip + r.choice([frac, ex, frac + ex])).encode())

    def dt_value(self):
        r = self.rng
        y = r.choice([0, 1979, 2000, 2024, 9999, r.randrange(10000)])
        m = r.randrange(1, 13)
        mdays = [31, 29 if (y % 4 == 0 and (y % 100 != 0 or y % 400 == 0)) else 28, 31, 30, 31, 30, 31, 31, 30, 31, 30, 31][m - 1]
        d = r.choice([1, mdays, r.randrange(1, mdays + 1)])
        date = (b"%04d" % y, b"%02d" % m, b"%02d" % d)
        frac = None
        if r.random() < 0.5:
            frac = r.choice(["0", "5", "25", "999999", "999999999", "000000001", "123456789123", "1234567891",
                             "".join(r.choice("0123456789") for _ in range(r.randrange(1, 13)))]).encode()
        time = (b"%02d" % r.choice([0, 23, r.randrange(24)]), b"%02d" % r.choice([0, 59, r.randrange(60)]),
                b"%02d" % r.choice([0, 59, 60, r.randrange(60)]), frac)
        shape = r.randrange(5)
        delim = r.choice([b"T", b"T", b" ", b" ", b"t"])
        if shape <= 1:      # offset date-time
            if r.random() < 0.4:
                off = ("z", r.choice([b"Z", b"Z", b"z"]))
            else:
                h, mi = r.choice([(0, 0), (7, 0), (23, 59), (r.randrange(24), r.randrange(60))])
                off = ("o", True, b"%02d" % h, b"%02d" % mi)
            return ("d", (date, delim, time, off))
        if shape == 2:
            return ("d", (date, delim, time, None))
        if shape == 3:
            return ("d", (date, b"T", None, None))
        return ("d", (None, b"T", time, None))

    def scalar(self):
        r = self.rng
        k = r.randrange(7)
        if k == 0:
            return ("s", self.string())
        if k in (1, 2):
            return self.int_value()
        if k == 3:
            return self.float_value()
        if k == 4:
            return ("T",) if r.random() < 0.5 else ("F",)
        return self.dt_value()


def spell_path(rng, keys):
    segs = []
    for k in keys:
        parts = bare_parts(k)
        if parts is not None and rng.random() < 0.85:
            segs.append(("b", parts))
        else:
            segs.append(("q", k))
    # rustc's lexer: an integer followed by `.` and something that does not start an identifier is a float
    # literal (`1.2`, `1."x"`): MacroSpec.path_ok excludes such paths; spell the integer quoted instead
    for i in range(len(segs) - 2, -1, -1):        # right to left: quoting a segment changes what its left neighbour sees
        a, b = segs[i], segs[i + 1]
        if a[0] == "b" and a[1][-1][0] == "n" and not (b[0] == "b" and b[1][0][0] == "i"):
            segs[i] = ("q", keys[i])
    return segs


def spell_value(rng, v):
    if v[0] == "a":
        elems = [spell_value(rng, e) for e in v[1]]
        return ("a", bool(elems) and rng.random() < 0.3, elems)
    if v[0] == "t":
        return ("l", [(spell_path(rng, p), spell_value(rng, e)) for p, e in v[1]])
    if v[0] == "i" and len(v) == 2:                       # values gen_toml.perturb adds
        return ("i", "-" if v[1] < 0 else "", str(abs(v[1])).encode())
    if v[0] == "b":
        return ("T",) if v[1] else ("F",)
    return v


def spell(rng, abstract):
    out = []
    for st in abstract:
        if st[0] == "kv":
            out.append(("K", spell_path(rng, st[1]), spell_value(rng, st[2])))
        else:
            out.append(("H" if st[0] == "hdr" else "A", spell_path(rng, st[1])))
    return out


def n_tokens(text):
    return len(re.findall(r'"(?:[^"\\]|\\.)*"|[A-Za-z0-9_.]+|\S', text))


def loose_statements(rng, tg):
    """headers, array-of-tables headers and key/values over a tiny key pool in random order (kept only when the
    reference interpreter calls the result valid): super-tables declared after their sub-tables, sub-tables of
    array elements, the same names used as table, array and value in different places"""
    pool = [b"a", b"b", b"c", b"1", b"k-1", b"a b"]
    out = []
    for _ in range(rng.randrange(2, 9)):
        x = rng.random()
        path = [rng.choice(pool[:rng.choice([2, 3, 6])]) for _ in range(rng.choice([1, 1, 2, 2, 3]))]
        if x < 0.45:
            cand = ("hdr", path)
        elif x < 0.7:
            cand = ("aot", path)
        else:
            cand = ("kv", path[-2:], tg.value(2) if rng.random() < 0.8 else tg.value(1))
        if G.ref_eval(out + [cand])[0] == "valid":
            out.append(cand)
        elif x < 0.45 and len(path) > 1 and G.ref_eval(out + [("hdr", path[:-1])])[0] == "valid":
            out.append(("hdr", path[:-1]))              # the super-table of something already there
    return out


def gen_doc(rng, max_tokens=260, perturb_p=0.08):
    """-> (statements, text, claimed valid)"""
    while True:
        tg = MGen(rng, small_keys=rng.random() < 0.25, max_depth=rng.choice([1, 2, 2, 3]))
        st = loose_statements(rng, tg) if rng.random() < 0.3 else tg.statements(tg.tree())
        if not st:
            continue
        if rng.random() < perturb_p:
            st = tg.perturb(st)                           # usually one definition-rule breach: correspondence only
        verdict = G.ref_eval(st)[0]
        if verdict == "undecided":
            continue
        stmts = spell(rng, st)
        text = doc_text(rng, stmts)
        if n_tokens(text) > max_tokens:
            continue
        return stmts, text, verdict == "valid"


# hand-written documents (statements given by their spelling): the shapes named in the property text
def _p(*segs):
    out = []
    for s in segs:
        if isinstance(s, str):
            s = s.encode()
        parts = bare_parts(s)
        out.append(("b", parts) if parts is not None else ("q", s))
    return out


def _q(s):
    return ("q", s.encode() if isinstance(s, str) else s)


def _i(text, sign=""):
    return ("i", sign, text.encode())


def _dt(date=None, delim="T", time=None, off=None):
    d = tuple(x.encode() for x in date.split("-")) if date else None
    t = None
    if time:
        hms, _, fr = time.partition(".")
        t = tuple(x.encode() for x in hms.split(":")) + ((fr.encode() if fr else None),)
    o = None
    if off in ("Z", "z"):
        o = ("z", off.encode())
    elif off:
        o = ("o", off[0] == "-", off[1:3].encode(), off[4:6].encode())
    return ("d", (d, delim.encode(), t, o))


FIXED = [
    [("K", _p("a"), _i("1"))],
    [("H", _p("a", "b")), ("K", _p("x"), _i("1")), ("H", _p("a")), ("K", _p("y"), _i("2"))],          # super-table after sub-table (b3ebafc)
    [("H", _p("a", "b", "c")), ("H", _p("a", "b")), ("K", _p("x"), _i("1")), ("H", _p("a")), ("K", _p("y"), _i("2")), ("H", _p("a", "d"))],
    [("K", _p("a"), _i("0x1f")), ("K", _p("b"), _i("0o17")), ("K", _p("c"), _i("0b101")), ("K", _p("d"), _i("1_000"))],
    [("K", _p("a"), _i("2147483648", "-")), ("K", _p("b"), _i("2147483647")), ("K", _p("c"), _i("2147483647", "+")), ("K", _p("d"), _i("0", "-"))],
    [("K", _p("a"), _dt("1979-05-27", "T", "07:32:00", "Z"))],
    [("K", _p("a"), _dt("1979-05-27", " ", "07:32:00", "z"))],
    [("K", _p("a"), _dt("1979-05-27", "t", "07:32:00.999999", "-07:00"))],
    [("K", _p("a"), _dt("1979-05-27", " ", "07:32:00.5", "-07:00"))],
    [("K", _p("a"), _dt("1979-05-27", "T", "07:32:00.5", "Z"))],
    [("K", _p("a"), _dt("1979-05-27", "T", "07:32:00", "-00:00")), ("K", _p("b"), _dt("1979-05-27", " ", "07:32:00", "-23:59"))],
    [("K", _p("a"), _dt(None, "T", "07:32:00.5")), ("K", _p("b"), _dt(None, "T", "07:32:00")), ("K", _p("c"), _dt("1979-05-27"))],
    [("K", _p("a"), _dt("1979-05-27", "T", "07:32:00.123456789123", "Z")), ("K", _p("b"), _dt("1979-05-27", " ", "07:32:00.123456789123"))],
    [("K", _p("a"), ("a", True, [_dt("1979-05-27"), _dt(None, "T", "07:32:00"), _dt("1979-05-27", "T", "07:32:00"),
                                 _dt("1979-05-27", " ", "07:32:00.25", "-00:00"), _dt("1979-05-27", " ", "07:32:00", "Z")]))],
    [("K", _p("a"), ("l", [(_p("x"), _dt("1979-05-27")), (_p("y", "z"), _i("1", "-")), (_p("w"), ("f", "+", b"1.5")),
                           (_p("t"), _dt("1979-05-27", " ", "07:32:00.5", "-07:00")), (_p("u"), _dt(None, "T", "00:00:00.000"))]))],
    [("K", _p("a"), ("x", "-", "i")), ("K", _p("b"), ("x", "+", "i")), ("K", _p("c"), ("x", "", "i")),
     ("K", _p("d"), ("x", "", "n")), ("K", _p("e"), ("x", "-", "n")), ("K", _p("f"), ("x", "+", "n"))],
    [("K", _p("a"), ("a", False, [("x", "-", "i"), ("x", "+", "i"), ("x", "", "i"), ("x", "", "n"), ("x", "-", "n"), ("x", "+", "n"),
                                  _i("1", "-"), _i("1", "+"), ("f", "-", b"1.5e3"), ("f", "+", b"0.0"), ("f", "-", b"0.0")]))],
    [("K", _p("a-b"), _i("1")), ("K", [_q("q k")] + _p("c-d") + [_q("e")], _i("2")), ("K", _p("1"), _i("3")), ("K", _p("true"), _i("4"))],
    [("A", _p("a")), ("K", _p("x"), _i("1")), ("A", _p("a")), ("K", _p("x"), _i("2")), ("H", _p("a", "b")), ("K", _p("y"), _i("3")),
     ("A", _p("a", "c")), ("A", _p("a", "c")), ("K", _p("z"), _i("1"))],
    [("K", _p("a"), ("s", "x\ny\t\\ \" \r é".encode()))],
    [("K", _p("a"), ("f", "", b"1e6")), ("K", _p("b"), ("f", "", b"1E6")), ("K", _p("c"), ("f", "", b"1e+6")), ("K", _p("d"), ("f", "", b"1.0e-2")),
     ("K", _p("e"), ("f", "", b"1_0.0_1")), ("K", _p("f"), ("f", "", b"1e0_6"))],
    [("K", _p("a"), ("T",)), ("K", _p("b"), ("F",))],
    [("K", _p("a"), ("l", [])), ("K", _p("b"), ("a", False, [])),
     ("K", _p("c"), ("a", True, [("a", False, []), ("l", []), ("a", False, [("l", [])])])),
     ("K", _p("d"), ("l", [(_p("x"), ("l", [])), (_p("y"), ("a", False, []))]))],
    [("K", _p("fn"), _i("1")), ("K", _p("type"), _i("2")), ("K", _p("self"), _i("3")), ("K", _p("Self"), _i("4")), ("K", _p("crate"), _i("5"))],
    [("K", _p("a", "1"), _i("1")), ("K", _p("a", "2", "b"), _i("2")), ("K", _p("a", "3", "e5"), _i("3"))],
    [("H", [_q("")]), ("K", [_q("")], ("s", b"")), ("A", [_q(""), _q("a.b")]), ("K", _p("x"), ("a", False, [("l", [(_p("k"), ("s", b"v"))])]))],
    # negative integers beyond i32 (repaired by `macros::number`: they used to wrap), down to i64::MIN
    [("K", _p("a"), _i("2147483649", "-")), ("K", _p("b"), _i("4294967296", "-")), ("K", _p("c"), _i("9223372036854775808", "-")),
     ("K", _p("d"), ("a", False, [_i("3000000000", "-"), _i("1", "-"), ("f", "-", b"1.5"), _i("0", "-")])),
     ("K", _p("e"), ("l", [(_p("x"), _i("9223372036854775807", "-")), (_p("y"), _i("2_147_483_649", "-"))]))],
    [("H", _p("target", "cfg(windows)", "dependencies")), ("K", _p("winapi"), ("l", [(_p("version"), ("s", b"0.3")), (_p("features"), ("a", False, [("s", b"x")]))]))],
]

# spellings that compile but are outside `macro_supported`: the macro and the parser differ (Props/C19.v
# `C19_int_key_refuted`).  They run for the model/implementation correspondence only.
UNSUPPORTED = [
    [("K", [("b", [("n", b"05")])], _i("1"))],                 # concat! prints the integer literal by value: key "5"
    [("K", [("b", [("n", b"1_000")])], _i("1"))],              # key "1000"
    [("K", [("b", [("n", b"0x10")])], _i("1"))],               # key "16"
    [("K", [("b", [("n", b"1979"), ("n", b"05"), ("n", b"27")])], _i("1"))],   # key "1979-5-27"
]


# ---------------------------------------------------------------------------------------------
# the generated program
# ---------------------------------------------------------------------------------------------
def rust_str(text):
    out = ['"']
    for ch in text:
        o = ord(ch)
        if ch == '"' or ch == "\\":
            out.append("\\" + ch)
        elif ch == "\n":
            out.append("\\n")
        elif 0x20 <= o < 0x7f:
            out.append(ch)
        else:
            out.append("\\u{%x}" % o)
    out.append('"')
    return "".join(out)


def program(texts):
    out = ["// generated by lib/props/c19.py; do not edit\n\n"]
    for i, t in enumerate(texts):
        out.append("fn m%d() -> toml::Table {\n    toml::toml! {\n" % i)
        for line in t.split("\n"):
            if line:
                out.append("        " + line + "\n")
        out.append("    }\n}\n")
    out.append("\npub static CASES: &[(fn() -> toml::Table, &str)] = &[\n")
    for i, t in enumerate(texts):
        out.append("    (m%d, %s),\n" % (i, rust_str(t)))
    out.append("];\n")
    return "".join(out)


# ---------------------------------------------------------------------------------------------
# the rule table of toml_internal!, read from the source: heads in source order, and for every body its kind
# (+ the arguments of the re-invocation).  It must equal the table Model/Macro.v `rules` is written from
# (`rules -` of the extracted model); the Rust code inside the bodies and the helper functions below the
# macro are compared with a committed digest (they are modelled by hand: a change means "re-inspect").
# ---------------------------------------------------------------------------------------------
MACROS_RS = os.path.join("crates", "toml", "src", "macros.rs")
CODE_DIGEST = "b1cd657d864995e5554044093eb432342b3199fd"


def strip_comments(src):
    out = []; i = 0; n = len(src)
    while i < n:
        c = src[i]
        if c == '"':
            j = i + 1
            while j < n and src[j] != '"':
                j += 2 if src[j] == "\\" else 1
            out.append(src[i:j + 1]); i = j + 1
        elif src.startswith("//", i):
            j = src.find("\n", i); j = n if j < 0 else j
            i = j
        else:
            out.append(c); i += 1
    return "".join(out)

OPEN = {"(": ")", "[": "]", "{": "}"}

def match_close(s, i):
    """s[i] is an opening bracket; index of its closing partner (string literals skipped)"""
    depth = 0; n = len(s)
    while i < n:
        c = s[i]
        if c == '"':
            i += 1
            while s[i] != '"':
                i += 2 if s[i] == "\\" else 1
        elif c in "([{":
            depth += 1
        elif c in ")]}":
            depth -= 1
            if depth == 0:
                return i
        i += 1
    raise ValueError("unbalanced")

def parse_seq(s):
    """macro pattern / template text -> nodes"""
    nodes = []; i = 0; n = len(s)
    while i < n:
        c = s[i]
        if c.isspace():
            i += 1
        elif c == "$":
            if s[i + 1] == "(":
                j = match_close(s, i + 1)
                inner = parse_seq(s[i + 2:j])
                k = j + 1
                if s[k] in "+*":
                    sep, op = "", s[k]; k += 1
                else:
                    sep, op = s[k], s[k + 1]; k += 2
                    assert op in "+*", s[i:k]
                nodes.append(("rep", inner, sep, op)); i = k
            else:
                m = re.match(r"[A-Za-z_][A-Za-z_0-9]*", s[i + 1:])
                name = m.group(0); k = i + 1 + len(name)
                m2 = re.match(r":([a-z]+)", s[k:])
                if m2:
                    nodes.append(("var", name, m2.group(1))); k += len(m2.group(0))
                else:
                    nodes.append(("var", name, None))
                i = k
        elif c in "([{":
            j = match_close(s, i)
            nodes.append(("group", c, parse_seq(s[i + 1:j]))); i = j + 1
        elif c.isalnum() or c == "_":
            m = re.match(r"[A-Za-z_0-9]+", s[i:])
            nodes.append(("ident", m.group(0))); i += len(m.group(0))
        else:
            nodes.append(("punct", c)); i += 1
    return nodes

def show(node, tpl):
    k = node[0]
    if k == "ident" or k == "punct":
        return node[1]
    if k == "var":
        return "$" + node[1] + ((":" + node[2]) if (node[2] and not tpl) else "")
    if k == "group":
        return node[1] + "".join(" " + show(x, tpl) for x in node[2]) + " " + OPEN[node[1]]
    return "$(" + "".join(" " + show(x, tpl) for x in node[1]) + " )" + node[2] + ("" if tpl else node[3])

def show_seq(nodes, tpl):
    return " ".join(show(x, tpl) for x in nodes)

def invocations(body):
    """argument texts of every `$crate::toml_internal!( ... )` in a body, in order"""
    out = []; i = 0
    while True:
        k = body.find("toml_internal!(", i)
        if k < 0:
            return out
        o = k + len("toml_internal!")
        j = match_close(body, o)
        out.append(body[o + 1:j]); i = o + 1

def despace(text):
    """white space kept only between two word characters (layout does not matter)"""
    t = re.sub(r"\s+", " ", text).strip()
    return re.sub(r"(?<![A-Za-z0-9_]) | (?![A-Za-z0-9_])", "", t)


def canon_vars(text):
    """rename the macro metavariables ($name, not $crate) in order of first appearance: $v0, $v1, ..."""
    names = {}

    def ren(m):
        if m.group(1) == "crate":
            return m.group(0)
        names.setdefault(m.group(1), "v%d" % len(names))
        return "$" + names[m.group(1)]
    return re.sub(r"\$([A-Za-z_][A-Za-z0-9_]*)", ren, text)


V = r"\$v\d+"


def classify(body):
    """kind of a rule body (+ the arguments of its re-invocation), read from the body spelled without layout and with
    the metavariables numbered by the rule's head"""
    b = despace(body)
    inv = invocations(body)
    last = show_seq(parse_seq(inv[-1]), True) if inv else ""
    if b == "":
        return "nothing"
    if re.fullmatch(r"\$crate::toml_internal!\(.*\);", b, re.S) and len(inv) == 1:
        return "invoke " + last
    if "insert_table_toml(" in b:
        return "tabheader"
    if "push_toml(" in b:
        return "arrheader"
    if "insert_toml(" in b and "Value::Datetime(" in b:
        return "insertdt " + last
    if "insert_toml(" in b and re.search(r"toml_internal!\(@value" + V + r"\)", b):
        return "insert " + last
    if re.search(V + r"\.push\(\$crate::toml_internal!\(@value" + V + r"\)\)", b):
        return "push " + last
    if re.search(V + r"\.push\(\$crate::Value::Datetime\(", b):
        return "pushdt " + last
    if re.fullmatch(r"stringify!\(" + V + r"\)", b):
        return "pathident"
    if re.fullmatch(V, b):
        return "pathquoted"
    if "let mut table=$crate::Value::Table(" in b and re.search(r";table$", b.rstrip("}")):
        return "valtable " + last
    if "let mut array=$crate::value::Array::new();" in b and "$crate::Value::Array(array)" in b:
        return "valarray " + last
    if "NAN.copysign(-1.0)" in b:
        return "const f:-nan"
    if "NAN.copysign(1.0)" in b:
        return "const f:nan"
    if "NEG_INFINITY" in b:
        return "const f:-inf"
    if "INFINITY" in b:
        return "const f:inf"
    if re.fullmatch(r"\$crate::macros::number\(-" + V + r"\)", b):
        return "neg"
    if re.search(r"into_deserializer\(" + V + r"\)", b) and "deserialize(de).unwrap()" in b:
        return "other"
    return "unknown:" + b[:60]


def rules_of(src):
    src = strip_comments(src)
    k = src.index("macro_rules! toml_internal")
    o = src.index("{", k)
    end = match_close(src, o)
    text = src[o + 1:end]
    rules = []; i = 0; n = len(text); bodies = []
    while True:
        while i < n and text[i].isspace():
            i += 1
        if i >= n:
            break
        assert text[i] == "(", text[i:i + 40]
        j = match_close(text, i)
        head = text[i + 1:j]
        m = re.match(r"\s*=>\s*", text[j + 1:])
        b0 = j + 1 + len(m.group(0))
        b1 = match_close(text, b0)
        body = text[b0 + 1:b1]
        while body.strip().startswith("{") and match_close(body.strip(), 0) == len(body.strip()) - 1:
            body = body.strip()[1:-1]                    # `=> {{ ... }}`
        i = b1 + 1
        m = re.match(r"\s*;", text[i:])
        if m:
            i += len(m.group(0))
        # metavariables numbered in order of first appearance in the rule (head first): their names do not matter
        both = canon_vars(head + "\x00" + body)
        chead, cbody = both.split("\x00", 1)
        rules.append(show_seq(parse_seq(chead), False) + " => " + classify(cbody))
        bodies.append(despace(cbody))
    helpers = despace(src[end + 1:])
    code = hashlib.sha1(("\n".join(bodies) + "\n" + helpers).encode()).hexdigest()
    return rules, code


def canon_rules_line(line):
    """a `n=.. det=.. rules=<hex>` line with the metavariables of every rule numbered in order of first appearance"""
    f = dict(FIELD_RULES.findall(line))
    if "rules" not in f:
        return line
    rules = [canon_vars(r) for r in bytes.fromhex(f["rules"]).decode("utf-8", "replace").split(" ;; ")]
    return "n=%s det=%s rules=%s" % (f.get("n"), f.get("det"), " ;; ".join(rules).encode().hex())


FIELD_RULES = re.compile(r"(\w+)=(\S+)")


def rules_equal(source_line, model_line):
    return canon_rules_line(source_line) == canon_rules_line(model_line)


def source_rules_line():
    import hashlib
    rules, code = rules_of(open(os.path.join(common.REPO, MACROS_RS), encoding="utf-8").read())
    return "n=%d det=true rules=%s" % (len(rules), " ;; ".join(rules).encode().hex()), code


class BuildError(Exception):
    pass


def run_program(texts, tag="p0", timeout=2400):
    """compile and run one program; returns [(macro_dump, parse_dump)] in order"""
    os.makedirs(WORK, exist_ok=True)
    lockf = open(os.path.join(WORK, ".lock"), "w")
    fcntl.flock(lockf, fcntl.LOCK_EX)
    try:
        crate = os.path.join(WORK, "crate")
        os.makedirs(os.path.join(crate, "src"), exist_ok=True)
        os.makedirs(os.path.join(crate, ".cargo"), exist_ok=True)

        def put(rel, data):
            p = os.path.join(crate, rel)
            if not os.path.exists(p) or open(p, "rb").read() != data:
                open(p, "wb").write(data)

        for rel in ("Cargo.toml", os.path.join(".cargo", "config.toml"), os.path.join("src", "main.rs"), os.path.join("src", "dump.rs")):
            data = open(os.path.join(TEMPLATE, rel), "rb").read()
            if rel == "Cargo.toml":                       # the tree under test (VERIF_REPO) instead of the template's /repo
                data = data.replace(b'"/repo/', b'"' + common.REPO.rstrip("/").encode() + b"/")
            put(rel, data)
        put("Cargo.lock", open(os.path.join(common.REPO, "Cargo.lock"), "rb").read())
        put(os.path.join("src", "cases.rs"), program(texts).encode("utf-8"))
        rc, out, dt = common.sh(["cargo", "build", "--offline", "--release", "--target-dir", os.path.join(WORK, "target")],
                                cwd=crate, timeout=timeout)
        if rc != 0:
            raise BuildError(out[-6000:])
        rc, out, _ = common.sh([os.path.join(WORK, "target", "release", "verif-harness-macro")], cwd=crate, timeout=600)
        res = {}
        for line in out.split("\n"):
            m = re.match(r"^(\d+) macro=(\S+) parse=(\S+)$", line)
            if m:
                res[int(m.group(1))] = (m.group(2), m.group(3))
        return [res.get(i) for i in range(len(texts))], dt
    finally:
        fcntl.flock(lockf, fcntl.LOCK_UN)
        lockf.close()


def impl_line(supported, obs):
    if obs is None:
        return "CRASH no-output"
    m, p = obs
    return "supported=%s macro=%s ref=%s" % ("true" if supported else "false", "E:panic" if m == "PANIC" else m,
                                             "invalid" if p == "ERR" else p)


def isolate(texts):
    """the generated program did not compile: find the documents responsible (bisection)"""
    bad = []

    def go(idx):
        if not idx:
            return
        try:
            run_program([texts[i] for i in idx], tag="bisect")
            return
        except BuildError as e:
            if len(idx) == 1:
                bad.append((idx[0], str(e)))
                return
        go(idx[:len(idx) // 2])
        go(idx[len(idx) // 2:])

    go(list(range(len(texts))))
    return bad


def observe(cases):
    """fill meta['impl'] of every case by compiling programs of at most PER_PROGRAM documents"""
    for lo in range(0, len(cases), PER_PROGRAM):
        chunk = cases[lo:lo + PER_PROGRAM]
        texts = [c.meta["text"] for c in chunk]
        try:
            obs, dt = run_program(texts)
            failed = {}
        except BuildError as e:
            whole = str(e)
            failed = dict(isolate(texts))
            good = [i for i in range(len(texts)) if i not in failed]
            if good:
                try:
                    o2, dt = run_program([texts[i] for i in good])
                except BuildError as e2:
                    o2 = [None] * len(good)
                    for i in good:
                        failed[i] = str(e2)
            else:
                o2 = []
            obs = [None] * len(texts)
            for i, o in zip(good, o2):
                obs[i] = o
            if not failed:
                failed = {i: whole for i in range(len(texts))}
        for i, c in enumerate(chunk):
            c.meta["obs_pid"] = os.getpid()
            if i in failed:
                c.meta["impl"] = "supported=%s macro=E:compile ref=?" % ("true" if c.meta["supported"] else "false")
                c.meta["compile_error"] = failed[i][-1500:]
            else:
                c.meta["impl"] = impl_line(c.meta["supported"], obs[i])


_STMTS = {}        # text -> statements (for shrinking)


def make_case(rng, stmts, kind, supported=True, text=None):
    text = text if text is not None else doc_text(rng, stmts)
    _STMTS[text] = stmts
    return Case("macro", [ser_doc(stmts)], {"kind": kind, "text": text, "supported": supported})


def gen_cases(rng, tier):
    cases = []
    for st in FIXED:
        cases.append(make_case(rng, st, "fixed"))
    for k, st in enumerate(UNSUPPORTED):
        c = make_case(rng, st, "unsupported", supported=False)
        # these spellings compile silently and give a table different from the parser's: recorded findings, judged as such
        c.meta["finding"] = "C19-int-key-by-value"
        cases.append(c)
    n = N_DOCS.get(tier, 300)
    seen = set()
    while len(cases) < n:
        stmts, text, valid = gen_doc(rng)
        if text in seen:
            continue
        seen.add(text)
        _STMTS[text] = stmts
        cases.append(Case("macro", [ser_doc(stmts)], {"kind": "random" if valid else "random-invalid", "text": text, "supported": True,
                                                      "valid": valid}))
    observe(cases)
    return [Case("rules", [b""], {"kind": "rules", "supported": False})] + cases


# ---------------------------------------------------------------------------------------------
# verdicts
# ---------------------------------------------------------------------------------------------
FIELD = re.compile(r"(\w+)=(\S+)")


def fields(line):
    return dict(FIELD.findall(line or ""))


def impl_of(case):
    if "impl" not in case.meta or case.meta.get("obs_pid") != os.getpid():        # a replayed case is observed afresh
        if "text" not in case.meta:
            return None
        observe([case])
    return case.meta["impl"]


def oracle(case, _core_line):
    if case.cmd == "rules":
        return None                                   # a correspondence-only case
    line = impl_of(case)
    if line is None:
        return "case carries no document text"
    if not case.meta.get("supported", True):
        f = fields(line)
        if case.meta.get("finding") and f.get("macro") != f.get("ref") and f.get("ref") != "invalid":
            return "toml!{..} and str::parse::<Table>() disagree on `%s` (%s)" % (case.meta["text"].strip(), case.meta["finding"])
        return None                                   # outside the claim (correspondence only)
    f = fields(line)
    if f.get("macro") == "E:compile":
        return "generated program does not compile for this document (generator bug or the macro rejects a supported spelling): %s" % (
            case.meta.get("compile_error", "")[-600:])
    if line.startswith("CRASH"):
        return "no observation for this document"
    if f.get("ref") == "invalid":
        return None                                   # not a valid document: outside the claim
    if f.get("macro") != f.get("ref"):
        return "toml!{..} and str::parse::<Table>() disagree on `%s`: macro=%s parse=%s" % (
            case.meta["text"].strip().replace("\n", " | "), f.get("macro"), f.get("ref"))
    return None


def known_class(case, _core_line):
    return case.meta.get("finding")


def compare(case, model_line, _core_line):
    if case.cmd == "rules":
        try:
            line, code = source_rules_line()
        except Exception as e:                        # the source no longer has the shape the reader understands
            return "cannot read the rules of toml_internal! from %s: %r" % (MACROS_RS, e)
        if not rules_equal(line, model_line):
            ours = bytes.fromhex(fields(canon_rules_line(line)).get("rules", "")).decode().split(" ;; ")
            theirs = bytes.fromhex(fields(canon_rules_line(model_line)).get("rules", "")).decode("utf-8", "replace").split(" ;; ")
            diff = [(a, b) for a, b in zip(ours, theirs) if a != b][:1]
            return "the rules of toml_internal! differ from Model/Macro.v `rules` (%d vs %d rules)%s" % (
                len(ours), len(theirs), ": source `%s` / model `%s`" % diff[0] if diff else "")
        if code != CODE_DIGEST:
            return ("the Rust code in the rule bodies or the helper functions of %s changed (digest %s): "
                    "Model/Macro.v `invoke` / `slot_update` must be re-inspected" % (MACROS_RS, code))
        return None
    line = impl_of(case)
    if floatnorm.norm(model_line) == line:
        return None
    return "model and implementation differ: impl=%s" % line


def nontrivial(case, _core_line):
    if case.cmd == "rules":
        return False
    f = fields(case.meta.get("impl"))
    return case.meta.get("supported", True) and f.get("ref") not in (None, "invalid", "?") and f.get("macro") == f.get("ref")


def extra_coverage(cases, impl, model):
    feats = {"negative": 0, "datetime": 0, "dotted": 0, "quoted": 0, "inline": 0, "array": 0, "header": 0, "aot": 0, "super_after_sub": 0}
    for c in cases:
        t = c.meta.get("text", "")
        feats["negative"] += bool(re.search(r"[=\[,] ?-[0-9in]", t))
        feats["datetime"] += bool(re.search(r"\d\d:\d\d:\d\d|\d{4}-\d\d-\d\d", t))
        feats["dotted"] += bool(re.search(r"^[^=\[\"]*\w\.\w[^=]*=", t, re.M))
        feats["quoted"] += bool(re.search(r'^\[*"|\."', t, re.M))
        feats["inline"] += "{" in t
        feats["array"] += bool(re.search(r"= ?\[", t))
        feats["header"] += bool(re.search(r"^\[[^\[]", t, re.M))
        feats["aot"] += bool(re.search(r"^\[\[", t, re.M))
        hdrs = re.findall(r"^\[([^\[\]]+)\]$", t, re.M)
        feats["super_after_sub"] += any(any(h2.startswith(h + ".") for h2 in hdrs[:i]) for i, h in enumerate(hdrs))
    return {"documents_with": feats, "impl_lines": "from the generated program (toml!{..} compiled by rustc against /repo)"}


THEOREMS = [
    "C19_macro_eq_parse: forall l t, macro_supported l = true -> eval l = Some t -> macro_eval (tokens_of l) = EOk t  (the full claim, on the model)",
    "C19_macro_total: supported valid documents expand without error within the model's fuel",
    "C19_eval_is_the_specification / C19_macro_eq_spec: every document the unmodified claims specification of C09 (Spec/Defs.v spec_run) calls valid is valid for eval, with the same content under every key recursively (order of keys aside); hence the macro's table has the content of the specified tree",
    "C19_helpers_follow_definition_rules / C19_helper_step: insert_toml, insert_table_toml, push_toml through traverse build what the TOML definition rules say, statement by statement, on every valid document",
    "C19_value_eq_parse / C19_datetime_rules: every supported value (signed numbers through rustc's literal typing, the four date-time kinds with T/t/space, fraction, Z/z/-hh:mm through stringify!+from_str and C12, arrays and inline tables through the @trailingcomma/@array/@table loops) gets its TOML meaning",
    "C19_negative_integers: every negative integer TOML accepts (down to i64::MIN) is a supported spelling and gets its value (macros::number types the negated literal i64; before that repair -2147483649 wrapped)",
    "C19_int_key_refuted: a family of spellings that compiles but is outside macro_supported (`05 = 1` names key \"5\"), witnesses replayed on the real macro",
]
RULE = ("programs of generated valid documents (gen_toml.TreeGen over macro-supported spellings, judged valid by the reference "
        "interpreter) embedded in toml!{..} and as string literals; non-trivial = supported, valid, and both sides produced a table")
ASSUMPTIONS = [
    "rustc's lexer and macro-by-example matcher are modelled (Spec/MacroSpec.v tokens_of, Model/Macro.v match_pat); the generated "
    "program sets #![recursion_limit] high enough for the tt-muncher",
    "unsigned / `+` integers in toml!{} are i32 (unsuffixed literal fallback): above i32::MAX the macro does not compile: excluded by macro_supported; negative integers are i64",
]


def shrink(case, il, why, _run):
    """drop statements one at a time while the same kind of failure remains (all candidates of a round in one program)"""
    stmts = _STMTS.get(case.meta.get("text"))
    if not stmts:
        return case, case.meta.get("impl", il), why
    kind = "compile" if "does not compile" in why else "disagree"
    cur, cur_why = case, why
    changed = True
    while changed and len(stmts) > 1:
        changed = False
        cands = [stmts[:i] + stmts[i + 1:] for i in range(len(stmts))]
        cs = [make_case(random.Random(0), st, "shrunk") for st in cands]
        observe(cs)
        for st, c in zip(cands, cs):
            w = oracle(c, None)
            if w and (("does not compile" in w) == (kind == "compile")):
                stmts, cur, cur_why, changed = st, c, w, True
                break
    return cur, cur.meta.get("impl", il), cur_why


def search(rng, ctx):
    return gen_cases(rng, "thorough")
