"""C14, serde half — the spans serde's `Spanned<T>` wrapper delivers are the document's spans, and wrapping any part of a
target type in `Spanned<T>` never changes whether or how the rest of the document deserializes.

Runs on the runtime-typed serde binary (harness/src/bin/serde, type token `Y t` = Spanned<t>) and the `serde`
model driver, so it is a check of its own (`./check C14serde`); the document half of C14 is lib/props/c14.py.

Cases
  spanned_fidelity <doc>   harness self-check: real `Spanned<T>` fields (the struct family of harness/src/spanned.rs)
                           against their dynserde twin, on toml::from_str and toml_edit::de::from_str.
  spanned_key_fidelity <doc>  the same for map KEYS: real BTreeMap<Spanned<KW>, _>, <Spanned<Spanned<String>>, _>, <KWS, _>,
                           <Spanned<KWS>, _>  (KW(String), KWS(Spanned<String>)) against their dynserde twin.
  spanned <stype> <doc>    w_t / w_e: the type WITH its Spanned wrappers through toml::from_str / toml_edit::de::from_str,
                           p_t / p_e: its erasure (every `Y` removed), w_edoc: the wrapped type through
                           from_document(DocumentMut) (no spans there), doc: the document's own span tree
                           (toml_edit ImDocument: Item::span, Key::span).

ORACLE (implementation line only)
  * transparency: w ok <=> p ok, and erase(w) == p (gen_serde.sval_eq);
  * delivery: walking (type, wrapped value, document span tree) together, every Spanned value / map key carries
    exactly the span of the node / key it was read from;
  * toml and toml_edit agree; a DocumentMut delivers no span (w_edoc succeeds only if no Spanned was reached).
Known classes
  C14-implicit-table-span       a table that only a longer [header] mentions has no span: Spanned<..> over it fails.
                                The class applies only when EVERY span-less table of the document is implicit, decided
                                from the case's text alone (implicit_tables: no header of its own, no array element, not
                                made of dotted keys, not inline); an explicit table without a span is a failure by itself.
  C14-spanned-option-missing    a struct field `Spanned<Option<T>>` whose key is missing fails (missing_field asks the
                                MissingFieldDeserializer for a struct) where `Option<T>` alone is None.
  private-datetime-key (F14)    a date-time read as a map hands out the private tunnel key `$__toml_private_datetime`,
                                which is no document key and has no span (plain Map<String, _> ok, Map<Spanned<String>, _> err).
(C14-spanned-newtype-key — a map key `Spanned<Newtype(String)>` or a nested Spanned used to fail because KeyDeserializer
handed the key TEXT to the inner type — is repaired: KeyDeserializer::deserialize_struct passes itself on, like
ValueDeserializer.  Its witness stays as an ordinary case, and key types are generated with Spanned / newtype wrappers
nested at random depth: Spanned<Newtype>, Spanned<Spanned<String>>, Newtype(Spanned<String>), ...; the real-type anchor
for them is `spanned_key_fidelity`.)
The correspondence (compare) is with coq/Model/SerdeSpanned.v de_s on the span tree the Coq parser
(coq/Model/Document.v) builds from the same text — end to end from the text.
"""
import collections

import gen_serde as G
import c13
import c14
from runner import Case

PROP = "C14"
TITLE = "Spans delivered through serde's Spanned<T>; Spanned is transparent (serde half of C14)"
COQ_PROPS = "Props/C14serde.v"
DRIVER_NAME = "serde"
HARNESS = {"bin": "serde"}
THEOREMS = [
    "C14_spanned_delivers: de_s (YSpanned t) s = Spanned{a..b, v} where (a,b) is the span of node s and v = de_s t s; without a span it fails",
    "C14_transparent: for every type with Spanned wrappers at any positions (sty_ok) and every tree all of whose nodes and keys have spans: de_s t s succeeds iff de_value (erase t) (strip s) succeeds, and the values agree after erasing spans",
    "C14_spanned_needs_spans: on a tree without spans (DocumentMut) Spanned<T> fails, whatever T",
    "C14_spanned_key_delivers / C14_spanned_key_transparent: a map key Spanned<K> carries the key's span around what K yields, for ANY key type; keys are transparent under any nesting of Spanned / newtype wrappers (repaired finding C14-spanned-newtype-key, old witness kept as a regression Example)",
    "C14_implicit_table_refuted / C14_spanned_option_missing_refuted: the two ways transparency fails, with witnesses",
]
RULE = ("(type, document) pairs: supported float-free types with Spanned wrappers at random positions (values, options inside and "
        "outside, sequences, tuple elements, struct fields, variant payloads, map keys and values), documents rendered from a value "
        "of the type in random layouts (inline, dotted, [header], [[array of tables]]) and with one tree mutation; the fixed "
        "Spanned struct family against real derives; non-trivial = at least one Spanned delivered")
ASSUMPTIONS = [
    "serde_derive / serde_spanned's visitor are written into the model as their functional spec; the runtime-typed twin is checked against real `Spanned<T>` fields on every run (spanned_fidelity)",
    "the document's spans themselves (what Item::span / Key::span report) are the document half of C14; here they are taken from the implementation (oracle) and from the Coq parser (model)",
    "documents with floats are not tied to the model (floats are symbolic in the parser model); types with the untyped toml::Value leaf are not generated",
]

STATS = collections.Counter()


# ---------------------------------------------------------------------------------------------
def erase_ty(t):
    k = t[0]
    if k == "Y":
        return erase_ty(t[1])
    if k in ("O", "L"):
        return (k, erase_ty(t[1]))
    if k == "T":
        return ("T", [erase_ty(x) for x in t[1]])
    if k == "M":
        return ("M", erase_ty(t[1]), erase_ty(t[2]))
    if k == "S":
        return ("S", t[1], [(f, erase_ty(x)) for f, x in t[2]])
    if k == "N":
        return ("N", t[1], erase_ty(t[2]))
    if k == "P":
        return ("P", t[1], [erase_ty(x) for x in t[2]])
    if k == "E":
        vs = []
        for vn, vk, p in t[2]:
            if vk == "n":
                vs.append((vn, vk, erase_ty(p)))
            elif vk == "t":
                vs.append((vn, vk, [erase_ty(x) for x in p]))
            elif vk == "s":
                vs.append((vn, vk, [(f, erase_ty(x)) for f, x in p]))
            else:
                vs.append((vn, vk, p))
        return ("E", t[1], vs)
    return t


def erase_val(v):
    k = v[0]
    if k == "Y":
        return erase_val(v[3])
    if k in ("O", "W"):
        return (k, erase_val(v[1]))
    if k in ("L", "R"):
        return (k, [erase_val(x) for x in v[1]])
    if k == "M":
        return ("M", [(erase_val(a), erase_val(b)) for a, b in v[1]])
    if k == "E":
        return ("E", v[1], erase_val(v[2]))
    return v


def wrap_spanned(rng, t, p, key=False):
    """Spanned wrappers at random positions"""
    k = t[0]
    if key:
        # keys: Spanned and newtype wrappers nested in any order, at random depth (all of them work: KeyDeserializer
        # hands itself to the inner type).  An added newtype changes the plain type too (erase_ty keeps it); the
        # document is the same, a newtype being transparent in TOML.
        inner = ("N", t[1], wrap_spanned(rng, t[2], p, key=True)) if k == "N" else t
        layers = 0
        while layers < 4 and rng.random() < (max(p, 0.35) if layers == 0 else 0.3):
            layers += 1
            inner = ("Y", inner) if rng.random() < 0.65 else ("N", rng.choice(["W", "Kw", "Nk"]), inner)
        return inner
    if k in ("O", "L"):
        inner = (k, wrap_spanned(rng, t[1], p))
    elif k == "T":
        inner = ("T", [wrap_spanned(rng, x, p) for x in t[1]])
    elif k == "M":
        inner = ("M", wrap_spanned(rng, t[1], p, key=True), wrap_spanned(rng, t[2], p))
    elif k == "S":
        inner = ("S", t[1], [(f, wrap_spanned(rng, x, p)) for f, x in t[2]])
    elif k == "N":
        inner = ("N", t[1], wrap_spanned(rng, t[2], p))
    elif k == "P":
        inner = ("P", t[1], [wrap_spanned(rng, x, p) for x in t[2]])
    elif k == "E":
        vs = []
        for vn, vk, pl in t[2]:
            if vk == "n":
                vs.append((vn, vk, wrap_spanned(rng, pl, p)))
            elif vk == "t":
                vs.append((vn, vk, [wrap_spanned(rng, x, p) for x in pl]))
            elif vk == "s":
                vs.append((vn, vk, [(f, wrap_spanned(rng, x, p)) for f, x in pl]))
            else:
                vs.append((vn, vk, pl))
        inner = ("E", t[1], vs)
    else:
        inner = t
    r = rng.random()
    if r < p:
        return ("Y", inner)
    if r < p * 1.05:
        return ("Y", ("Y", inner))
    return inner


def has_y(t):
    return G.ty_any(t, lambda x: x[0] == "Y")


def strip_y(t):
    while t[0] == "Y":
        t = t[1]
    return t


def bad_field_somewhere(t):
    """classifier of C14-spanned-option-missing: a struct / struct-variant field of the form Spanned<..Option<T>>"""
    def bad(x):
        fss = []
        if x[0] == "S":
            fss.append(x[2])
        if x[0] == "E":
            fss += [p for _, vk, p in x[2] if vk == "s"]
        return any(ft[0] == "Y" and strip_y(ft)[0] == "O" for fs in fss for _, ft in fs)
    return G.ty_any(t, bad)


# ---------------------------------------------------------------------------------------------
def parse_doc_spans(s):
    """`doc=` tokens -> ("v", span) | ("L", span, [node]) | ("T", span, [(key, keyspan, node)])"""
    t = s.split(",")
    pos = [0]

    def span(x):
        if x == "none":
            return None
        a, _, b = x.partition("-")
        return (int(a), int(b))

    def go():
        tok = t[pos[0]]
        pos[0] += 1
        h = tok[0]
        if h == "v":
            return ("v", span(tok[1:]))
        n, _, sp = tok[1:].partition(":")
        if h == "L":
            return ("L", span(sp), [go() for _ in range(int(n))])
        es = []
        for _ in range(int(n)):
            kt = t[pos[0]]
            pos[0] += 1
            kh, _, ksp = kt[1:].partition(":")
            es.append((bytes.fromhex(kh).decode("utf-8") if kh else "", span(ksp), go()))
        return ("T", span(sp), es)

    return go()


def tables_without_span(n, at=()):
    """the positions (keys, and indices into arrays) of the tables of a span tree that have no span"""
    out = []
    if n[0] == "T":
        if n[1] is None:
            out.append(at)
        for k, _, x in n[2]:
            out += tables_without_span(x, at + (k,))
    elif n[0] == "L":
        for i, x in enumerate(n[2]):
            out += tables_without_span(x, at + (i,))
    return out


# --- which tables of a document are IMPLICIT, from its text alone -------------------------------------------------
# (independent of every parser: the documents of this check are rendered by gen_serde.render_doc / written by hand, one
#  statement per line, values on one line.)  A table is implicit when it is mentioned only as a proper prefix of [headers] /
# [[headers]]: it has no header of its own, is no element of an array of tables, no table made of dotted keys and no inline
# table.  Only such a table may lack a span (known finding C14-implicit-table-span).
_ESC = {"b": "\b", "t": "\t", "n": "\n", "f": "\f", "r": "\r", "e": "\x1b", '"': '"', "\\": "\\"}


def _key_path(s, i):
    """a dotted key starting at s[i] -> ([key, ...], index behind it); None when there is none"""
    keys = []
    n = len(s)
    while True:
        while i < n and s[i] in " \t":
            i += 1
        if i >= n:
            return None
        c = s[i]
        if c == '"':
            i += 1
            buf = []
            while i < n and s[i] != '"':
                if s[i] == "\\":
                    e = s[i + 1]
                    if e == "u":
                        buf.append(chr(int(s[i + 2:i + 6], 16))); i += 6
                    elif e == "U":
                        buf.append(chr(int(s[i + 2:i + 10], 16))); i += 10
                    else:
                        buf.append(_ESC[e]); i += 2
                else:
                    buf.append(s[i]); i += 1
            if i >= n:
                return None
            i += 1
            keys.append("".join(buf))
        elif c == "'":
            j = s.find("'", i + 1)
            if j < 0:
                return None
            keys.append(s[i + 1:j])
            i = j + 1
        else:
            j = i
            while j < n and s[j] in G.BARE:
                j += 1
            if j == i:
                return None
            keys.append(s[i:j])
            i = j
        while i < n and s[i] in " \t":
            i += 1
        if i < n and s[i] == ".":
            i += 1
            continue
        return keys, i


def implicit_tables(text):
    """-> the set of positions (as in tables_without_span) of the implicit tables of the document; None when the text is
    not of the one-statement-per-line form this reads"""
    kind = {}          # position -> "implicit" | "explicit"
    count = {}         # position of an array of tables -> number of elements so far
    cur = ()

    def descend(at, keys):
        for k in keys:
            at = at + (k,)
            if at in count:
                at = at + (count[at] - 1,)        # a path through an array of tables means its last element
            else:
                kind.setdefault(at, "implicit")
        return at

    for line in text.replace("\r\n", "\n").split("\n"):
        t = line.lstrip(" \t")
        if not t or t[0] == "#":
            continue
        if t.startswith("[["):
            r = _key_path(t, 2)
            if r is None or not t[r[1]:].startswith("]]"):
                return None
            keys = r[0]
            arr = descend((), keys[:-1]) + (keys[-1],)
            count[arr] = count.get(arr, 0) + 1
            cur = arr + (count[arr] - 1,)
            kind[cur] = "explicit"
        elif t[0] == "[":
            r = _key_path(t, 1)
            if r is None or not t[r[1]:].startswith("]"):
                return None
            keys = r[0]
            cur = descend((), keys[:-1]) + (keys[-1],)
            kind[cur] = "explicit"
        else:
            r = _key_path(t, 0)
            if r is None or not t[r[1]:].startswith("="):
                return None
            at = cur
            for k in r[0][:-1]:                     # tables made of dotted keys have spans
                at = at + (k,)
                kind[at] = "explicit"
    return {at for at, k in kind.items() if k == "implicit"}


def key_string(kt, kx):
    """the table key a decoded map key stands for"""
    kt, kx = erase_ty(kt), erase_val(kx)
    while kt[0] == "N":
        kt, kx = kt[2], kx[1]
    if kt[0] == "s":
        return kx[1]
    if kt[0] == "c":
        return chr(kx[1])
    if kt[0] == "E":
        return kt[2][kx[1]][0]
    return None


def check_delivery(t, x, node, out, path="$"):
    """every Spanned in x carries the span of the node it was read from"""
    k = t[0]
    if k == "Y":
        if x[0] != "Y":
            out.append("%s: value of a Spanned type is not Spanned" % path)
            return
        if node[1] != (x[1], x[2]):
            out.append("%s: Spanned delivers %d..%d, the document's span is %s" % (path, x[1], x[2], node[1]))
        STATS["delivered"] += 1
        return check_delivery(t[1], x[3], node, out, path)
    if k == "O":
        if x[0] == "O":
            check_delivery(t[1], x[1], node, out, path)
        return
    if k == "N":
        return check_delivery(t[2], x[1], node, out, path)
    if k == "L":
        if node[0] == "L":
            for i, (xv, nd) in enumerate(zip(x[1], node[2])):
                check_delivery(t[1], xv, nd, out, "%s[%d]" % (path, i))
        return
    if k in ("T", "P"):
        ts = t[1] if k == "T" else t[2]
        if node[0] == "L":
            for i, (tt, xv, nd) in enumerate(zip(ts, x[1], node[2])):
                check_delivery(tt, xv, nd, out, "%s.%d" % (path, i))
        return
    if k == "S":
        return _fields_delivery(t[2], x[1], node, out, path)
    if k == "M":
        if node[0] != "T":
            return
        for kx, vx in x[1]:
            ks = key_string(t[1], kx)
            ent = [e for e in node[2] if e[0] == ks]
            if not ent:
                continue
            # the key
            kt, kv = t[1], kx
            while kt[0] in ("N", "Y"):
                if kt[0] == "Y":
                    if kv[0] == "Y" and ent[0][1] != (kv[1], kv[2]):
                        out.append("%s: key %r delivers %d..%d, the document's key span is %s" % (path, ks, kv[1], kv[2], ent[0][1]))
                    STATS["delivered-key"] += 1
                    kt, kv = kt[1], kv[3] if kv[0] == "Y" else kv
                else:
                    kt, kv = kt[2], kv[1]
            check_delivery(t[2], vx, ent[0][2], out, "%s[%r]" % (path, ks))
        return
    if k == "E":
        vn, vk, p = t[2][x[1]]
        if vk == "u" or node[0] != "T" or len(node[2]) != 1:
            return
        child = node[2][0][2]
        if vk == "n":
            check_delivery(p, x[2], child, out, path + "::" + vn)
        elif vk == "t" and child[0] == "L":
            for i, (tt, xv, nd) in enumerate(zip(p, x[2][1], child[2])):
                check_delivery(tt, xv, nd, out, "%s::%s.%d" % (path, vn, i))
        elif vk == "s":
            _fields_delivery(p, x[2][1], child, out, path + "::" + vn)


def _fields_delivery(fs, xs, node, out, path):
    if node[0] == "T":
        for (f, ft), xv in zip(fs, xs):
            ent = [e for e in node[2] if e[0] == f]
            if ent:
                check_delivery(ft, xv, ent[0][2], out, path + "." + f)
    elif node[0] == "L":
        for (f, ft), xv, nd in zip(fs, xs, node[2]):
            check_delivery(ft, xv, nd, out, path + "." + f)


# ---------------------------------------------------------------------------------------------
def float_free(t):
    return not G.ty_any(t, lambda x: x[0] in ("f32", "f64", "v", "u", "Z"))


# fixed witnesses of the two known classes, and of the repaired C14-spanned-newtype-key (now an ordinary case)
W_IMPLICIT = (("S", "S", [("a", ("Y", ("S", "T", [("b", ("S", "U", [("c", ("int", "i8"))]))])))]), "[a.b]\nc = 3\n")
# a table re-opened by its own header AFTER the header of one of its sub-tables / of an array of tables below it: it is
# explicit and has a span (ordinary cases; a parser that loses the span here is caught by the exact classifier)
W_REOPENED = [(("S", "S", [("a", ("Y", ("S", "T", [("b", ("S", "U", [("c", ("int", "i8"))])), ("x", ("int", "i8"))])))]),
               "[a.b]\nc = 3\n[a]\nx = 1\n"),
              (("S", "S", [("a", ("Y", ("S", "T", [("b", ("L", ("S", "U", [("c", ("int", "i8"))]))), ("x", ("int", "i8"))])))]),
               "[[a.b]]\nc = 3\n[[a.b]]\nc = 4\n[a]\nx = 1\n"),
              (("S", "S", [("t", ("L", ("S", "T", [("a", ("Y", ("S", "V", [("b", ("S", "U", [("c", ("int", "i8"))])), ("x", ("int", "i8"))])))])))]),
               "[[t]]\n[t.a.b]\nc = 3\n[t.a]\nx = 1\n[[t]]\n[t.a.b]\nc = 5\n[t.a]\nx = 2\n")]
W_OPTION = (("S", "S", [("a", ("int", "i64")), ("o", ("Y", ("O", ("int", "i8"))))]), "a = 3\n")
W_NEWTYPE_KEY = (("M", ("Y", ("N", "W", ("s",))), ("int", "i8")), "k = 3\n")
W_KEYS = [(("M", ("Y", ("Y", ("s",))), ("int", "i8")), "k = 3\n\"a b\" = 4\n"),
          (("M", ("Y", ("N", "W", ("Y", ("s",)))), ("Y", ("int", "i8"))), "k = 3\n"),
          (("M", ("N", "W", ("Y", ("Y", ("N", "V", ("s",))))), ("int", "i8")), "k.x = 3\n"),       # a value that does not fit: both fail
          (("M", ("Y", ("E", "En", [("Aa", "u", None), ("Bb", "u", None)])), ("int", "i8")), "Aa = 1\nBb = 2\n"),
          (("M", ("Y", ("E", "En", [("Aa", "u", None), ("Bb", "u", None)])), ("int", "i8")), "Aa = 1\nCc = 2\n"),   # unknown variant
          (("S", "S", [("m", ("M", ("Y", ("N", "W", ("s",))), ("L", ("M", ("Y", ("Y", ("s",))), ("int", "i8")))))]),
           "[[m.k]]\nx = 1\n[[m.k]]\ny = 2\n")]


def key_family_doc(rng):
    """a document for the real key family of `spanned_key_fidelity`: tables m1..m4 with random string keys, in random
    layouts (inline, dotted, [header]); sometimes a value of the wrong type"""
    keys = ["k", "a b", "", "x-1", "é", "1", "true", "a.b", "K"]
    lines, tail = [], []
    for name in ["m1", "m2", "m3", "m4"]:
        if rng.random() < 0.2:
            continue
        ks = rng.sample(keys, rng.randrange(0, 4))
        def kq(k):
            return k if (k and all(c.isalnum() or c in "-_" for c in k) and k.isascii()) else '"%s"' % k
        val = lambda: ('"s"' if rng.random() < 0.05 else str(rng.randrange(-5, 100)))
        lay = rng.randrange(3)
        if lay == 0:
            lines.append("%s = { %s }" % (name, ", ".join("%s = %s" % (kq(k), val()) for k in ks)))
        elif lay == 1 and ks:
            lines += ["%s.%s = %s" % (name, kq(k), val()) for k in ks]
        else:
            tail.append("[%s]" % name)
            tail += ["%s = %s" % (kq(k), val()) for k in ks]
    return "\n".join(lines + tail) + "\n"


def spanned_case(ty, doc, kind):
    return Case("spanned", [G.ty_str(ty).encode(), doc.encode("utf-8")],
                {"kind": kind, "ty": ty, "depth": G.ty_depth(ty)})


def gen_cases(rng, tier):
    out = []
    for c in c14.struct_docs(rng, tier)[: (600 if tier == "quick" else 8000)]:
        out.append(Case("spanned_fidelity", [c.args[1]], {"kind": "fidelity"}))
    out.append(spanned_case(W_IMPLICIT[0], W_IMPLICIT[1], "witness-implicit-table"))
    for wty, wdoc in W_REOPENED:
        out.append(spanned_case(wty, wdoc, "reopened-table"))
    out.append(spanned_case(W_OPTION[0], W_OPTION[1], "witness-option-missing"))
    out.append(spanned_case(W_NEWTYPE_KEY[0], W_NEWTYPE_KEY[1], "witness-newtype-key"))
    for wty, wdoc in W_KEYS:
        out.append(spanned_case(wty, wdoc, "nested-key"))
    for _ in range(60 if tier == "quick" else 600):
        out.append(Case("spanned_key_fidelity", [key_family_doc(rng).encode("utf-8")], {"kind": "key-fidelity"}))
    g = G.SerdeGen(rng, max_depth=4, allow_unsupported=False)
    n_types = 1200 if tier == "quick" else 30000
    made = 0
    while made < n_types:
        ty = g.root_ty()
        if ty[0] not in ("S", "M") or not float_free(ty):
            continue
        made += 1
        for j in range(3):
            v = g.value(ty)
            try:
                tree = G.to_tree(ty, v)
            except G.Unsupported:
                continue
            if tree[0] != "t":
                continue
            wty = wrap_spanned(rng, ty, rng.choice([0.15, 0.3, 0.6]))
            out.append(spanned_case(wty, G.render_doc(rng, tree, p_subfirst=0.3), "rendered"))
            if j == 0:
                t2, how = c13.mutate_tree(rng, tree)
                out.append(spanned_case(wty, G.render_doc(rng, t2, p_subfirst=0.3), "tree-" + how))
    return out


def fields(line):
    d = collections.OrderedDict()
    for part in line.split(" "):
        k, _, x = part.partition("=")
        d[k] = x
    return d


def judge(case, line):
    """-> list of (reason, known class or None)"""
    f = fields(line)
    if case.cmd in ("spanned_fidelity", "spanned_key_fidelity"):
        bad = [k for k in ("t", "e") if not f.get(k, "").startswith("same-")]
        if bad:
            return [("harness fidelity broken (the dynserde twin of Spanned<T> disagrees with the real type — a HARNESS bug): %s" % line[:400], None)]
        return []
    if line.startswith("BADCASE"):
        return [("generator/harness bug: %s" % line[:200], None)]
    ty = case.meta["ty"]
    out = []
    if f.get("valid") != "1":
        return [("generator bug: the rendered document is not valid TOML", None)]
    doc = parse_doc_spans(f["doc"]) if "doc" in f else None
    # the tables without a span: only an IMPLICIT table may have none (implicitness read off the case's text, not off any
    # parser); an explicit one without a span is a failure whatever the target type looks at
    spanless = tables_without_span(doc) if doc is not None else []
    if spanless:
        imp = implicit_tables(case.args[1].decode("utf-8", "replace"))
        if imp is None:
            return [("harness: the document is not of the one-statement-per-line form the implicit-table scan reads", None)]
        expl = [at for at in spanless if at not in imp]
        if expl:
            out.append(("table %s has a header of its own (or is an array element / dotted / inline table) and yet no span in the "
                        "document's span tree" % "/".join(repr(x) for x in expl[0]), None))
    # the class of a non-transparent outcome
    cls = None
    if spanless and not out:
        cls = "C14-implicit-table-span"
    elif bad_field_somewhere(ty):
        cls = "C14-spanned-option-missing"
    if G.mentions_private(ty, None, case.args[1].decode("utf-8", "replace")):
        cls = cls or "private-datetime-key"
    w, p = f.get("w_t", ""), f.get("p_t", "")
    if "245f5f746f6d6c5f70726976617465" in p or "245f5f73657264655f7370616e6e6564" in p:
        # a date-time read as a MAP shows the private tunnel key (F14): Map<String, _> accepts it, Map<Spanned<String>, _>
        # cannot (the tunnel key is not a document key and has no span)
        cls = cls or "private-datetime-key"
    for a, b in (("w_t", "w_e"), ("p_t", "p_e")):
        if f.get(a) != f.get(b):
            out.append(("toml::from_str and toml_edit::de::from_str disagree: %s=%s %s=%s" % (a, f.get(a, "")[:100], b, f.get(b, "")[:100]), None))
    if w.startswith("ok:") != p.startswith("ok:"):
        out.append(("wrapping in Spanned changed the verdict: wrapped %s, plain %s" % (w[:6], p[:6]), cls if (p.startswith("ok:") and cls) else None))
        return out
    if w.startswith("ok:"):
        STATS["both-ok"] += 1
        wv, pv = G.parse_val(w[3:]), G.parse_val(p[3:])
        if not G.sval_eq(erase_val(wv), pv):
            out.append(("values differ after erasing the spans: %s / %s" % (w[:200], p[:200]), None))
        bad = []
        check_delivery(ty, wv, doc, bad)
        for b in bad[:3]:
            out.append(("span delivered through serde differs from the document's: %s" % b, None))
        e = f.get("w_edoc", "")
        if e.startswith("ok:") and "Y" in [tok[0] for tok in e[3:].split(",")]:
            out.append(("a DocumentMut has no spans, yet from_document delivered one: %s" % e[:200], None))
    else:
        STATS["both-err"] += 1
    return out


def oracle(case, line):
    js = judge(case, line)
    if not js:
        return None
    for why, cls in js:
        if cls is None:
            return why
    return js[0][0]


def known_class(case, line):
    js = judge(case, line)
    if js and all(cls for _, cls in js):
        return js[0][1]
    return None


def nontrivial(case, line):
    return case.cmd == "spanned" and " w_t=ok:" in line and ",Y" in line


def compare(case, model_line, impl_line):
    """model: coq/Model/SerdeSpanned.v de_s on the span tree the Coq parser builds from the same text"""
    if model_line is None or model_line == "-" or case.cmd != "spanned":
        return None
    m, i = fields(model_line), fields(impl_line)
    for k, x in m.items():
        if x == "*":
            continue
        y = i.get(k)
        if y is None:
            return "%s missing" % k
        if k == "valid":
            if x != y:
                return "valid: model %s, implementation %s" % (x, y)
            continue
        if x.startswith("ok:") != y.startswith("ok:"):
            return "%s: model %s, implementation %s" % (k, x[:200], y[:200])
        if x.startswith("ok:") and not G.sval_eq(G.parse_val(x[3:]), G.parse_val(y[3:])):
            return "%s: model %s, implementation %s" % (k, x[:300], y[:300])
        STATS["cmp:" + k] += 1
    return None


def extra_coverage(cases, impl, model):
    tied = sum(1 for m in model if m not in (None, "-"))
    return {"route_outcomes": dict(STATS), "model_tied_cases": tied, "model_not_modelled": sum(1 for m in model if m == "-")}
