"""C03 — Unedited documents print back byte-for-byte.

Oracle (implementation only):
  * exactness: for documents rendered `consistent` (every key always spelled the same way, no blanks
    around dots or inside header brackets) with dotted-prefix keys adjacent, `to_string()` equals
    `normalize(text)` (lib/toml_text.py: BOM dropped, CR removed outside multi-line string bodies, final
    newline added after a last statement line) — computed without any TOML parser;
  * in every case: the printed text re-parses to the same data, is a fixed point of parse-then-print,
    and keeps every comment (multiset of comment texts, CR-insensitive).
Documents whose shared key-path prefixes are spelled differently are the known finding
C03-respelled-prefix (exactness is not claimed for them; everything else is).
"""
from runner import Case
import gen_toml as G
import toml_text as T

_laid_all = []
PROP = "C03"
COQ_PROPS = "Props/C03.v"
COQ_PROPS_EXTRA = ["Props/C03exact.v", "Props/C03more.v", "Props/WFbackbone.v"]
THEOREMS = ["C03_tiling, C03_printed_is_render (Props/C03.v); C03_exact / C03_exact_total and the class theorems (Props/C03exact.v): print = normalize(text) under the decidable laid_out'; C03_comments_kept / C03_fragments_kept (Props/C03more.v)",
            "Props/WFbackbone.v: WF_print_derivation, WF_print_parse(_any_order), parse_WF, C03_general_reparse (every decided document: printed text accepted, same data, kinds included), C03_general_reparse_undotted, Built_WF (names in coverage.theorem_names)"]
RULE = ("valid abstract documents with comments/whitespace markers in every decor slot, all table orderings, CRLF/LF "
        "mixes, BOM, missing final newline; non-trivial = document with >= 2 statements")
ASSUMPTIONS = ["normalize() is the six-state scanner of DESIGN.md 3.5, independent of the parser"]


def header_order_family(rng, tier):
    """every order of the headers of a three-level table tree (deep header first, grand-parent later, the table in between
    last, ...), every table with 0..3 commented key/value lines: re-opening an implicit table must not disturb the lines of
    its neighbours; plus headers written once with blanks (spaces, tabs) inside the brackets and around the dots."""
    import itertools
    out = []
    paths = [(b"p",), (b"p", b"a"), (b"p", b"a", b"b"), (b"q",), (b"p", b"c")]
    n_perm = 0
    for chosen in ([0, 1, 2], [0, 1, 2, 3], [0, 2, 4], [1, 2, 0, 4], [0, 1, 2, 3, 4]):
        for perm in itertools.permutations(chosen):
            n_perm += 1
            if tier == "quick" and len(chosen) == 5 and n_perm % 3:
                continue
            text = b""
            for hi in perm:
                text += b"[" + b".".join(paths[hi]) + b"]" + (b" # h%d" % hi if rng.random() < 0.5 else b"") + b"\n"
                for j in range(rng.choice([0, 2, 3, 3])):
                    text += b"k%d%d = %d" % (hi, j, j) + (b" # c%d%d" % (hi, j) if rng.random() < 0.6 else b"") + b"\n"
                if rng.random() < 0.3:
                    text += b"\n"
            out.append(Case("rt", [text], {"kind": "exact", "n": len(perm) + 2, "family": "header-order"}))
    # blanks inside the brackets / around the dots, every header path mentioned exactly once (nothing to be inconsistent with)
    blanks = [b"", b" ", b"\t", b"  ", b" \t"]
    for _ in range(150 if tier == "quick" else 3000):
        text = b""
        used = set()
        for _h in range(rng.randrange(1, 4)):
            path = tuple(rng.choice([b"a", b"b", b"c", b"d", b'"e f"', b"'g'"]) for _ in range(rng.randrange(1, 4)))
            if any(path[:i] in used for i in range(1, len(path) + 1)) or any(u[:len(path)] == path for u in used):
                continue
            for i in range(1, len(path) + 1):
                used.add(path[:i])
            aot = rng.random() < 0.3
            inner = (rng.choice(blanks) + b".".join(path) if rng.random() < 0.5 else
                     rng.choice(blanks) + (rng.choice(blanks) + b"." + rng.choice(blanks)).join(path)) + rng.choice(blanks)
            text += (b"[[" if aot else b"[") + inner + (b"]]" if aot else b"]") + rng.choice([b"", b" ", b"\t# c"]) + b"\n"
            for j in range(rng.randrange(0, 3)):
                text += rng.choice(blanks) + b"k%d" % j + rng.choice(blanks) + b"=" + rng.choice(blanks) + b"%d" % j + rng.choice(blanks) + b"\n"
        if text:
            out.append(Case("rt", [text], {"kind": "exact", "n": 2, "family": "header-blanks"}))
    return out


def gen_cases(rng, tier):
    out = []
    n_docs = 8000 if tier == "quick" else 300000
    for _ in range(n_docs):
        tg = G.TreeGen(rng, small_keys=rng.random() < 0.2)
        consistent = rng.random() < 0.7
        st = tg.statements(tg.tree())
        if consistent:
            st = [(s[0], s[1], tg.group_value(s[2])) if s[0] == "kv" else s for s in st]
        v = G.ref_eval(st)
        if v[0] != "valid" or not G.within_limits(st):
            continue
        rn = G.Renderer(rng, plain=rng.random() < 0.05, consistent=consistent, comment_p=0.4, ws_p=0.4)
        text = rn.document(st)
        out.append(Case("rt", [text], {"kind": "exact" if consistent else "general", "n": len(st)}))
    # hand-written layouts
    for t in [b"", b"\n", b"# only comment", b"# only comment\n", b"\xef\xbb\xbf", b"\xef\xbb\xbfa = 1", b"a = 1", b"a = 1 # c",
              b"a = 1\r\n", b"a = 1\r\nb = 2\r\n", b"a = \"\"\"x\r\ny\"\"\"\r\n", b"a = '''x\r\ny'''\r\n", b"a = [\r\n1,\r\n2\r\n]\r\n",
              b"[a]\n[b]\n[a.c]\n", b"[a.b]\n[a]\n", b"[[a]]\n[[a.b]]\n[a.c]\n[[a]]\n", b"a.b = 1\na.c = 2\n", b"  a = 1  # x  \n\n\n# end",
              b"[a] # h\n  x = 1\n\n[b]   \n", b"a = { b = 1, c = { d = 2 } } \n", b"a = [ 1 , 2 , ] \n", b"a = [ ] \n", b"a = { } \n",
              b"\"a\" = 1\n'b' = 2\n", b"a = 1\n[t]\nb = 2\n# trailing\n", b"\t\ta\t=\t1\t\n"]:
        out.append(Case("rt", [t], {"kind": "exact", "n": 2}))
    out.extend(header_order_family(rng, tier))
    for t in [b"a.b = 1\n\"a\" .c = 2\n", b"[a.b]\n[ a . c ]\n", b"a.b = 1\nc = 2\na.d = 3\n", b"[[a]]\n[[ a ]]\n", b"t = { a.b = 1, c = 2, a.d = 3 }\n"]:
        out.append(Case("rt", [t], {"kind": "general", "n": 2}))
    # key paths that go THROUGH a table whose own header / dotted key was written with blanks or quotes: whether the print must be
    # exact is decided by the theorem's side condition (`laid`), not by the generator
    blanks = [b"", b" ", b"\t", b"  "]
    segs = [b"a", b"b", b"c", b'"d e"', b"'f'"]
    for _ in range(300 if tier == "quick" else 6000):
        p1 = [rng.choice(segs) for _ in range(rng.randrange(1, 3))]
        p2 = p1 + [rng.choice(segs) for _ in range(rng.randrange(1, 3))]

        def hdr(path, aot):
            inner = rng.choice(blanks) + (rng.choice(blanks) + b"." + rng.choice(blanks)).join(path) + rng.choice(blanks)
            return (b"[[" if aot else b"[") + inner + (b"]]" if aot else b"]") + rng.choice([b"", b" # c"]) + b"\n"
        aot = rng.random() < 0.25
        first, second = (hdr(p1, aot), hdr(p2, False)) if rng.random() < 0.7 else (hdr(p2, False), hdr(p1, False))
        body = lambda: b"".join(b"k%d = %d\n" % (j, j) for j in range(rng.randrange(0, 3)))
        out.append(Case("rt", [first + body() + second + body()], {"kind": "laid", "n": 2, "family": "path-through-spelled-header"}))
        # the same with dotted keys in one table and inside an inline table
        k1 = (rng.choice(blanks) + b"." + rng.choice(blanks)).join(p1 + [b"x"])
        k2 = (rng.choice(blanks) + b"." + rng.choice(blanks)).join(p1 + [b"y"])
        out.append(Case("rt", [k1 + b" = 1\n" + k2 + b" = 2\n"], {"kind": "laid", "n": 2, "family": "dotted-through-spelled-prefix"}))
        out.append(Case("rt", [b"t = { " + k1 + b" = 1, " + k2 + b" = 2 }\n"], {"kind": "laid", "n": 2, "family": "inline-dotted-through-spelled-prefix"}))
    del _laid_all[:]
    _laid_all.extend(c.args[0] for c in out if c.cmd == "rt" and c.meta.get("kind") != "exact")
    return out


def obligations():
    """the specification's normaliser exists twice: Spec/Norm.v (what the theorems of Props/C03exact.v speak about, extracted
    into the core driver as `norm`) and lib/toml_text.py (what the oracle uses); they must agree on a fixed battery"""
    import random, common
    drv = globals().get("DRIVER_BIN")
    if not drv:
        return [("normalizer-tie", "model driver not built")]
    rng = random.Random(20260929)
    texts = []
    for _ in range(400):
        tg = G.TreeGen(rng, small_keys=rng.random() < 0.2)
        st = tg.statements(tg.tree())
        texts.append(G.Renderer(rng, plain=rng.random() < 0.05, consistent=rng.random() < 0.7, comment_p=0.4, ws_p=0.4).document(st))
    q3 = b'"' * 3
    a3 = b"'" * 3
    texts += [b"", b"\n", b"# c", b"\xef\xbb\xbf", b"\xef\xbb\xbfa = 1", b"a = 1", b"a = 1\r\n", b"a = " + q3 + b"x\r\ny" + q3 + b"\r\n",
              b"a = " + a3 + b"x\r\ny" + a3 + b"\r\n", b"a = [\r\n1,\r\n2\r\n]\r\n", b"# only comment\r\n", b"a = 'x' # c\r",
              b"a = \"\\\"\" # \"\r\n", b"[a]\r\n\r\n[b]"]
    texts = [t for t in texts if G.utf8_ok(t)]
    outs = common.run_lines(drv, [common.case_line("norm", [t]) for t in texts])
    for t, o in zip(texts, outs):
        want = T.normalize(t)
        o = (o or "").strip()
        try:
            got = b"" if o in ("-", "") else bytes.fromhex(o)
        except ValueError:
            got = None
        if got != want:
            return [("normalizer-tie", "Spec/Norm.v and lib/toml_text.py normalise %r differently (coq: %r)" % (t[:80], o[:80]))]
    return []


def _field(line, name):
    for part in line.split(" "):
        if part.startswith(name + "="):
            return part[len(name) + 1:]
    return None


# ---- the theorem's own side condition as the oracle's exactness class ------------------------------------------------------
# C03_exact_total: utf8 s -> parse_document s = POk d -> laid_out' s (doc_root d) = true -> print = normalize s.  `laid_out'` is a
# boolean function of the source and the MODEL's parse tree (Proofs/PrintBackDTop.v); the core driver evaluates it (command
# `laid`).  Wherever it answers yes the implementation must print exactly the normalised input — not only on the documents the
# generator knows to be spelled consistently (`kind == exact`).
import common as _common
_laid_cache = {}
_laid_state = {"built": None}


def _laid(text):
    if text not in _laid_cache:
        if _laid_state["built"] is None:
            with _common.build_lock():
                _laid_state["built"] = _common.build_driver("core").ok
        todo = [t for t in dict.fromkeys(_laid_all + [text]) if t not in _laid_cache]
        if _laid_state["built"]:
            outs = _common.run_lines(_common.driver_bin("core"), [_common.case_line("laid", [t]) for t in todo])
            for t, o in zip(todo, outs):
                _laid_cache[t] = (o or "").strip()
        else:
            for t in todo:
                _laid_cache[t] = "laid=unknown"
    return _laid_cache[text]


def oracle(case, line):
    if not line.startswith("ok "):
        return "valid document rejected"
    text = case.args[0]
    ph = _field(line, "print")
    printed = b"" if ph == "-" else bytes.fromhex(ph)
    if _field(line, "reparse") != "same":
        return "printed text does not decode to the same data (%s)" % _field(line, "reparse")
    if _field(line, "fix") != "yes":
        return "printed text is not a fixed point of parse-then-print"
    if T.comments(printed) != T.comments(text):
        return "comments changed: %r -> %r" % (T.comments(text)[:5], T.comments(printed)[:5])
    if case.meta.get("kind") == "exact":
        if printed != T.normalize(text):
            return "printed text differs from the normalised input"
    elif case.cmd == "rt" and printed != T.normalize(text) and _laid(text) == "laid=yes":
        return "printed text differs from the normalised input although the document meets the side condition of C03_exact (laid_out')"
    return None


def compare(case, model_line, impl_line):
    return None if model_line == impl_line else "model and implementation print differently"


def nontrivial(case, line):
    return case.meta.get("n", 0) >= 2


def search(rng, ctx):
    return gen_cases(rng, "quick")
