"""C01 — The parser accepts exactly the valid TOML 1.0.0 documents.

Oracles (all judged on the implementation's verdict):
  * abstract-first documents: the reference interpreter `ref_eval` (claims semantics) +
    `within_limits`; U1 sequences are skipped and counted;
  * byte x position sweeps: the ABNF byte classes of toml.abnf 1.0.0 (lib/toml_text.py);
  * toml-test 1.0.0 corpus: the directory (valid/invalid) the file lives in;
  * mutations and truncations: the extracted model's verdict (tied to the spec by the
    theorems of Props/C01.v);
  * every front end gives the same verdict (`docf`), bytes that are not UTF-8 are refused.
"""
import glob, os, random
from runner import Case
import gen_toml as G
import toml_text as T

PROP = "C01"
COQ_PROPS = "Props/C01.v"
COQ_PROPS_EXTRA = ["Props/C01tokens.v", "Props/C01doc.v", "Props/C01front.v", "Props/C01front2.v"]
THEOREMS = [
    "C01_classes: the byte classes generated from the Rust source equal the ABNF classes (all 256 bytes each)",
    "C01_tokens / C01_datetime_ranges / C01_float_guard: the token constants, the RFC 3339 range constants and the float-overflow guards of the current source equal the specification's",
    "Props/C01tokens.v (31 theorems): every token of the grammar - sound, complete, commits only where no derivation exists; Props/C01doc.v: C01_sound, C01_complete, C01_invalid_rejected, C01_exact, C01_only_limits_refused for whole documents; Props/C01front.v / C01front2.v: the serde front ends of both crates (from_str, from_slice with its UTF-8 gate, toml::Value / Table) accept exactly what the document parser accepts, outside the private-key class F14 (names in coverage.theorem_names)",
]
RULE = ("abstract-first documents rendered in every lexical variant (valid by construction or with one "
        "definition-rule breach), byte x position sweeps (one document per byte value per lexical context), "
        "the toml-test corpus, token/byte mutations and truncations; non-trivial = distinct input that is not a "
        "corpus file verbatim and reaches at least one statement")
ASSUMPTIONS = ["expected verdicts of mutated inputs come from the extracted model (Model/*.v), whose byte classes are proved equal to the ABNF's"]

F14_FIELD = b"$__toml_private_datetime"


def corpus_files():
    base = glob.glob(os.path.expanduser("~/.cargo/registry/src/*/toml-test-data-1.15.0/assets/toml-test/tests"))
    if not base:
        return []
    base = base[0]
    listing = os.path.join(base, "files-toml-1.0.0")
    out = []
    if os.path.exists(listing):
        for line in open(listing):
            line = line.strip()
            if line.endswith(".toml"):
                p = os.path.join(base, line)
                if os.path.exists(p):
                    out.append((line, open(p, "rb").read()))
    return out


# byte x position sweeps: (name, prefix, suffix, predicate on byte -> expected valid)
def _sweeps():
    A = T.ABNF
    simple_esc = set(b'btnfr"\\')
    dig = A["digit"]
    return [
        ("comment", b"# x", b"y\n", lambda b: b in A["non-eol"]),
        ("basic", b'a = "x', b'y"\n', lambda b: b in A["basic-unescaped"]),
        ("ml-basic", b'a = """x', b'y"""\n', lambda b: b in A["mlb-unescaped"] or b in (0x0a, 0x22)),
        ("literal", b"a = 'x", b"y'\n", lambda b: b in A["literal-char"]),
        ("ml-literal", b"a = '''x", b"y'''\n", lambda b: b in A["mll-char"] or b in (0x0a, 0x27)),
        ("bare-key", b"x", b"y = 1\n", lambda b: b in A["unquoted-key-char"] or b == 0x2e),
        ("header-key", b"[x", b"y]\n", lambda b: b in A["unquoted-key-char"] or b == 0x2e),
        ("after-value", b'a = "s"', b"\n", lambda b: b in (0x20, 0x09, 0x23, 0x0a, 0x0d)),
        ("escape", b'a = "\\', b'"\n', lambda b: b in simple_esc),
        ("u-escape", b'a = "\\u00', b'1"\n', lambda b: b in A["hexdig"]),
        ("U-escape", b'a = "\\U0000', b'041"\n', lambda b: b in A["hexdig"]),
        ("dec-int", b"a = 1", b"2\n", lambda b: b in dig or b in b"_.eE#"),
        ("hex-int", b"a = 0x1", b"2\n", lambda b: b in A["hexdig"] or b in (0x5f, 0x23)),
        ("oct-int", b"a = 0o1", b"2\n", lambda b: b in A["octdig"] or b in (0x5f, 0x23)),
        ("bin-int", b"a = 0b1", b"1\n", lambda b: b in A["bindig"] or b in (0x5f, 0x23)),
        ("before-equals", b"a", b"= 1\n", lambda b: b in A["wschar"] or b in A["unquoted-key-char"]),
        ("between-statements", b"a = 1", b"b = 2\n", lambda b: b in (0x0a, 0x23)),
        ("dt-delim", b"a = 1979-05-27", b"07:32:00\n", lambda b: b in b"Tt #"),
        ("array-sep", b"a = [1", b"2]\n", lambda b: b in dig or b in b"_.eE,"),
        ("frac-digit", b"a = 1.", b"5\n", lambda b: b in dig),
        ("exp-sign", b"a = 1e", b"5\n", lambda b: b in dig or b in b"+-"),
        ("inline-sep", b"a = {x = 1", b"y = 2}\n", lambda b: b == 0x2c),
        ("key-dot-ws", b"a.", b"b = 1\n", lambda b: b in A["wschar"] or b in A["unquoted-key-char"]),
        ("first-byte", b"", b"a = 1\n", lambda b: b in A["wschar"] or b in A["unquoted-key-char"] or b in (0x0a, 0x23)),
        ("doc-dispatch", b"a = 1\n", b"\n", lambda b: b in A["wschar"] or b in (0x0a, 0x0d, 0x23)),
    ]


def gen_cases(rng, tier):
    out = []
    # 1. sweeps (ASCII bytes; bytes >= 0x80 are exercised through valid multi-byte characters below)
    for name, pre, suf, pred in _sweeps():
        for b in range(128):
            out.append(Case("doc", [pre + bytes([b]) + suf], {"kind": "sweep:" + name, "expect": "ok" if pred(b) else "err"}))
        for mb in ("é".encode(), "日".encode(), "😀".encode(), "\u0080".encode(), "퟿".encode(), "".encode(), "\U0010ffff".encode()):
            exp = name in ("comment", "basic", "ml-basic", "literal", "ml-literal")
            out.append(Case("doc", [pre + mb + suf], {"kind": "sweep:" + name, "expect": "ok" if exp else "err"}))
    # 2. corpus
    for name, data in corpus_files():
        if not G.utf8_ok(data):
            out.append(Case("docf", [data], {"kind": "corpus-bytes", "expect_slice": "err"}))
            continue
        out.append(Case("doc", [data], {"kind": "corpus", "expect": "ok" if name.startswith("valid/") else "err", "file": name}))
    # 3. abstract-first documents
    n_docs = 6000 if tier == "quick" else 200000
    docs = []
    for _ in range(n_docs):
        tg = G.TreeGen(rng, small_keys=rng.random() < 0.3)
        st = tg.statements(tg.tree())
        if rng.random() < 0.35:
            st = tg.perturb(st)
        v = G.ref_eval(st)
        text = G.Renderer(rng, plain=rng.random() < 0.15).document(st)
        if v[0] == "undecided":
            out.append(Case("doc", [text], {"kind": "abstract-U1", "expect": "skip"}))
            continue
        lim = G.within_limits(st)
        exp = "ok" if (v[0] == "valid" and lim) else ("err" if v[0] == "invalid" else "limits")
        if not lim and v[0] == "valid":
            exp = "err"           # beyond the documented limits: must be refused (not wrapped / accepted)
        out.append(Case("doc", [text], {"kind": "abstract-" + v[0], "expect": exp}))
        if v[0] == "valid" and lim:
            docs.append(text)
    # 4. mutations / truncations of valid documents and corpus (expected = model)
    n_mut = 8000 if tier == "quick" else 1000000
    pool = docs[:2000] + [d for n, d in corpus_files() if n.startswith("valid/") and G.utf8_ok(d)]
    for _ in range(n_mut):
        base = rng.choice(pool)
        m = G.mutate(rng, base, rng.choice([1, 1, 2, 3]))
        if G.utf8_ok(m):
            out.append(Case("doc", [m], {"kind": "mutation", "expect": "model"}))
        else:
            out.append(Case("docf", [m], {"kind": "mutation-bytes", "expect_slice": "err"}))
    if tier != "quick":
        for base in pool[:300]:
            for i in range(len(base)):
                t = base[:i]
                if G.utf8_ok(t):
                    out.append(Case("doc", [t], {"kind": "truncation", "expect": "model"}))
    else:
        for base in pool[:25]:
            for i in range(len(base)):
                t = base[:i]
                if G.utf8_ok(t):
                    out.append(Case("doc", [t], {"kind": "truncation", "expect": "model"}))
    # 5. front ends agree
    for text in docs[:1500] + [c.args[0] for c in out[:3000:7] if c.cmd == "doc"]:
        out.append(Case("docf", [text], {"kind": "frontends"}))
    # limits: integers and floats at the edges, nesting at the limit (C05 covers nesting in depth)
    for lit, exp in [(b"9223372036854775807", "ok"), (b"9223372036854775808", "err"), (b"-9223372036854775808", "ok"),
                     (b"-9223372036854775809", "err"), (b"0x7fffffffffffffff", "ok"), (b"0x8000000000000000", "err"),
                     (b"0o777777777777777777777", "ok"), (b"0o1000000000000000000000", "err"),
                     (b"0b" + b"1" * 63, "ok"), (b"0b1" + b"0" * 63, "err"),
                     (b"1e308", "ok"), (b"1e309", "err"), (b"-1e309", "err"), (b"1.7976931348623157e308", "ok"),
                     (b"1.7976931348623159e308", "err"), (b"-1.7976931348623159e308", "err"), (b"1e-400", "ok")]:
        out.append(Case("doc", [b"a = " + lit + b"\n"], {"kind": "limit-literal", "expect": exp}))
    for n, exp in [(78, "ok"), (79, "ok"), (80, "err"), (200, "err")]:
        out.append(Case("doc", [b"a = " + b"[" * n + b"]" * n + b"\n"], {"kind": "limit-nesting", "expect": exp}))
    # width is not nesting: wide containers of containers are valid at any width (also inside inline tables, where the parser
    # computes the nesting of each pair's value)
    for n in (2, 77, 78, 79, 80, 200):
        for elem in (b"[0]", b"{x = 1}", b"{y.z = [1]}"):
            wide = b"[" + b", ".join([elem] * n) + b"]"
            for text in (b"a = " + wide + b"\n", b"a = {p = " + wide + b"}\n", b"[t]\nq.r = {p = " + wide + b", s = 1}\n"):
                out.append(Case("doc", [text], {"kind": "limit-width", "expect": "ok"}))
    # the limits are per construct and per nesting: many containers in a row (the empty ones included) and a dotted key next to a
    # nested value, each below its own limit, are valid documents within the limits however large their count or their sum
    for n in (80, 100, 300):
        for e in (b"[]", b"[ ]", b"{}", b"[[]]", b"{x = []}", b"[1]"):
            out.append(Case("doc", [b"".join(b"k%d = " % i + e + b"\n" for i in range(n))], {"kind": "limit-count", "expect": "ok"}))
            out.append(Case("doc", [b"a = [" + b", ".join([e] * n) + b"]\n"], {"kind": "limit-count", "expect": "ok"}))
            out.append(Case("doc", [b"".join(b"[[p]]\nd = " + e + b"\n" for i in range(n))], {"kind": "limit-count", "expect": "ok"}))
    for nd, nv in ((41, 40), (50, 50), (20, 70), (77, 77)):
        key = b".".join([b"k"] * nd)
        out.append(Case("doc", [key + b" = " + b"[" * nv + b"1" + b"]" * nv + b"\n"], {"kind": "limit-sum", "expect": "ok"}))
        out.append(Case("doc", [b"[t." + key + b"]\n" + key + b" = " + b"[" * nv + b"1" + b"]" * nv + b"\n"], {"kind": "limit-sum", "expect": "ok"}))
    out.extend(datetime_grid())
    return out


def _days_in_month(y, m):
    if m == 2:
        return 29 if (y % 4 == 0 and (y % 100 != 0 or y % 400 == 0)) else 28
    return 30 if m in (4, 6, 9, 11) else 31


def datetime_grid():
    """every month x day edge, every time-field edge and every offset edge, judged by RFC 3339's table written out
    here (independent of both parsers): complete for any single change of a range bound or of the month table"""
    out = []

    def add(lit, ok, kind):
        out.append(Case("doc", [b"a = " + lit.encode() + b"\n"], {"kind": "datetime-grid:" + kind, "expect": "ok" if ok else "err"}))
    for y in (1900, 1979, 2000, 2023, 2024):
        for m in range(0, 14):
            for d in (0, 1, 27, 28, 29, 30, 31, 32):
                ok = 1 <= m <= 12 and 1 <= d <= _days_in_month(y, m)
                add("%04d-%02d-%02d" % (y, m, d), ok, "date")
                if y == 2024 or d >= 28:
                    add("%04d-%02d-%02dT07:32:00Z" % (y, m, d), ok, "date-in-datetime")
    for h in (0, 1, 12, 22, 23, 24, 25, 59, 60, 99):
        add("%02d:00:00" % h, h <= 23, "hour")
        add("1979-05-27T%02d:00:00" % h, h <= 23, "hour")
    for mi in (0, 1, 58, 59, 60, 61, 99):
        add("07:%02d:00" % mi, mi <= 59, "minute")
        add("1979-05-27 07:%02d:00-07:00" % mi, mi <= 59, "minute")
    for sec in (0, 1, 58, 59, 60, 61, 62, 99):
        add("07:32:%02d" % sec, sec <= 60, "second")
        add("1979-05-27T07:32:%02d.5Z" % sec, sec <= 60, "second")
    for sign in "+-":
        for oh in (0, 1, 12, 22, 23, 24, 25, 99):
            for om in (0, 1, 30, 58, 59, 60, 61, 99):
                add("1979-05-27T07:32:00%s%02d:%02d" % (sign, oh, om), oh <= 23 and om <= 59, "offset")
    return out


def _verdict(line):
    return line.split(" ", 1)[0]


def oracle(case, line):
    m = case.meta
    if case.cmd == "docf":
        f = dict(kv.split("=") for kv in line.split(" "))
        if f.get("utf8") == "no":
            return None if f.get("slice") == "err" else "from_slice accepted bytes that are not UTF-8"
        vs = {k: v for k, v in f.items() if k != "utf8"}
        if len(set(vs.values())) != 1:
            if F14_FIELD in case.args[0]:
                return "front ends disagree (private datetime key): %s" % line
            return "front ends give different verdicts: %s" % line
        return None
    exp = m.get("expect")
    v = _verdict(line)
    if exp in ("ok", "err") and v != exp:
        return "%s document %s (%s)" % ("valid" if exp == "ok" else "invalid", "rejected" if v == "err" else "accepted", m.get("kind"))
    return None


def compare(case, model_line, impl_line):
    # C01 observes verdicts only
    if case.cmd == "docf":
        return None if model_line == impl_line else "front-end verdicts differ from the model"
    mv, iv = _verdict(model_line), _verdict(impl_line)
    if mv == iv:
        return None
    return "model %s, implementation %s" % (mv, iv)


def known_class(case, line):
    if case.cmd == "docf" and F14_FIELD in case.args[0]:
        return "private-datetime-key"
    return None


def nontrivial(case, line):
    return case.meta.get("kind") != "corpus" and len(case.args[0]) > 2


def search(rng, ctx):
    # sweeps are already complete; add more abstract documents and mutations around divergences
    extra = []
    for c, il, ml, d in ctx["divergences"][:200]:
        # a divergence on verdict is itself the failing input for C01: the model is tied to the spec
        cc = Case(c.cmd, c.args, dict(c.meta, expect=_verdict(ml) if ml else None, kind="divergence"))
        extra.append(cc)
    return extra + gen_cases(rng, "quick")


def shrink(case, il, why, run):
    if case.cmd != "doc" or case.meta.get("expect") not in ("ok", "err"):
        return case, il, why
    # line-based delta debugging is only sound when the expectation is structural; keep sweeps as they are
    return case, il, why
