"""C09 — No key or table definition is ever silently overwritten or merged.

Exhaustive small-scope enumeration (a search, not the proof): every sequence of up to N statements
drawn from {[p], [[p]], p = 1, p = {q = 1}, p = {q.r = 1}, p = [1]} over all key paths of length <= 2
on {a, b}, keys spelled bare or quoted at random, plus random longer sequences on {a, b, c} with paths
up to length 3.  Oracle on the implementation: the verdict and, when valid, the merged tree of the
reference interpreter `ref_eval` (claims semantics, DESIGN.md 3.2); sequences in class U1 are skipped
and counted.  The Coq side (Spec/Defs.v, Proofs/DefsEquiv*.v, Props/C09.v) proves the model's state
machine equivalent to the same specification for ALL sequences.
"""
import itertools
from runner import Case
import gen_toml as G

PROP = "C09"
COQ_PROPS = "Props/C09.v"
THEOREMS = ["Props/C09.v (10): on every statement sequence outside the undecided class U1 the parser state machine accepts exactly what the claims specification accepts and builds the same content; no panic; the verdict does not depend on how keys are spelled; the same for pair sequences inside inline tables (names in coverage.theorem_names)"]
RULE = ("all statement sequences of length <= 3 (quick) / <= 4 (thorough) over 6 statement forms x 6 paths, random "
        "bare/quoted spelling; random longer sequences; non-trivial = sequence of >= 2 statements where a later statement "
        "touches a path prefix of an earlier one")
ASSUMPTIONS = ["expected verdict/tree from the Python reference interpreter ref_eval (cross-checked with the Coq spec by the agent's vm_compute enumeration)"]

FORMS = ["hdr", "aot", "kv1", "kvinl", "kvinld", "kvarr", "kvinl0", "kvarrinl", "kvarr0"]


def mk(form, path):
    if form == "hdr":
        return ("hdr", list(path))
    if form == "aot":
        return ("aot", list(path))
    if form == "kv1":
        return ("kv", list(path), ("i", 1))
    if form == "kvinl":
        return ("kv", list(path), ("t", [([b"q"], ("i", 1))]))
    if form == "kvinld":
        return ("kv", list(path), ("t", [([b"q", b"r"], ("i", 1))]))
    if form == "kvinl0":
        return ("kv", list(path), ("t", []))                                  # an EMPTY inline table literal is as closed as any other
    if form == "kvarrinl":
        return ("kv", list(path), ("a", [("t", [([b"q"], ("i", 1))])]))      # a static array of inline tables is not an array of tables
    if form == "kvarr0":
        return ("kv", list(path), ("a", []))
    return ("kv", list(path), ("a", [("i", 1)]))


def bareable(k):
    return len(k) > 0 and all(chr(c).isalnum() and c < 128 or c in b"-_" for c in k)


def spell(rng, k):
    """one of the spellings of key k: bare (when possible), basic (escaping what must be escaped), literal (when possible)"""
    opts = []
    if bareable(k):
        opts += ["bare"] * 3
    opts.append("basic")
    if b"'" not in k and all(c >= 0x20 and c != 0x7f or c == 9 for c in k):
        opts.append("literal")
    o = rng.choice(opts)
    if o == "bare":
        return k
    if o == "literal":
        return b"'" + k + b"'"
    esc = b""
    for c in k:
        if c == 0x22:
            esc += b'\\"'
        elif c == 0x5c:
            esc += b"\\\\"
        elif c < 0x20 or c == 0x7f:
            esc += b"\\u%04X" % c
        else:
            esc += bytes([c])
    return b'"' + esc + b'"'


# keys that cannot be written bare: the stored key text and its default spelling differ
ODD_KEYS = [b"a b", b"", b"a.b", "é".encode(), b"a\"b", b"'", b" ", b"a\tb"]


def render_value(rng, v):
    if v[0] == "i":
        return b"1"
    if v[0] == "a":
        return b"[" + b", ".join(render_value(rng, e) for e in v[1]) + b"]"
    return render_inline(rng, v)


def render_inline(rng, v):
    """{ path = value, path = value } with every key spelled at random"""
    pairs = []
    for path, val in v[1]:
        pairs.append(b".".join(spell(rng, k) for k in path) + b" = " + render_value(rng, val))
    return b"{" + b", ".join(pairs) + b"}"


def render(rng, stmts):
    out = []
    for st in stmts:
        keys = []
        for k in st[1]:
            keys.append(spell(rng, k))
        p = b".".join(keys)
        if st[0] == "hdr":
            out.append(b"[" + p + b"]")
        elif st[0] == "aot":
            out.append(b"[[" + p + b"]]")
        else:
            out.append(p + b" = " + render_value(rng, st[2]))
    return b"\n".join(out) + b"\n"


def touches(stmts):
    paths = [tuple(s[1]) for s in stmts]
    for i in range(len(paths)):
        for j in range(i):
            a, b = paths[i], paths[j]
            n = min(len(a), len(b))
            if a[:n] == b[:n]:
                return True
    return False


def gen_cases(rng, tier):
    out = []
    alpha = [b"a", b"b"]
    paths = [(x,) for x in alpha] + [(x, y) for x in alpha for y in alpha]
    atoms = [mk(f, p) for f in FORMS for p in paths]
    maxn = 3 if tier == "quick" else 4

    def add(stmts, kind):
        v = G.ref_eval(stmts)
        exp = {"valid": "ok", "invalid": "err", "undecided": "skip"}[v[0]]
        meta = {"kind": kind, "expect": exp, "n": len(stmts), "touch": touches(stmts)}
        if v[0] == "valid":
            meta["tree"] = G.dump_tab(v[1])
        out.append(Case("doc", [render(rng, stmts)], meta))

    atoms6 = [mk(f, p) for f in FORMS[:6] for p in paths]
    for n in range(1, maxn + 1):
        if n == 4:
            # 4-statement sequences: exhaustive over the six original forms (36^4), a sample over all nine (54^4 = 8.5M)
            for seq in itertools.product(atoms6, repeat=4):
                add(list(seq), "enum4")
            for _ in range(600000):
                add([rng.choice(atoms) for _ in range(4)], "enum4-sample")
            continue
        for seq in itertools.product(atoms, repeat=n):
            add(list(seq), "enum%d" % n)
    # round 6 (`deep3`): one chain a.b.c.d.e; a first statement of every form at every prefix, then a [header] / [[header]] at a
    # prefix, then a dotted key continuing the chain below that header by 1 to 4 segments - so that a dotted key reaches an
    # array-of-tables element, an inline table, a static array or a scalar at ITS second, third or fourth segment (a check
    # applied to the first segment only was missed by the <= 3-segment enumeration: seeded change C09-r6-m1)
    chain = [b"a", b"b", b"c", b"d", b"e"]
    for f1 in FORMS:
        for i in range(1, 5):
            for f2 in ("hdr", "aot"):
                for j in range(1, 5):
                    for f3 in ("kv1", "kvinl", "kvarr"):
                        for m in range(j + 1, 6):
                            add([mk(f1, chain[:i]), mk(f2, chain[:j]), mk(f3, chain[j:m])], "deep3")
    # ... and with a second header in between (super-table declared after the sub-table / array, then the dotted key)
    for f1 in ("hdr", "aot"):
        for i in range(2, 5):
            for f2 in ("hdr", "aot"):
                for j in range(1, i):
                    for f3 in ("kv1", "kvinl"):
                        for m in range(i, 6):
                            if m > j:
                                add([mk(f1, chain[:i]), mk(f2, chain[:j]), mk(f3, chain[j:m])], "deep3-super")
    # the same enumeration over keys that cannot be written bare (the key's text differs from every spelling of it)
    odd = [b"a b", b""]
    opaths = [(x,) for x in odd] + [(x, y) for x in odd for y in odd]
    oatoms = [mk(f, p) for f in FORMS for p in opaths]
    for n in range(1, maxn + 1 if tier != "quick" else 3 + 1):
        if n == 4:
            break                # 36^4 is done once, on the plain alphabet
        for seq in itertools.product(oatoms, repeat=n):
            add(list(seq), "enum-odd%d" % n)
    # INSIDE one inline table: every sequence of <= 3 pairs over paths of length <= 3 on {a, b} with values
    # 1 / {c = 1} / {c.d = 1} / [1] - a dotted key may not enter or extend an inline table, an array or a scalar defined by an
    # earlier pair, whatever the depth at which they meet
    ipaths = [(x,) for x in alpha] + [(x, y) for x in alpha for y in alpha] + [(b"a", b"b", y) for y in (b"a", b"d")]
    # round 6: a check that looks at the FIRST segment of a dotted key only (or at the first k) is invisible on paths of <= 3
    # segments: paths of 4 and 5 segments running through an earlier pair's inline table / array / scalar at depth 2 and 3
    ipaths += [(b"a", b"b", b"c", b"d"), (b"a", b"b", b"a", b"d"), (b"a", b"b", b"c", b"d", b"e")]
    ivals = [("i", 1), ("t", [([b"c"], ("i", 1))]), ("t", [([b"c", b"d"], ("i", 1))]), ("a", [("i", 1)]), ("t", []), ("a", [("t", [([b"c"], ("i", 1))])])]
    iatoms = [(list(pth), v) for pth in ipaths for v in ivals]
    for n in (1, 2, 3):
        seqs = itertools.product(iatoms, repeat=n)
        if n == 3 and tier == "quick":
            seqs = [tuple(rng.choice(iatoms) for _ in range(3)) for _ in range(6000)]
        for seq in seqs:
            add([("kv", [b"t"], ("t", [(p_, v_) for p_, v_ in seq]))], "inline%d" % n)
    # random longer sequences
    alpha3 = [b"a", b"b", b"c"]
    n_rand = 12000 if tier == "quick" else 150000
    for _ in range(n_rand):
        n = rng.randrange(4, 9)
        seq = []
        alpha3 = [b"a", b"b", b"c"]
        if rng.random() < 0.4:       # some or all keys of this sequence cannot be written bare
            pool = rng.sample(ODD_KEYS, 3)
            alpha3 = [pool[i] if rng.random() < 0.7 else alpha3[i] for i in range(3)]
        for _k in range(n):
            plen = rng.choice([1, 1, 2, 2, 3])
            p = tuple(rng.choice(alpha3) for _ in range(plen))
            if seq and rng.random() < 0.5:
                # bias towards collisions: reuse / extend / truncate an earlier path
                q = tuple(rng.choice(seq)[1])
                p = rng.choice([q, q + (rng.choice(alpha3),), q[:-1] or q])[:3]
            seq.append(mk(rng.choice(FORMS), p))
        add(seq, "random")
    return out


def _field(line, name):
    for part in line.split(" "):
        if part.startswith(name + "="):
            return part[len(name) + 1:]
    return None


def oracle(case, line):
    exp = case.meta["expect"]
    if exp == "skip":
        return None
    v = line.split(" ", 1)[0]
    if exp == "err":
        return None if v == "err" else "a forbidden definition was accepted (silently merged or overwritten)"
    if v != "ok":
        return "a permitted combination was rejected"
    if _field(line, "tree") != case.meta["tree"]:
        return "accepted, but the merged tree differs from the specification's"
    return None


def compare(case, model_line, impl_line):
    return None if model_line.split(" print=")[0] == impl_line.split(" print=")[0] else "verdict or tree differs"


def nontrivial(case, line):
    return case.meta["n"] >= 2 and case.meta["touch"]


def extra_coverage(cases, impl, model):
    import collections
    c = collections.Counter(x.meta["expect"] for x in cases)
    return {"expected_valid": c["ok"], "expected_invalid": c["err"], "u1_skipped": c["skip"], "exhaustive": True,
            "exhaustive_bound": "all sequences of <= %d statements over 36 statement atoms" % max(x.meta["n"] for x in cases if x.meta["kind"].startswith("enum"))}


def search(rng, ctx):
    return gen_cases(rng, "quick")
